//! C06 — evaluation steps evaluate everyone once; the evaluation count is exact.
//! (1) component level: real `PopulationEvaluator`s inside a real `Configuration::run` on prepared
//!     population stacks, call-logging objective, Sequential/Parallel evaluators, rayon pools,
//!     identifiers Global and a custom one, missing evaluator;
//! (2) a loop guarded by `LessThanN::evaluations(n)` (budget overshoot);
//! (3) run level: every leaf step of runs of all 21 templates: counter delta vs. objective calls; (3b) `rerun`: the same
//!     for 2..3 consecutive `Configuration::run`s of a template on one state;
//! (4) the generic loop functions `heuristics::xx::xx::<P, I>` with `I = identifier::A` (`hcommon::templates_generic`):
//!     runs on a state holding ONLY `Evaluator<P, A>` (must complete, count exact) and ONLY `Evaluator<P, Global>`
//!     (must fail before anything executes); `--generic-trees` prints their serialised trees for the regenerated layer.
//! (5) `cfgruns`: generated configuration TREES (evaluation steps at top level, inside `Scope`s of depth 1..3, inside
//!     `Loop` / `Branch` bodies; iteration- and evaluation-budget loops) run through `Configuration::run` one after the
//!     other ON THE SAME `State` (1..3 runs, same or different configurations), with registered and unregistered
//!     evaluator identifiers;
//! (6) `direct`: a single `PopulationEvaluator<I>` executed directly (`Component::execute`, no `Configuration::run`,
//!     hence no `require`) on a state with / without `Evaluator<P, I>`.
use std::collections::HashMap;
use std::sync::{Arc, Mutex};

use hcommon::templates::*;
use hcommon::templates_generic::{generic_tree, run_generic, Registered, GENERIC_TEMPLATES};
use hcommon::*;
use mahf::conditions::LessThanN;
use mahf::problems::{ObjectiveFunction, Parallel, Sequential};
use mahf::state::common::{Evaluations, Populations};
use mahf::verif::Phase;
use mahf::{Configuration, Individual, Problem, SingleObjective, State};

/// Solutions are ids; the objective is a table; every call is logged with its solution id.
#[derive(Clone)]
struct TableProblem {
    f: Arc<Vec<f64>>,
    log: Arc<Mutex<Vec<u64>>>,
}
impl Problem for TableProblem {
    type Encoding = u64;
    type Objective = SingleObjective;
    fn name(&self) -> &str { "table" }
}
impl ObjectiveFunction for TableProblem {
    fn objective(&self, s: &u64) -> SingleObjective {
        self.log.lock().unwrap().push(*s);
        SingleObjective::try_from(self.f[*s as usize]).unwrap()
    }
}
type P = TableProblem;

#[derive(Default, Copy, Clone, serde::Serialize)]
struct CustomId;

fn ind_s(i: &Individual<P>) -> String {
    match i.get_objective() {
        None => format!("({})", i.solution()),
        Some(o) => format!("({} {})", i.solution(), fx(o.value())),
    }
}
fn pop_s(p: &[Individual<P>]) -> String { list(p.iter().map(ind_s)) }
fn mk_ind(x: &Sx) -> Individual<P> {
    let v = x.items().unwrap();
    let s = v[0].nat().unwrap();
    if v.len() > 1 {
        Individual::new(s, SingleObjective::try_from(v[1].float().unwrap()).unwrap())
    } else {
        Individual::new_unevaluated(s)
    }
}

fn pools() -> &'static HashMap<usize, rayon::ThreadPool> {
    static POOLS: std::sync::OnceLock<HashMap<usize, rayon::ThreadPool>> = std::sync::OnceLock::new();
    POOLS.get_or_init(|| {
        [1usize, 2, 3, 4, 8, 16].iter().map(|&n| (n, rayon::ThreadPoolBuilder::new().num_threads(n).build().unwrap())).collect()
    })
}

fn in_pool<R: Send>(threads: usize, f: impl FnOnce() -> R + Send) -> R {
    match pools().get(&threads) {
        Some(p) => p.install(f),
        None => f(),
    }
}

fn err_kind(e: &eyre::Report) -> &'static str {
    let s = format!("{e:?}");
    if s.contains("missing") || s.contains("require") { "required" } else { "exec" }
}

/// `(evalsteps (ev seq|par T) (reg g a) (f x…) (steps …))`
fn run_evalsteps(a: &[Sx]) -> String {
    let (_, ev) = a[0].head().unwrap();
    let par = ev[0].atom().unwrap() == "par";
    let threads = ev[1].nat().unwrap() as usize;
    let reg: Vec<String> = a[1].head().unwrap().1.iter().map(|x| x.atom().unwrap().to_string()).collect();
    let ftab: Vec<f64> = a[2].head().unwrap().1.iter().map(|x| x.float().unwrap()).collect();
    let steps = a[3].head().unwrap().1.to_vec();
    in_pool(threads, move || {
        let problem = TableProblem { f: Arc::new(ftab), log: Default::default() };
        let recs: Arc<Mutex<Vec<String>>> = Default::default();
        let seen: Arc<Mutex<usize>> = Default::default();
        let mut b = Configuration::<P>::builder();
        for st in &steps {
            let (name, args) = st.head().unwrap();
            match name {
                "push" => {
                    let pop: Vec<Individual<P>> = args[0].items().unwrap().iter().map(mk_ind).collect();
                    b = b.debug(move |_p, state: &mut State<P>| state.populations_mut().push(pop.clone()));
                }
                "pop" => {
                    b = b.debug(|_p, state: &mut State<P>| { state.populations_mut().pop(); });
                }
                "eval" => {
                    b = if args[0].atom().unwrap() == "g" { b.evaluate() } else { b.evaluate_with::<CustomId>() };
                    let (recs, seen) = (recs.clone(), seen.clone());
                    b = b.debug(move |p: &P, state: &mut State<P>| {
                        let log = p.log.lock().unwrap();
                        let mut seen = seen.lock().unwrap();
                        let calls = tagged("calls", log[*seen..].iter().map(|s| s.to_string()));
                        *seen = log.len();
                        let top = match state.populations().get_current() {
                            None => "notop".to_string(),
                            Some(t) => tagged("top", t.iter().map(ind_s)),
                        };
                        recs.lock().unwrap().push(format!("(ev {} {} {})", state.evaluations(), calls, top));
                    });
                }
                other => panic!("unknown step {other}"),
            }
        }
        let config = b.build();
        let mut state: State<P> = State::new();
        state.insert(Populations::<P>::new());
        for r in &reg {
            match (r.as_str(), par) {
                ("g", false) => state.insert_evaluator(Sequential::<P>::new()),
                ("g", true) => state.insert_evaluator(Parallel::<P>::new()),
                ("a", false) => state.insert_evaluator_as::<CustomId>(Sequential::<P>::new()),
                ("a", true) => state.insert_evaluator_as::<CustomId>(Parallel::<P>::new()),
                _ => {}
            }
        }
        let res = match catch(|| config.run(&problem, &mut state)) {
            None => "(res panic)".to_string(),
            Some(Ok(())) => "(res ok)".to_string(),
            Some(Err(e)) => format!("(res (e {}))", err_kind(&e)),
        };
        let evals = state.try_get_value::<Evaluations>().ok().map(|v| v.to_string()).unwrap_or("none".into());
        let ncalls = problem.log.lock().unwrap().len();
        let stack = catch(|| {
            let pops = state.populations();
            (0..pops.len()).map(|d| pop_s(pops.peek(d))).collect::<Vec<_>>()
        })
        .unwrap_or_default();
        let recs = recs.lock().unwrap().clone();
        list([res, tagged("evs", recs), format!("(final (evals {}) (ncalls {}) {})", evals, ncalls, tagged("stack", stack))])
    })
}

/// `(budget (n N) (m M))`
fn run_budget(a: &[Sx]) -> String {
    let n = a[0].head().unwrap().1[0].nat().unwrap() as u32;
    let m = a[1].head().unwrap().1[0].nat().unwrap();
    let problem = TableProblem { f: Arc::new(vec![0.0; m as usize + 1]), log: Default::default() };
    let config = Configuration::<P>::builder()
        .while_(LessThanN::evaluations(n), |b| {
            b.debug(move |_p, state: &mut State<P>| {
                state.populations_mut().push((0..m).map(Individual::new_unevaluated).collect())
            })
            .evaluate()
            .debug(|_p, state: &mut State<P>| { state.populations_mut().pop(); })
        })
        .build();
    match catch(|| config.optimize(&problem, Sequential::<P>::new())) {
        Some(Ok(state)) => format!("((evals {}) (ncalls {}))", state.evaluations(), problem.log.lock().unwrap().len()),
        Some(Err(_)) => "err".into(),
        None => "panic".into(),
    }
}

/// An evaluator for `Sphere` that records into its OWN probe (never the problem's).
struct ProbeEval(hcommon::problems::Probe);
impl mahf::problems::Evaluate for ProbeEval {
    type Problem = hcommon::problems::Sphere;
    fn evaluate(&mut self, problem: &Self::Problem, _state: &mut State<Self::Problem>, individuals: &mut [Individual<Self::Problem>]) {
        for i in individuals {
            let probe = &self.0;
            i.evaluate_with(|s| {
                let v = problem.f(s);
                probe.record(v);
                SingleObjective::try_from(v).unwrap_or(SingleObjective::try_from(f64::INFINITY).unwrap())
            });
        }
    }
}

/// `(fa a|g (reg a g) (n N) (inst I) (iters K) (seed S))`: the firefly skeleton `fa::fa::<P, ID>` with
/// `FireflyPositionsUpdate::<ID>`; the evaluator under `ID` records into probe A, the evaluator under the
/// other identifier (if registered) into probe G.
fn run_fa(a: &[Sx]) -> String {
    use hcommon::problems::{Probe, Sphere};
    use mahf::components::{boundary, initialization, swarm, utils};
    use mahf::heuristics::fa;
    fn build<I: mahf::identifier::Identifier>(n: u32, iters: u32) -> Configuration<Sphere> {
        Configuration::builder()
            .do_(initialization::RandomSpread::new(n))
            .evaluate_with::<I>()
            .update_best_individual()
            .do_(fa::fa::<Sphere, I>(
                fa::Parameters {
                    firefly_update: swarm::fa::FireflyPositionsUpdate::<I>::new_with_id(0.25, 1.0, 0.01),
                    constraints: boundary::Saturation::new(),
                    alpha_update: utils::Noop::new(),
                },
                LessThanN::iterations(iters),
            ))
            .build()
    }
    let id = a[0].atom().unwrap();
    let reg: Vec<&str> = a[1].head().unwrap().1.iter().map(|x| x.atom().unwrap()).collect();
    let get = |k: usize| a[k].head().unwrap().1[0].nat().unwrap();
    let (n, inst, iters, seed) = (get(2) as u32, get(3) as u32, get(4) as u32, get(5));
    let problem = sphere_instance(inst);
    let (pa, pg) = (Probe::new(false), Probe::new(false));
    let config = if id == "a" { build::<CustomId>(n, iters) } else { build::<mahf::identifier::Global>(n, iters) };
    let r = catch(|| {
        config.optimize_with(&problem, |state| {
            state.insert(mahf::Random::new(seed));
            for r in &reg {
                let mine = *r == id;
                let ev = ProbeEval(if mine { pa.clone() } else { pg.clone() });
                if *r == "a" { state.insert_evaluator_as::<CustomId>(ev) } else { state.insert_evaluator(ev) }
            }
            Ok(())
        })
    });
    let (res, evals) = match r {
        None => ("panic".to_string(), "none".to_string()),
        Some(Err(e)) => (format!("(e {})", err_kind(&e)), "none".to_string()),
        Some(Ok(state)) => ("ok".to_string(), state.try_get_value::<Evaluations>().ok().map(|v| v.to_string()).unwrap_or("none".into())),
    };
    format!("((res {}) (evals {}) (callsA {}) (callsG {}))", res, evals, pa.count(), pg.count())
}

// ---------------------------------------------------------------------------------------------------------------
// (5) configuration trees, consecutive runs on one State

const REC_LIMIT: usize = 20000;

#[derive(Clone)]
struct Cx {
    recs: Arc<Mutex<Vec<String>>>,
    seen: Arc<Mutex<usize>>,
    e0: Arc<Mutex<String>>,
}
impl Cx {
    fn rec(&self, s: String) {
        let mut r = self.recs.lock().unwrap();
        if r.len() >= REC_LIMIT {
            drop(r);
            panic!("runaway configuration");
        }
        r.push(s);
    }
}
fn vis(state: &State<P>) -> String { on(state.try_get_value::<Evaluations>().ok()) }

type Builder = mahf::configuration::ConfigurationBuilder<P>;

fn mark(b: Builder, cx: &Cx, what: &'static str, with_evals: bool) -> Builder {
    let cx = cx.clone();
    b.debug(move |_p: &P, state: &mut State<P>| {
        if with_evals { cx.rec(format!("({} {})", what, vis(state))) } else { cx.rec(format!("({})", what)) }
    })
}

/// STEP := (push POP) | (pop) | (eval g|a|b) | (scope STEP…) | (loop-iter K (body STEP…)) | (loop-evals N (body STEP…))
///       | (branch N (then STEP…) [(else STEP…)])      -- condition of a branch: evaluations < N
fn build_steps(mut b: Builder, steps: &[Sx], cx: &Cx) -> Builder {
    for st in steps {
        let (name, args) = st.head().unwrap();
        b = match name {
            "push" => {
                let pop: Vec<Individual<P>> = args[0].items().unwrap().iter().map(mk_ind).collect();
                b.debug(move |_p, state: &mut State<P>| state.populations_mut().push(pop.clone()))
            }
            "pop" => b.debug(|_p, state: &mut State<P>| { state.populations_mut().pop(); }),
            "eval" => {
                let c0 = cx.clone();
                b = b.debug(move |_p: &P, state: &mut State<P>| *c0.e0.lock().unwrap() = vis(state));
                b = match args[0].atom().unwrap() {
                    "g" => b.evaluate(),
                    "a" => b.evaluate_with::<CustomId>(),
                    "b" => b.evaluate_with::<mahf::identifier::B>(),
                    other => panic!("unknown identifier {other}"),
                };
                let c1 = cx.clone();
                b.debug(move |p: &P, state: &mut State<P>| {
                    let calls = {
                        let log = p.log.lock().unwrap();
                        let mut seen = c1.seen.lock().unwrap();
                        let c = tagged("calls", log[*seen..].iter().map(|s| s.to_string()));
                        *seen = log.len();
                        c
                    };
                    let top = match state.populations().get_current() {
                        None => "notop".to_string(),
                        Some(t) => tagged("top", t.iter().map(ind_s)),
                    };
                    let e0 = c1.e0.lock().unwrap().clone();
                    c1.rec(format!("(ev {} {} {} {})", e0, vis(state), calls, top));
                })
            }
            "scope" => {
                let b = b.scope_(|inner| build_steps(mark(inner, cx, "in", false), args, cx));
                mark(b, cx, "out", false)
            }
            "loop-iter" | "loop-evals" => {
                let n = args[0].nat().unwrap() as u32;
                let body = args[1].head().unwrap().1;
                let cond = if name == "loop-iter" { LessThanN::iterations(n) } else { LessThanN::evaluations(n) };
                let b = b.while_(cond, |inner| build_steps(mark(inner, cx, "p", true), body, cx));
                mark(b, cx, "x", true)
            }
            "branch" => {
                let n = args[0].nat().unwrap() as u32;
                let thn = args[1].head().unwrap().1;
                let b = if args.len() > 2 {
                    let els = args[2].head().unwrap().1;
                    b.if_else_(
                        LessThanN::evaluations(n),
                        |inner| build_steps(mark(inner, cx, "bt", false), thn, cx),
                        |inner| build_steps(mark(inner, cx, "be", false), els, cx),
                    )
                } else {
                    b.if_(LessThanN::evaluations(n), |inner| build_steps(mark(inner, cx, "bt", false), thn, cx))
                };
                mark(b, cx, "bx", false)
            }
            other => panic!("unknown step {other}"),
        };
    }
    b
}

fn register(state: &mut State<P>, reg: &[String], par: bool) {
    for r in reg {
        match (r.as_str(), par) {
            ("g", false) => state.insert_evaluator(Sequential::<P>::new()),
            ("g", true) => state.insert_evaluator(Parallel::<P>::new()),
            ("a", false) => state.insert_evaluator_as::<CustomId>(Sequential::<P>::new()),
            ("a", true) => state.insert_evaluator_as::<CustomId>(Parallel::<P>::new()),
            ("b", false) => state.insert_evaluator_as::<mahf::identifier::B>(Sequential::<P>::new()),
            ("b", true) => state.insert_evaluator_as::<mahf::identifier::B>(Parallel::<P>::new()),
            _ => {}
        }
    }
}

/// `(cfgruns (ev seq|par T) (reg ID…) (f x…) (cfgs (cfg STEP…)…) (order i…))`: the configurations `order` names are run
/// one after the other through `Configuration::run` on ONE state. Output: per executed run
/// `(run (res …) (evs REC…) (final (evals E) (ncalls K) (stack …)))` (`ncalls`: objective calls made during this run);
/// the sequence stops after the first run that does not return `Ok`; after a panic only `(run (res panic))`.
fn run_cfgruns(a: &[Sx]) -> String {
    let (_, ev) = a[0].head().unwrap();
    let par = ev[0].atom().unwrap() == "par";
    let threads = ev[1].nat().unwrap() as usize;
    let reg: Vec<String> = a[1].head().unwrap().1.iter().map(|x| x.atom().unwrap().to_string()).collect();
    let ftab: Vec<f64> = a[2].head().unwrap().1.iter().map(|x| x.float().unwrap()).collect();
    let cfgs = a[3].head().unwrap().1.to_vec();
    let order: Vec<usize> = a[4].head().unwrap().1.iter().map(|x| x.nat().unwrap() as usize).collect();
    in_pool(threads, move || {
        let problem = TableProblem { f: Arc::new(ftab), log: Default::default() };
        let cx = Cx { recs: Default::default(), seen: Default::default(), e0: Arc::new(Mutex::new("none".into())) };
        let configs: Vec<Configuration<P>> =
            cfgs.iter().map(|c| build_steps(Configuration::<P>::builder(), c.head().unwrap().1, &cx).build()).collect();
        let mut state: State<P> = State::new();
        state.insert(Populations::<P>::new());
        register(&mut state, &reg, par);
        let mut outs = vec![];
        for &k in &order {
            let Some(config) = configs.get(k) else { break };
            cx.recs.lock().unwrap().clear();
            let calls0 = problem.log.lock().unwrap().len();
            *cx.seen.lock().unwrap() = calls0;
            let r = catch(|| config.run(&problem, &mut state));
            let res = match &r {
                None => {
                    outs.push("(run (res panic))".to_string());
                    break;
                }
                Some(Ok(())) => "(res ok)".to_string(),
                Some(Err(_)) => "(res (e err))".to_string(),
            };
            let evals = on(state.try_get_value::<Evaluations>().ok());
            let ncalls = problem.log.lock().unwrap().len() - calls0;
            let stack = catch(|| {
                let pops = state.populations();
                (0..pops.len()).map(|d| pop_s(pops.peek(d))).collect::<Vec<_>>()
            })
            .unwrap_or_default();
            let recs = cx.recs.lock().unwrap().clone();
            outs.push(tagged("run", [res.clone(), tagged("evs", recs), format!("(final (evals {}) (ncalls {}) {})", evals, ncalls, tagged("stack", stack))]));
            if res != "(res ok)" { break; }
        }
        list(outs)
    })
}

/// Site of a `cfgruns` case, from the shape of its input: is some evaluation step nested in a `Scope` (its counter is a
/// shadowing one), is some requested identifier unregistered, and if so is one of those steps outside every `Scope`
/// (`require` sees it up front) or are they all inside `Scope`s (checked on scope entry only).
fn cfgruns_site(a: &[Sx]) -> String {
    let reg: Vec<&str> = a[1].head().unwrap().1.iter().map(|x| x.atom().unwrap()).collect();
    fn walk(steps: &[Sx], depth: usize, reg: &[&str], scoped: &mut bool, miss_top: &mut bool, miss_scope: &mut bool) {
        for st in steps {
            let (name, args) = st.head().unwrap();
            match name {
                "eval" => {
                    if depth > 0 { *scoped = true; }
                    if !reg.contains(&args[0].atom().unwrap()) {
                        if depth > 0 { *miss_scope = true } else { *miss_top = true }
                    }
                }
                "scope" => walk(args, depth + 1, reg, scoped, miss_top, miss_scope),
                "loop-iter" | "loop-evals" => walk(args[1].head().unwrap().1, depth, reg, scoped, miss_top, miss_scope),
                "branch" => {
                    for arm in &args[1..] { walk(arm.head().unwrap().1, depth, reg, scoped, miss_top, miss_scope); }
                }
                _ => {}
            }
        }
    }
    let (mut scoped, mut mt, mut ms) = (false, false, false);
    for c in a[3].head().unwrap().1 { walk(c.head().unwrap().1, 0, &reg, &mut scoped, &mut mt, &mut ms); }
    format!("ConfigRun{}{}", if scoped { "/scoped" } else { "" }, if mt { "/missing" } else if ms { "/missing-in-scope" } else { "" })
}

/// `(direct (ev seq|par T) (reg ID…) (f x…) (id g|a|b) (init 0|1) (stack POP…))`: one `PopulationEvaluator<I>` executed
/// directly — `Component::init` (if `init 1`) and `Component::execute`, no `Configuration::run`, no `require`.
fn run_direct(a: &[Sx]) -> String {
    use mahf::components::evaluation::PopulationEvaluator;
    let (_, ev) = a[0].head().unwrap();
    let par = ev[0].atom().unwrap() == "par";
    let threads = ev[1].nat().unwrap() as usize;
    let reg: Vec<String> = a[1].head().unwrap().1.iter().map(|x| x.atom().unwrap().to_string()).collect();
    let ftab: Vec<f64> = a[2].head().unwrap().1.iter().map(|x| x.float().unwrap()).collect();
    let id = a[3].head().unwrap().1[0].atom().unwrap().to_string();
    let init = a[4].head().unwrap().1[0].nat().unwrap() == 1;
    let pops: Vec<Vec<Individual<P>>> = a[5].head().unwrap().1.iter().map(|p| p.items().unwrap().iter().map(mk_ind).collect()).collect();
    in_pool(threads, move || {
        let problem = TableProblem { f: Arc::new(ftab), log: Default::default() };
        let comp: Box<dyn mahf::Component<P>> = match id.as_str() {
            "g" => PopulationEvaluator::<mahf::identifier::Global>::new_with::<P>(),
            "a" => PopulationEvaluator::<CustomId>::new_with::<P>(),
            _ => PopulationEvaluator::<mahf::identifier::B>::new_with::<P>(),
        };
        let mut state: State<P> = State::new();
        let mut stack = Populations::<P>::new();
        for p in pops.into_iter().rev() { stack.push(p); }
        state.insert(stack);
        register(&mut state, &reg, par);
        let r = catch(|| {
            if init { comp.init(&problem, &mut state)?; }
            comp.execute(&problem, &mut state)
        });
        let res = match &r {
            None => return "((res panic))".to_string(),
            Some(Ok(())) => "(res ok)".to_string(),
            Some(Err(_)) => "(res err)".to_string(),
        };
        let evals = on(state.try_get_value::<Evaluations>().ok());
        let calls: Vec<String> = problem.log.lock().unwrap().iter().map(|s| s.to_string()).collect();
        let stack = catch(|| {
            let pops = state.populations();
            (0..pops.len()).map(|d| pop_s(pops.peek(d))).collect::<Vec<_>>()
        })
        .unwrap_or_default();
        list([res, format!("(evals {})", evals), tagged("calls", calls), tagged("stack", stack)])
    })
}

/// Visitor for run-level counting.
struct Counting {
    frames: Vec<(u64, Option<u32>, usize, usize)>, // probe count, visible evals, top size, number of children
    scopes: Vec<usize>,                            // index of the `(s …)` event of every open scope
    events: Vec<String>,
    result: String,
    nsteps: u64,                                   // observer callbacks (Phase::Before) = components/passes started
    base: u64,                                     // probe count when this run started (consecutive runs on one state)
}
fn short(name: &str) -> String {
    let base = name.split('<').next().unwrap_or(name);
    let mut it = base.rsplit("::");
    let last = it.next().unwrap_or("?");
    last.chars().filter(|c| c.is_ascii_alphanumeric() || *c == '_').collect()
}
fn vis_evals<Q: HProblem>(state: &State<Q>) -> Option<u32> { state.try_get_value::<Evaluations>().ok() }
fn on(v: Option<u32>) -> String { v.map(|x| x.to_string()).unwrap_or("none".into()) }
impl Visitor for Counting {
    fn step<Q: HProblem>(&mut self, phase: Phase, name: &'static str, _index: usize, state: &State<Q>, problem: &Q) {
        let is_scope = name.contains("control_flow::Scope");
        match phase {
            Phase::Before => {
                self.nsteps += 1;
                if let Some(f) = self.frames.last_mut() { f.3 += 1; }
                let top = state.populations().get_current().map(|p| p.len()).unwrap_or(0);
                self.frames.push((problem.probe().count(), vis_evals(state), top, 0));
                if is_scope {
                    self.scopes.push(self.events.len());
                    self.events.push("(s f)".into());
                }
            }
            Phase::After => {
                let Some((c0, e0, top, children)) = self.frames.pop() else { return };
                if is_scope {
                    self.scopes.pop();
                    self.events.push("(x)".into());
                    return;
                }
                if children > 0 { return; }
                let k = problem.probe().count() - c0;
                let d = match (e0, vis_evals(state)) {
                    (Some(a), Some(b)) => Some(b.wrapping_sub(a)),
                    (None, Some(b)) => Some(b),
                    _ => None,
                };
                if name.contains("PopulationEvaluator") {
                    if let Some(&i) = self.scopes.last() { self.events[i] = "(s t)".into(); }
                    self.events.push(format!("(ev {} {} {})", top, k, on(d)));
                } else if name.contains("FireflyPositionsUpdate") {
                    self.events.push(format!("(fa {} {})", k, on(d)));
                } else if k != 0 || !(d == Some(0) || d.is_none()) {
                    self.events.push(format!("(o {} {} {})", short(name), k, on(d)));
                }
            }
        }
    }
    fn done<Q: HProblem>(&mut self, outcome: &Outcome, state: Option<&State<Q>>, problem: &Q) {
        let evals = state.and_then(|s| vis_evals(s));
        self.result = list([
            format!("(out {})", outcome.tag()),
            tagged("trace", self.events.clone()),
            format!("(evals {})", on(evals)),
            format!("(ncalls {})", problem.probe().count() - self.base),
        ]);
    }
}

/// `(run NAME V I ITERS SEED seq|par)`
fn run_run(a: &[Sx]) -> String {
    let name = a[0].atom().unwrap();
    let (v, i, iters, seed) = (a[1].nat().unwrap() as u32, a[2].nat().unwrap() as u32, a[3].nat().unwrap() as u32, a[4].nat().unwrap());
    let ek = if a[5].atom().unwrap() == "par" { EvalKind::Parallel } else { EvalKind::Sequential };
    let vis = Counting { frames: vec![], scopes: vec![], events: vec![], result: String::new(), nsteps: 0, base: 0 };
    match run_template(name, v, i, iters, seed, ek, vis) {
        Ok((vis, _)) => vis.result,
        Err(_) => "((out ctor-err) (trace) (evals none) (ncalls 0))".into(),
    }
}

/// `(rerun NAME V I ITERS SEED seq|par K)`: template `NAME` run `K` times through `Configuration::run` on ONE state
/// (prepared as `optimize_with` prepares it). Output: the run-level record of `run_run` for every run, `ncalls` being the
/// objective calls of that run; the sequence stops after the first run that does not return `Ok`.
struct Rerun {
    seed: u64,
    eval: EvalKind,
    k: u64,
}
impl ConfigUser for Rerun {
    type Out = String;
    fn use_config<Q: HProblem>(self, config: &Configuration<Q>, problem: &Q) -> String {
        use mahf::verif::StepObserver;
        let new_vis = |base: u64| Counting { frames: vec![], scopes: vec![], events: vec![], result: String::new(), nsteps: 0, base };
        let shared = Arc::new(Mutex::new(new_vis(0)));
        let mut outs = vec![];
        let mut state: State<Q> = State::new();
        state.insert(mahf::logging::Log::new());
        state.insert(Populations::<Q>::new());
        state.insert(mahf::Random::new(self.seed));
        match self.eval {
            EvalKind::Sequential => state.insert_evaluator(Sequential::<Q>::new()),
            EvalKind::Parallel => state.insert_evaluator(Parallel::<Q>::new()),
        }
        let (obs_v, obs_p) = (shared.clone(), problem.clone());
        state.insert(StepObserver::<Q>(Box::new(move |ph, name, idx, st| {
            obs_v.lock().unwrap_or_else(|e| e.into_inner()).step(ph, name, idx, st, &obs_p);
        })));
        for _ in 0..self.k {
            *shared.lock().unwrap_or_else(|e| e.into_inner()) = new_vis(problem.probe().count());
            let r = catch(|| config.run(problem, &mut state));
            let mut g = shared.lock().unwrap_or_else(|e| e.into_inner());
            match r {
                None => {
                    g.done::<Q>(&Outcome::Panic, None, problem);
                    outs.push(g.result.clone());
                    break;
                }
                Some(Err(e)) => {
                    g.done::<Q>(&Outcome::Err(format!("{e}")), None, problem);
                    outs.push(g.result.clone());
                    break;
                }
                Some(Ok(())) => {
                    g.done(&Outcome::Ok, Some(&state), problem);
                    outs.push(g.result.clone());
                }
            }
        }
        list(outs)
    }
}
fn run_rerun(a: &[Sx]) -> String {
    let name = a[0].atom().unwrap();
    let (v, i, iters, seed) = (a[1].nat().unwrap() as u32, a[2].nat().unwrap() as u32, a[3].nat().unwrap() as u32, a[4].nat().unwrap());
    let eval = if a[5].atom().unwrap() == "par" { EvalKind::Parallel } else { EvalKind::Sequential };
    let k = a[6].nat().unwrap();
    match with_template(name, v, i, iters, Rerun { seed, eval, k }) {
        Ok(s) => s,
        Err(_) => "(((out ctor-err) (trace) (evals none) (ncalls 0)))".into(),
    }
}

/// `(generic NAME V I ITERS SEED seq|par only-a|only-g)`: the generic loop function `NAME` instantiated with
/// evaluator identifier `A`, run on a state that holds only `Evaluator<P, A>` (`only-a`) or only
/// `Evaluator<P, Global>` (`only-g`). Output: the run-level record of `run_run`, how many components/passes
/// were started at all, and the configuration's serialised tree.
fn run_generic_case(a: &[Sx]) -> String {
    let name = a[0].atom().unwrap();
    let (v, i, iters, seed) = (a[1].nat().unwrap() as u32, a[2].nat().unwrap() as u32, a[3].nat().unwrap() as u32, a[4].nat().unwrap());
    let ek = if a[5].atom().unwrap() == "par" { EvalKind::Parallel } else { EvalKind::Sequential };
    let reg = if a[6].atom().unwrap() == "only-a" { Registered::OnlyA } else { Registered::OnlyGlobal };
    let tree = generic_tree(name, v, iters);
    let vis = Counting { frames: vec![], scopes: vec![], events: vec![], result: String::new(), nsteps: 0, base: 0 };
    match run_generic(name, v, i, iters, seed, ek, reg, vis) {
        Ok((vis, outcome)) => {
            let out = match &outcome {
                Outcome::Err(msg) if msg.contains("missing") || msg.contains("require") => "err-required",
                o => o.tag(),
            };
            // `vis.result` = `((out …) (trace …) (evals …) (ncalls …))`; the outcome is refined here
            let body = vis.result.trim_start_matches('(').splitn(2, ") ").nth(1).unwrap_or("").to_string();
            let body = body.strip_suffix(')').unwrap_or(&body).to_string();
            format!("((out {}) {} (nsteps {}) (tree {}))", out, body, vis.nsteps, tree)
        }
        Err(_) => format!("((out ctor-err) (trace) (evals none) (ncalls 0) (nsteps 0) (tree {}))", tree),
    }
}

fn run_case(input: &Sx) -> (String, String) {
    let (tag, a) = input.head().unwrap();
    match tag {
        "evalsteps" => ("PopulationEvaluator".into(), run_evalsteps(a)),
        "budget" => ("LessThanN-evaluations".into(), run_budget(a)),
        "run" => (a[0].atom().unwrap().to_string(), run_run(a)),
        "fa" => ("FireflyPositionsUpdate".into(), run_fa(a)),
        "generic" => (format!("generic/{}", a[0].atom().unwrap()), run_generic_case(a)),
        "rerun" => (a[0].atom().unwrap().to_string(), run_rerun(a)),
        "cfgruns" => (cfgruns_site(a), run_cfgruns(a)),
        "direct" => ("PopulationEvaluator::execute".into(), run_direct(a)),
        other => panic!("unknown case {other}"),
    }
}

const GRID: [f64; 10] = [0.0, 1.0, 1.0, 2.5, -3.0, f64::INFINITY, 1e300, 5e-324, 7.0, 2.5];

fn gen_pop(r: &mut Sm, n: u64, nsol: u64, ftab: &[f64]) -> String {
    list((0..n).map(|_| {
        let s = r.below(nsol);
        match r.below(10) {
            0 => format!("({} {})", s, fx(ftab[s as usize])),            // already evaluated, correct
            1 => format!("({} {})", s, fx(*r.pick(&GRID))),               // already evaluated, possibly stale
            _ => format!("({})", s),
        }
    }))
}

/// Generator of configuration trees (stream 5).
struct TreeGen<'a> {
    r: &'a mut Sm,
    nsol: u64,
    ft: &'a [f64],
}
impl TreeGen<'_> {
    fn pop(&mut self, lo: u64, hi: u64) -> String {
        let n = self.r.range(lo, hi);
        gen_pop(self.r, n, self.nsol, self.ft)
    }
    /// A random body. `ids`: identifiers evaluation steps may name (empty: no evaluation step); `evcond`: a counter is
    /// visible, so conditions on the number of evaluations may be used; `scope_ids`: identifiers for steps inside scopes.
    fn body(&mut self, depth: u32, ids: &[&str], scope_ids: &[&str], evcond: bool) -> Vec<String> {
        let len = self.r.range(1, 4);
        let mut out = vec![];
        for _ in 0..len {
            let k = self.r.below(20);
            match k {
                6..=10 if !ids.is_empty() => out.push(format!("(eval {})", self.r.pick(ids))),
                11 if !ids.is_empty() => {
                    out.push(format!("(push {})", self.pop(1, 5)));
                    out.push(format!("(eval {})", self.r.pick(ids)));
                    out.push("(pop)".into());
                }
                12..=13 if depth < 3 => {
                    let b = self.body(depth + 1, scope_ids, scope_ids, evcond);
                    out.push(tagged("scope", b));
                }
                14..=15 if depth < 3 => {
                    let k = self.r.below(4);
                    let b = self.body(depth + 1, ids, scope_ids, evcond);
                    out.push(format!("(loop-iter {} {})", k, tagged("body", b)));
                }
                16..=17 if depth < 3 && evcond && !ids.is_empty() => {
                    let n = self.r.below(31);
                    let mut b = vec![format!("(push {})", self.pop(1, 6)), format!("(eval {})", self.r.pick(ids))];
                    if self.r.chance(1, 2) { b.push("(pop)".into()); }
                    if self.r.chance(1, 2) { b.extend(self.body(depth + 1, ids, scope_ids, evcond)); }
                    out.push(format!("(loop-evals {} {})", n, tagged("body", b)));
                }
                18..=19 if depth < 3 && evcond => {
                    let n = self.r.below(31);
                    let t = self.body(depth + 1, ids, scope_ids, evcond);
                    if self.r.chance(1, 2) {
                        let e = self.body(depth + 1, ids, scope_ids, evcond);
                        out.push(format!("(branch {} {} {})", n, tagged("then", t), tagged("else", e)));
                    } else {
                        out.push(format!("(branch {} {})", n, tagged("then", t)));
                    }
                }
                _ => out.push(format!("(push {})", self.pop(0, 6))),
            }
        }
        out
    }
    /// One configuration: optionally an initial `push; eval` (so the top-level counter exists), then a random body.
    fn cfg(&mut self, ids: &[&str], scope_ids: &[&str]) -> String {
        let mut steps = vec![];
        let evcond = !ids.is_empty() && self.r.chance(6, 7);
        if evcond {
            steps.push(format!("(push {})", self.pop(0, 6)));
            steps.push(format!("(eval {})", self.r.pick(ids)));
        }
        steps.extend(self.body(0, ids, scope_ids, evcond));
        tagged("cfg", steps)
    }
}

/// Where the step with the unregistered identifier sits.
const POSITIONS: [&str; 16] = [
    "top", "scope1", "scope2", "scope3", "loop", "loop0", "then", "then-not-taken", "else", "else-not-taken", "scope-in-loop",
    "loop-in-scope", "scope-in-loop0", "scope-in-then-not-taken", "scope-in-else", "scope2-in-loop",
];
fn wrap(position: &str, inner: Vec<String>) -> Vec<String> {
    let sc = |x: Vec<String>| vec![tagged("scope", x)];
    let lp = |k: u32, x: Vec<String>| vec![format!("(loop-iter {} {})", k, tagged("body", x))];
    let br_then = |n: u32, x: Vec<String>| vec![format!("(branch {} {})", n, tagged("then", x))];
    let br_else = |n: u32, x: Vec<String>| vec![format!("(branch {} (then (push ())) {})", n, tagged("else", x))];
    match position {
        "top" => inner,
        "scope1" => sc(inner),
        "scope2" => sc(sc(inner)),
        "scope3" => sc(sc(sc(inner))),
        "loop" => lp(2, inner),
        "loop0" => lp(0, inner),
        "then" => br_then(1000, inner),
        "then-not-taken" => br_then(0, inner),
        "else" => br_else(0, inner),
        "else-not-taken" => br_else(1000, inner),
        "scope-in-loop" => lp(2, sc(inner)),
        "loop-in-scope" => sc(lp(2, inner)),
        "scope-in-loop0" => lp(0, sc(inner)),
        "scope-in-then-not-taken" => br_then(0, sc(inner)),
        "scope-in-else" => br_else(0, sc(inner)),
        "scope2-in-loop" => lp(1, sc(sc(inner))),
        other => panic!("unknown position {other}"),
    }
}

fn main() {
    quiet_panics();
    let a = args();
    let mut out = Out::new();
    if let Some(r) = a.replay {
        let sx = Sx::parse(&r).expect("bad replay input");
        let (site, o) = run_case(&sx);
        out.case(&site, &r, &o);
        out.finish();
        return;
    }
    if std::env::args().any(|x| x == "--generic-trees") {
        // regenerated layer: one line per generic loop function x parameter point: `(tree NAME variant TREE)`
        for name in GENERIC_TEMPLATES {
            for v in 0..N_VARIANTS {
                println!("(tree {} {} {})", name, v, generic_tree(name, v, 3));
            }
        }
        return;
    }
    let mut emit = |input: String| {
        let sx = Sx::parse(&input).unwrap();
        let (site, o) = run_case(&sx);
        out.case(&site, &input, &o);
    };
    let mut r = Sm::new(a.seed ^ 0xC06);
    let nsol = 64u64;
    let mk_ftab = |r: &mut Sm| -> Vec<f64> { (0..nsol).map(|_| *r.pick(&GRID)).collect() };
    let ft_s = |ft: &[f64]| tagged("f", ft.iter().map(|v| fx(*v)));
    // 1a. every size 0..=50 × evaluator × pool, one evaluation step, both identifiers
    for n in 0..=50u64 {
        for (kind, threads) in [("seq", 0), ("seq", 2), ("par", 0), ("par", 1), ("par", 2), ("par", 4), ("par", 16)] {
            let ft = mk_ftab(&mut r);
            let id = if n % 2 == 0 { "g" } else { "a" };
            let pop = gen_pop(&mut r, n, nsol, &ft);
            emit(format!("(evalsteps (ev {kind} {threads}) (reg g a) {} (steps (push {pop}) (eval {id})))", ft_s(&ft)));
        }
    }
    // 1c. sizes around powers of two and chunk boundaries, up to a few thousand, plus random sizes
    let big: &[u64] = if a.thorough {
        &[51, 63, 64, 65, 95, 96, 97, 100, 127, 128, 129, 191, 192, 193, 255, 256, 257, 511, 512, 513, 1000, 1023, 1024, 1025, 2047, 2048, 2049, 4095, 4096, 4097]
    } else {
        &[63, 64, 65, 100, 127, 128, 129, 255, 256, 257, 1000, 1025, 4097]
    };
    for &n in big {
        let kinds: &[(&str, u64)] = if n <= 300 {
            &[("seq", 0), ("seq", 3), ("par", 0), ("par", 1), ("par", 2), ("par", 3), ("par", 4), ("par", 8), ("par", 16)]
        } else {
            &[("seq", 0), ("par", 0), ("par", 1), ("par", 3), ("par", 16)]
        };
        for &(kind, threads) in kinds {
            let ft = mk_ftab(&mut r);
            let id = if (n + threads) % 2 == 0 { "g" } else { "a" };
            let pop = gen_pop(&mut r, n, nsol, &ft);
            emit(format!("(evalsteps (ev {kind} {threads}) (reg g a) {} (steps (push {pop}) (eval {id})))", ft_s(&ft)));
        }
    }
    for _ in 0..(if a.thorough { 60 } else { 10 }) {
        let n = if r.chance(1, 2) { r.range(51, 700) } else { r.range(701, 5000) };
        let (kind, threads) = *r.pick(&[("seq", 0u64), ("par", 0), ("par", 1), ("par", 2), ("par", 3), ("par", 4), ("par", 8), ("par", 16)]);
        let ft = mk_ftab(&mut r);
        let pop = gen_pop(&mut r, n, nsol, &ft);
        let n2 = r.range(0, 90);
        let pop2 = gen_pop(&mut r, n2, nsol, &ft);
        emit(format!("(evalsteps (ev {kind} {threads}) (reg g a) {} (steps (push {pop2}) (eval a) (push {pop}) (eval g) (eval a)))", ft_s(&ft)));
    }
    // 1b. random step sequences, incl. empty stack, missing evaluator, several populations
    let n_rand = if a.thorough { 12000 } else { 1200 };
    for _ in 0..n_rand {
        let ft = mk_ftab(&mut r);
        let (kind, threads) = *r.pick(&[("seq", 0u64), ("seq", 4), ("par", 0), ("par", 1), ("par", 2), ("par", 4), ("par", 16)]);
        let reg = *r.pick(&["g a", "g a", "g a", "g", "a", ""]);
        let len = r.range(1, 8);
        let mut steps = vec![];
        let mut h = 0u64;
        for _ in 0..len {
            match r.below(10) {
                0..=3 => { let n = if r.chance(1, 4) { r.below(51) } else { r.below(7) }; steps.push(format!("(push {})", gen_pop(&mut r, n, nsol, &ft))); h += 1; }
                4 if h > 0 => { steps.push("(pop)".into()); h -= 1; }
                _ => {
                    let id = if reg == "g a" { *r.pick(&["g", "a"]) } else if r.chance(1, 6) { *r.pick(&["g", "a"]) } else if reg == "a" { "a" } else { "g" };
                    steps.push(format!("(eval {id})"));
                }
            }
        }
        if !steps.iter().any(|s| s.starts_with("(eval")) && r.chance(9, 10) {
            steps.push(format!("(eval {})", if reg == "a" { "a" } else { "g" }));
        }
        emit(format!("(evalsteps (ev {kind} {threads}) (reg {reg}) {} {})", ft_s(&ft), tagged("steps", steps)));
    }
    // 2. budget loops
    for n in 0..=(if a.thorough { 60 } else { 24 }) {
        for m in [1u64, 2, 3, 5, 7, 12] {
            emit(format!("(budget (n {n}) (m {m}))"));
        }
    }
    // 2b. firefly skeleton with a non-Global evaluator identifier (and Global for comparison)
    for (id, reg) in [("a", "a"), ("a", "a g"), ("a", "g a"), ("g", "g"), ("g", "g a")] {
        for n in [2u64, 3, 5] {
            for k in 0..(if a.thorough { 8 } else { 2 }) {
                let inst = (n + k) % 4;
                emit(format!("(fa {id} (reg {reg}) (n {n}) (inst {inst}) (iters 4) (seed {}))", a.seed * 100 + k));
            }
        }
    }
    // 5. configuration trees, consecutive runs on one state
    let evk = [("seq", 0u64), ("seq", 4), ("par", 0), ("par", 1), ("par", 2), ("par", 3), ("par", 8), ("par", 16)];
    // 5a. budget configurations run 2..3 times on the same state (same / different configuration)
    for n in [0u64, 1, 5, 10, 17] {
        for m in [1u64, 4] {
            for (j, order) in ["0 0", "0 0 0", "0 1", "0 1 0", "1 0 1"].iter().enumerate() {
                let ft = mk_ftab(&mut r);
                let (kind, threads) = evk[(n as usize + m as usize + j) % evk.len()];
                let mut g = TreeGen { r: &mut r, nsol, ft: &ft };
                let c0 = format!("(cfg (push {}) (eval g) (loop-evals {} (body (push {}) (eval g) (pop))))", g.pop(m, m), n, g.pop(m, m));
                let c1 = format!("(cfg (push {}) (eval a) (loop-evals {} (body (eval a))) (eval g))", g.pop(m + 1, m + 1), n + 3);
                emit(format!("(cfgruns (ev {kind} {threads}) (reg g a) {} (cfgs {c0} {c1}) (order {order}))", ft_s(&ft)));
            }
        }
    }
    // 5b. random trees, all identifiers registered; half of the cases without evaluation steps inside scopes
    for i in 0..(if a.thorough { 4000 } else { 400 }) {
        let ft = mk_ftab(&mut r);
        let (kind, threads) = *r.pick(&evk);
        let scoped = i % 2 == 1;
        let ncfg = r.range(1, 3);
        let mut g = TreeGen { r: &mut r, nsol, ft: &ft };
        let ids: &[&str] = &["g", "g", "a", "b"];
        let cfgs: Vec<String> = (0..ncfg).map(|_| g.cfg(ids, if scoped { ids } else { &[] })).collect();
        let nrun = r.range(1, 3);
        let order: Vec<String> = (0..nrun).map(|_| r.below(ncfg).to_string()).collect();
        emit(format!("(cfgruns (ev {kind} {threads}) (reg g a b) {} {} {})", ft_s(&ft), tagged("cfgs", cfgs), tagged("order", order)));
    }
    // 5c. an unregistered identifier at every position, as the only evaluator use or one of several
    let regs: [(&str, &str, &str); 5] = [("g", "a", "g"), ("a", "g", "a"), ("g a", "b", "a"), ("", "g", "g"), ("g b", "a", "b")];
    for (pi, position) in POSITIONS.iter().enumerate() {
        for several in [false, true] {
            for (ri, (reg, missing, registered)) in regs.iter().enumerate() {
                if reg.is_empty() && several { continue; }
                let ft = mk_ftab(&mut r);
                let (kind, threads) = evk[(pi + ri) % evk.len()];
                let mut g = TreeGen { r: &mut r, nsol, ft: &ft };
                let mut inner = vec![];
                if (pi + ri) % 3 != 0 { inner.push(format!("(push {})", g.pop(1, 4))); }
                if several && ri % 2 == 0 { inner.push(format!("(eval {registered})")); }
                inner.push(format!("(eval {missing})"));
                let mut steps = vec![];
                // conditions on the number of evaluations need a visible counter: a registered step up front
                let needs_counter = position.contains("then") || position.contains("else");
                if several || needs_counter {
                    if reg.is_empty() { continue; }
                    steps.push(format!("(push {})", g.pop(1, 4)));
                    steps.push(format!("(eval {registered})"));
                } else if (pi + ri) % 2 == 0 {
                    steps.push(format!("(push {})", g.pop(1, 4)));
                }
                steps.extend(wrap(position, inner));
                if several && ri % 2 == 1 { steps.push(format!("(eval {registered})")); }
                let miss_cfg = tagged("cfg", steps);
                // alone, or as the last of two runs after a run that uses registered identifiers only
                if (pi + ri) % 4 == 3 && !reg.is_empty() {
                    let first = format!("(cfg (push {}) (eval {registered}) (loop-iter 2 (body (eval {registered}))))", g.pop(1, 4));
                    emit(format!("(cfgruns (ev {kind} {threads}) (reg {reg}) {} (cfgs {first} {miss_cfg}) (order 0 1))", ft_s(&ft)));
                } else {
                    emit(format!("(cfgruns (ev {kind} {threads}) (reg {reg}) {} (cfgs {miss_cfg}) (order 0))", ft_s(&ft)));
                }
            }
        }
    }
    // 5d. random trees in which one of the identifiers is not registered
    for i in 0..(if a.thorough { 1500 } else { 150 }) {
        let ft = mk_ftab(&mut r);
        let (kind, threads) = *r.pick(&evk);
        let (reg, ids, scope_ids): (&str, &[&str], &[&str]) = match i % 4 {
            0 => ("g", &["g", "g", "g", "a"], &["g", "a"]),
            1 => ("g a", &["g", "a"], &["g", "a", "b"]),
            2 => ("a", &["a"], &["g"]),
            _ => ("g b", &["g", "b"], &["a", "b", "g"]),
        };
        let mut g = TreeGen { r: &mut r, nsol, ft: &ft };
        let c = g.cfg(ids, scope_ids);
        emit(format!("(cfgruns (ev {kind} {threads}) (reg {reg}) {} (cfgs {c}) (order 0))", ft_s(&ft)));
    }
    // 6. a single evaluation step executed directly on a state with / without its evaluator
    for n in [0u64, 1, 3, 7, 40] {
        for id in ["g", "a", "b"] {
            for reg in ["g a b", "g", "a", "b", "", "g a", "a b"] {
                for init in [1, 0] {
                    if init == 0 && (n + id.len() as u64 + reg.len() as u64) % 3 != 0 { continue; }
                    let ft = mk_ftab(&mut r);
                    let (kind, threads) = *r.pick(&evk);
                    let depth = r.range(0, 2);
                    let mut pops = vec![];
                    if n > 0 || depth > 0 { pops.push(gen_pop(&mut r, n, nsol, &ft)); }
                    for _ in 0..depth { let k = r.below(4); pops.push(gen_pop(&mut r, k, nsol, &ft)); }
                    if n == 0 && r.chance(1, 2) { pops.clear(); }
                    emit(format!("(direct (ev {kind} {threads}) (reg {reg}) {} (id {id}) (init {init}) {})", ft_s(&ft), tagged("stack", pops)));
                }
            }
        }
    }
    // 3. run level
    let seeds: u64 = if a.thorough { 8 } else { 1 };
    let iters = if a.thorough { 8 } else { 5 };
    for name in TEMPLATES {
        for v in 0..N_VARIANTS {
            for i in 0..N_INSTANCES {
                for k in 0..seeds {
                    let seed = a.seed * 1000 + k;
                    let ek = if (v + i + k as u32) % 3 == 0 { "par" } else { "seq" };
                    emit(format!("(run {name} {v} {i} {iters} {seed} {ek})"));
                }
            }
        }
    }
    // 3b. run level, consecutive runs of one template on one state
    for name in TEMPLATES {
        for v in 0..N_VARIANTS {
            for k in 0..(if a.thorough { 6 } else { 1 }) {
                let i = (v as u64 + k) % N_INSTANCES as u64;
                let seed = a.seed * 1000 + 500 + k;
                let ek = if (v as u64 + k) % 2 == 0 { "par" } else { "seq" };
                let runs = 2 + (v as u64 + k) % 2;
                emit(format!("(rerun {name} {v} {i} {iters} {seed} {ek} {runs})"));
            }
        }
    }
    // 4. generic loop functions instantiated with identifier A
    for name in GENERIC_TEMPLATES {
        for v in 0..N_VARIANTS {
            for i in 0..N_INSTANCES {
                for k in 0..seeds {
                    let seed = a.seed * 1000 + k;
                    let ek = if (v + i + k as u32) % 3 == 1 { "par" } else { "seq" };
                    emit(format!("(generic {name} {v} {i} {iters} {seed} {ek} only-a)"));
                    if k == 0 {
                        emit(format!("(generic {name} {v} {i} {iters} {seed} {ek} only-g)"));
                    }
                }
            }
        }
    }
    out.finish();
}
