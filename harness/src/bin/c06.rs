//! C06 — evaluation steps evaluate everyone once; the evaluation count is exact.
//! (1) component level: real `PopulationEvaluator`s inside a real `Configuration::run` on prepared
//!     population stacks, call-logging objective, Sequential/Parallel evaluators, rayon pools,
//!     identifiers Global and a custom one, missing evaluator;
//! (2) a loop guarded by `LessThanN::evaluations(n)` (budget overshoot);
//! (3) run level: every leaf step of runs of all 21 templates: counter delta vs. objective calls;
//! (4) the generic loop functions `heuristics::xx::xx::<P, I>` with `I = identifier::A` (`hcommon::templates_generic`):
//!     runs on a state holding ONLY `Evaluator<P, A>` (must complete, count exact) and ONLY `Evaluator<P, Global>`
//!     (must fail before anything executes); `--generic-trees` prints their serialised trees for the regenerated layer.
use std::collections::HashMap;
use std::sync::{Arc, Mutex};

use hcommon::templates::*;
use hcommon::templates_generic::{generic_tree, run_generic, Registered, GENERIC_TEMPLATES};
use hcommon::*;
use mahf::conditions::LessThanN;
use mahf::problems::{ObjectiveFunction, Parallel, Sequential};
use mahf::state::common::{Evaluations, Populations};
use mahf::verif::Phase;
use mahf::{Configuration, Individual, Problem, SingleObjective, State};

/// Solutions are ids; the objective is a table; every call is logged with its solution id.
#[derive(Clone)]
struct TableProblem {
    f: Arc<Vec<f64>>,
    log: Arc<Mutex<Vec<u64>>>,
}
impl Problem for TableProblem {
    type Encoding = u64;
    type Objective = SingleObjective;
    fn name(&self) -> &str { "table" }
}
impl ObjectiveFunction for TableProblem {
    fn objective(&self, s: &u64) -> SingleObjective {
        self.log.lock().unwrap().push(*s);
        SingleObjective::try_from(self.f[*s as usize]).unwrap()
    }
}
type P = TableProblem;

#[derive(Default, Copy, Clone, serde::Serialize)]
struct CustomId;

fn ind_s(i: &Individual<P>) -> String {
    match i.get_objective() {
        None => format!("({})", i.solution()),
        Some(o) => format!("({} {})", i.solution(), fx(o.value())),
    }
}
fn pop_s(p: &[Individual<P>]) -> String { list(p.iter().map(ind_s)) }
fn mk_ind(x: &Sx) -> Individual<P> {
    let v = x.items().unwrap();
    let s = v[0].nat().unwrap();
    if v.len() > 1 {
        Individual::new(s, SingleObjective::try_from(v[1].float().unwrap()).unwrap())
    } else {
        Individual::new_unevaluated(s)
    }
}

fn pools() -> &'static HashMap<usize, rayon::ThreadPool> {
    static POOLS: std::sync::OnceLock<HashMap<usize, rayon::ThreadPool>> = std::sync::OnceLock::new();
    POOLS.get_or_init(|| {
        [1usize, 2, 4, 16].iter().map(|&n| (n, rayon::ThreadPoolBuilder::new().num_threads(n).build().unwrap())).collect()
    })
}

fn in_pool<R: Send>(threads: usize, f: impl FnOnce() -> R + Send) -> R {
    match pools().get(&threads) {
        Some(p) => p.install(f),
        None => f(),
    }
}

fn err_kind(e: &eyre::Report) -> &'static str {
    let s = format!("{e:?}");
    if s.contains("missing") || s.contains("require") { "required" } else { "exec" }
}

/// `(evalsteps (ev seq|par T) (reg g a) (f x…) (steps …))`
fn run_evalsteps(a: &[Sx]) -> String {
    let (_, ev) = a[0].head().unwrap();
    let par = ev[0].atom().unwrap() == "par";
    let threads = ev[1].nat().unwrap() as usize;
    let reg: Vec<String> = a[1].head().unwrap().1.iter().map(|x| x.atom().unwrap().to_string()).collect();
    let ftab: Vec<f64> = a[2].head().unwrap().1.iter().map(|x| x.float().unwrap()).collect();
    let steps = a[3].head().unwrap().1.to_vec();
    in_pool(threads, move || {
        let problem = TableProblem { f: Arc::new(ftab), log: Default::default() };
        let recs: Arc<Mutex<Vec<String>>> = Default::default();
        let seen: Arc<Mutex<usize>> = Default::default();
        let mut b = Configuration::<P>::builder();
        for st in &steps {
            let (name, args) = st.head().unwrap();
            match name {
                "push" => {
                    let pop: Vec<Individual<P>> = args[0].items().unwrap().iter().map(mk_ind).collect();
                    b = b.debug(move |_p, state: &mut State<P>| state.populations_mut().push(pop.clone()));
                }
                "pop" => {
                    b = b.debug(|_p, state: &mut State<P>| { state.populations_mut().pop(); });
                }
                "eval" => {
                    b = if args[0].atom().unwrap() == "g" { b.evaluate() } else { b.evaluate_with::<CustomId>() };
                    let (recs, seen) = (recs.clone(), seen.clone());
                    b = b.debug(move |p: &P, state: &mut State<P>| {
                        let log = p.log.lock().unwrap();
                        let mut seen = seen.lock().unwrap();
                        let calls = tagged("calls", log[*seen..].iter().map(|s| s.to_string()));
                        *seen = log.len();
                        let top = match state.populations().get_current() {
                            None => "notop".to_string(),
                            Some(t) => tagged("top", t.iter().map(ind_s)),
                        };
                        recs.lock().unwrap().push(format!("(ev {} {} {})", state.evaluations(), calls, top));
                    });
                }
                other => panic!("unknown step {other}"),
            }
        }
        let config = b.build();
        let mut state: State<P> = State::new();
        state.insert(Populations::<P>::new());
        for r in &reg {
            match (r.as_str(), par) {
                ("g", false) => state.insert_evaluator(Sequential::<P>::new()),
                ("g", true) => state.insert_evaluator(Parallel::<P>::new()),
                ("a", false) => state.insert_evaluator_as::<CustomId>(Sequential::<P>::new()),
                ("a", true) => state.insert_evaluator_as::<CustomId>(Parallel::<P>::new()),
                _ => {}
            }
        }
        let res = match catch(|| config.run(&problem, &mut state)) {
            None => "(res panic)".to_string(),
            Some(Ok(())) => "(res ok)".to_string(),
            Some(Err(e)) => format!("(res (e {}))", err_kind(&e)),
        };
        let evals = state.try_get_value::<Evaluations>().ok().map(|v| v.to_string()).unwrap_or("none".into());
        let ncalls = problem.log.lock().unwrap().len();
        let stack = catch(|| {
            let pops = state.populations();
            (0..pops.len()).map(|d| pop_s(pops.peek(d))).collect::<Vec<_>>()
        })
        .unwrap_or_default();
        let recs = recs.lock().unwrap().clone();
        list([res, tagged("evs", recs), format!("(final (evals {}) (ncalls {}) {})", evals, ncalls, tagged("stack", stack))])
    })
}

/// `(budget (n N) (m M))`
fn run_budget(a: &[Sx]) -> String {
    let n = a[0].head().unwrap().1[0].nat().unwrap() as u32;
    let m = a[1].head().unwrap().1[0].nat().unwrap();
    let problem = TableProblem { f: Arc::new(vec![0.0; m as usize + 1]), log: Default::default() };
    let config = Configuration::<P>::builder()
        .while_(LessThanN::evaluations(n), |b| {
            b.debug(move |_p, state: &mut State<P>| {
                state.populations_mut().push((0..m).map(Individual::new_unevaluated).collect())
            })
            .evaluate()
            .debug(|_p, state: &mut State<P>| { state.populations_mut().pop(); })
        })
        .build();
    match catch(|| config.optimize(&problem, Sequential::<P>::new())) {
        Some(Ok(state)) => format!("((evals {}) (ncalls {}))", state.evaluations(), problem.log.lock().unwrap().len()),
        Some(Err(_)) => "err".into(),
        None => "panic".into(),
    }
}

/// An evaluator for `Sphere` that records into its OWN probe (never the problem's).
struct ProbeEval(hcommon::problems::Probe);
impl mahf::problems::Evaluate for ProbeEval {
    type Problem = hcommon::problems::Sphere;
    fn evaluate(&mut self, problem: &Self::Problem, _state: &mut State<Self::Problem>, individuals: &mut [Individual<Self::Problem>]) {
        for i in individuals {
            let probe = &self.0;
            i.evaluate_with(|s| {
                let v = problem.f(s);
                probe.record(v);
                SingleObjective::try_from(v).unwrap_or(SingleObjective::try_from(f64::INFINITY).unwrap())
            });
        }
    }
}

/// `(fa a|g (reg a g) (n N) (inst I) (iters K) (seed S))`: the firefly skeleton `fa::fa::<P, ID>` with
/// `FireflyPositionsUpdate::<ID>`; the evaluator under `ID` records into probe A, the evaluator under the
/// other identifier (if registered) into probe G.
fn run_fa(a: &[Sx]) -> String {
    use hcommon::problems::{Probe, Sphere};
    use mahf::components::{boundary, initialization, swarm, utils};
    use mahf::heuristics::fa;
    fn build<I: mahf::identifier::Identifier>(n: u32, iters: u32) -> Configuration<Sphere> {
        Configuration::builder()
            .do_(initialization::RandomSpread::new(n))
            .evaluate_with::<I>()
            .update_best_individual()
            .do_(fa::fa::<Sphere, I>(
                fa::Parameters {
                    firefly_update: swarm::fa::FireflyPositionsUpdate::<I>::new_with_id(0.25, 1.0, 0.01),
                    constraints: boundary::Saturation::new(),
                    alpha_update: utils::Noop::new(),
                },
                LessThanN::iterations(iters),
            ))
            .build()
    }
    let id = a[0].atom().unwrap();
    let reg: Vec<&str> = a[1].head().unwrap().1.iter().map(|x| x.atom().unwrap()).collect();
    let get = |k: usize| a[k].head().unwrap().1[0].nat().unwrap();
    let (n, inst, iters, seed) = (get(2) as u32, get(3) as u32, get(4) as u32, get(5));
    let problem = sphere_instance(inst);
    let (pa, pg) = (Probe::new(false), Probe::new(false));
    let config = if id == "a" { build::<CustomId>(n, iters) } else { build::<mahf::identifier::Global>(n, iters) };
    let r = catch(|| {
        config.optimize_with(&problem, |state| {
            state.insert(mahf::Random::new(seed));
            for r in &reg {
                let mine = *r == id;
                let ev = ProbeEval(if mine { pa.clone() } else { pg.clone() });
                if *r == "a" { state.insert_evaluator_as::<CustomId>(ev) } else { state.insert_evaluator(ev) }
            }
            Ok(())
        })
    });
    let (res, evals) = match r {
        None => ("panic".to_string(), "none".to_string()),
        Some(Err(e)) => (format!("(e {})", err_kind(&e)), "none".to_string()),
        Some(Ok(state)) => ("ok".to_string(), state.try_get_value::<Evaluations>().ok().map(|v| v.to_string()).unwrap_or("none".into())),
    };
    format!("((res {}) (evals {}) (callsA {}) (callsG {}))", res, evals, pa.count(), pg.count())
}

/// Visitor for run-level counting.
struct Counting {
    frames: Vec<(u64, Option<u32>, usize, usize)>, // probe count, visible evals, top size, number of children
    scopes: Vec<usize>,                            // index of the `(s …)` event of every open scope
    events: Vec<String>,
    result: String,
    nsteps: u64,                                   // observer callbacks (Phase::Before) = components/passes started
}
fn short(name: &str) -> String {
    let base = name.split('<').next().unwrap_or(name);
    let mut it = base.rsplit("::");
    let last = it.next().unwrap_or("?");
    last.chars().filter(|c| c.is_ascii_alphanumeric() || *c == '_').collect()
}
fn vis_evals<Q: HProblem>(state: &State<Q>) -> Option<u32> { state.try_get_value::<Evaluations>().ok() }
fn on(v: Option<u32>) -> String { v.map(|x| x.to_string()).unwrap_or("none".into()) }
impl Visitor for Counting {
    fn step<Q: HProblem>(&mut self, phase: Phase, name: &'static str, _index: usize, state: &State<Q>, problem: &Q) {
        let is_scope = name.contains("control_flow::Scope");
        match phase {
            Phase::Before => {
                self.nsteps += 1;
                if let Some(f) = self.frames.last_mut() { f.3 += 1; }
                let top = state.populations().get_current().map(|p| p.len()).unwrap_or(0);
                self.frames.push((problem.probe().count(), vis_evals(state), top, 0));
                if is_scope {
                    self.scopes.push(self.events.len());
                    self.events.push("(s f)".into());
                }
            }
            Phase::After => {
                let Some((c0, e0, top, children)) = self.frames.pop() else { return };
                if is_scope {
                    self.scopes.pop();
                    self.events.push("(x)".into());
                    return;
                }
                if children > 0 { return; }
                let k = problem.probe().count() - c0;
                let d = match (e0, vis_evals(state)) {
                    (Some(a), Some(b)) => Some(b.wrapping_sub(a)),
                    (None, Some(b)) => Some(b),
                    _ => None,
                };
                if name.contains("PopulationEvaluator") {
                    if let Some(&i) = self.scopes.last() { self.events[i] = "(s t)".into(); }
                    self.events.push(format!("(ev {} {} {})", top, k, on(d)));
                } else if name.contains("FireflyPositionsUpdate") {
                    self.events.push(format!("(fa {} {})", k, on(d)));
                } else if k != 0 || !(d == Some(0) || d.is_none()) {
                    self.events.push(format!("(o {} {} {})", short(name), k, on(d)));
                }
            }
        }
    }
    fn done<Q: HProblem>(&mut self, outcome: &Outcome, state: Option<&State<Q>>, problem: &Q) {
        let evals = state.and_then(|s| vis_evals(s));
        self.result = list([
            format!("(out {})", outcome.tag()),
            tagged("trace", self.events.clone()),
            format!("(evals {})", on(evals)),
            format!("(ncalls {})", problem.probe().count()),
        ]);
    }
}

/// `(run NAME V I ITERS SEED seq|par)`
fn run_run(a: &[Sx]) -> String {
    let name = a[0].atom().unwrap();
    let (v, i, iters, seed) = (a[1].nat().unwrap() as u32, a[2].nat().unwrap() as u32, a[3].nat().unwrap() as u32, a[4].nat().unwrap());
    let ek = if a[5].atom().unwrap() == "par" { EvalKind::Parallel } else { EvalKind::Sequential };
    let vis = Counting { frames: vec![], scopes: vec![], events: vec![], result: String::new(), nsteps: 0 };
    match run_template(name, v, i, iters, seed, ek, vis) {
        Ok((vis, _)) => vis.result,
        Err(_) => "((out ctor-err) (trace) (evals none) (ncalls 0))".into(),
    }
}

/// `(generic NAME V I ITERS SEED seq|par only-a|only-g)`: the generic loop function `NAME` instantiated with
/// evaluator identifier `A`, run on a state that holds only `Evaluator<P, A>` (`only-a`) or only
/// `Evaluator<P, Global>` (`only-g`). Output: the run-level record of `run_run`, how many components/passes
/// were started at all, and the configuration's serialised tree.
fn run_generic_case(a: &[Sx]) -> String {
    let name = a[0].atom().unwrap();
    let (v, i, iters, seed) = (a[1].nat().unwrap() as u32, a[2].nat().unwrap() as u32, a[3].nat().unwrap() as u32, a[4].nat().unwrap());
    let ek = if a[5].atom().unwrap() == "par" { EvalKind::Parallel } else { EvalKind::Sequential };
    let reg = if a[6].atom().unwrap() == "only-a" { Registered::OnlyA } else { Registered::OnlyGlobal };
    let tree = generic_tree(name, v, iters);
    let vis = Counting { frames: vec![], scopes: vec![], events: vec![], result: String::new(), nsteps: 0 };
    match run_generic(name, v, i, iters, seed, ek, reg, vis) {
        Ok((vis, outcome)) => {
            let out = match &outcome {
                Outcome::Err(msg) if msg.contains("missing") || msg.contains("require") => "err-required",
                o => o.tag(),
            };
            // `vis.result` = `((out …) (trace …) (evals …) (ncalls …))`; the outcome is refined here
            let body = vis.result.trim_start_matches('(').splitn(2, ") ").nth(1).unwrap_or("").to_string();
            let body = body.strip_suffix(')').unwrap_or(&body).to_string();
            format!("((out {}) {} (nsteps {}) (tree {}))", out, body, vis.nsteps, tree)
        }
        Err(_) => format!("((out ctor-err) (trace) (evals none) (ncalls 0) (nsteps 0) (tree {}))", tree),
    }
}

fn run_case(input: &Sx) -> (String, String) {
    let (tag, a) = input.head().unwrap();
    match tag {
        "evalsteps" => ("PopulationEvaluator".into(), run_evalsteps(a)),
        "budget" => ("LessThanN-evaluations".into(), run_budget(a)),
        "run" => (a[0].atom().unwrap().to_string(), run_run(a)),
        "fa" => ("FireflyPositionsUpdate".into(), run_fa(a)),
        "generic" => (format!("generic/{}", a[0].atom().unwrap()), run_generic_case(a)),
        other => panic!("unknown case {other}"),
    }
}

const GRID: [f64; 10] = [0.0, 1.0, 1.0, 2.5, -3.0, f64::INFINITY, 1e300, 5e-324, 7.0, 2.5];

fn gen_pop(r: &mut Sm, n: u64, nsol: u64, ftab: &[f64]) -> String {
    list((0..n).map(|_| {
        let s = r.below(nsol);
        match r.below(10) {
            0 => format!("({} {})", s, fx(ftab[s as usize])),            // already evaluated, correct
            1 => format!("({} {})", s, fx(*r.pick(&GRID))),               // already evaluated, possibly stale
            _ => format!("({})", s),
        }
    }))
}

fn main() {
    quiet_panics();
    let a = args();
    let mut out = Out::new();
    if let Some(r) = a.replay {
        let sx = Sx::parse(&r).expect("bad replay input");
        let (site, o) = run_case(&sx);
        out.case(&site, &r, &o);
        out.finish();
        return;
    }
    if std::env::args().any(|x| x == "--generic-trees") {
        // regenerated layer: one line per generic loop function x parameter point: `(tree NAME variant TREE)`
        for name in GENERIC_TEMPLATES {
            for v in 0..N_VARIANTS {
                println!("(tree {} {} {})", name, v, generic_tree(name, v, 3));
            }
        }
        return;
    }
    let mut emit = |input: String| {
        let sx = Sx::parse(&input).unwrap();
        let (site, o) = run_case(&sx);
        out.case(&site, &input, &o);
    };
    let mut r = Sm::new(a.seed ^ 0xC06);
    let nsol = 64u64;
    let mk_ftab = |r: &mut Sm| -> Vec<f64> { (0..nsol).map(|_| *r.pick(&GRID)).collect() };
    let ft_s = |ft: &[f64]| tagged("f", ft.iter().map(|v| fx(*v)));
    // 1a. every size 0..=50 × evaluator × pool, one evaluation step, both identifiers
    for n in 0..=50u64 {
        for (kind, threads) in [("seq", 0), ("seq", 2), ("par", 0), ("par", 1), ("par", 2), ("par", 4), ("par", 16)] {
            let ft = mk_ftab(&mut r);
            let id = if n % 2 == 0 { "g" } else { "a" };
            let pop = gen_pop(&mut r, n, nsol, &ft);
            emit(format!("(evalsteps (ev {kind} {threads}) (reg g a) {} (steps (push {pop}) (eval {id})))", ft_s(&ft)));
        }
    }
    // 1b. random step sequences, incl. empty stack, missing evaluator, several populations
    let n_rand = if a.thorough { 12000 } else { 1200 };
    for _ in 0..n_rand {
        let ft = mk_ftab(&mut r);
        let (kind, threads) = *r.pick(&[("seq", 0u64), ("seq", 4), ("par", 0), ("par", 1), ("par", 2), ("par", 4), ("par", 16)]);
        let reg = *r.pick(&["g a", "g a", "g a", "g", "a", ""]);
        let len = r.range(1, 8);
        let mut steps = vec![];
        let mut h = 0u64;
        for _ in 0..len {
            match r.below(10) {
                0..=3 => { let n = if r.chance(1, 4) { r.below(51) } else { r.below(7) }; steps.push(format!("(push {})", gen_pop(&mut r, n, nsol, &ft))); h += 1; }
                4 if h > 0 => { steps.push("(pop)".into()); h -= 1; }
                _ => {
                    let id = if reg == "g a" { *r.pick(&["g", "a"]) } else if r.chance(1, 6) { *r.pick(&["g", "a"]) } else if reg == "a" { "a" } else { "g" };
                    steps.push(format!("(eval {id})"));
                }
            }
        }
        if !steps.iter().any(|s| s.starts_with("(eval")) && r.chance(9, 10) {
            steps.push(format!("(eval {})", if reg == "a" { "a" } else { "g" }));
        }
        emit(format!("(evalsteps (ev {kind} {threads}) (reg {reg}) {} {})", ft_s(&ft), tagged("steps", steps)));
    }
    // 2. budget loops
    for n in 0..=(if a.thorough { 60 } else { 24 }) {
        for m in [1u64, 2, 3, 5, 7, 12] {
            emit(format!("(budget (n {n}) (m {m}))"));
        }
    }
    // 2b. firefly skeleton with a non-Global evaluator identifier (and Global for comparison)
    for (id, reg) in [("a", "a"), ("a", "a g"), ("a", "g a"), ("g", "g"), ("g", "g a")] {
        for n in [2u64, 3, 5] {
            for k in 0..(if a.thorough { 8 } else { 2 }) {
                let inst = (n + k) % 4;
                emit(format!("(fa {id} (reg {reg}) (n {n}) (inst {inst}) (iters 4) (seed {}))", a.seed * 100 + k));
            }
        }
    }
    // 3. run level
    let seeds: u64 = if a.thorough { 8 } else { 1 };
    let iters = if a.thorough { 8 } else { 5 };
    for name in TEMPLATES {
        for v in 0..N_VARIANTS {
            for i in 0..N_INSTANCES {
                for k in 0..seeds {
                    let seed = a.seed * 1000 + k;
                    let ek = if (v + i + k as u32) % 3 == 0 { "par" } else { "seq" };
                    emit(format!("(run {name} {v} {i} {iters} {seed} {ek})"));
                }
            }
        }
    }
    // 4. generic loop functions instantiated with identifier A
    for name in GENERIC_TEMPLATES {
        for v in 0..N_VARIANTS {
            for i in 0..N_INSTANCES {
                for k in 0..seeds {
                    let seed = a.seed * 1000 + k;
                    let ek = if (v + i + k as u32) % 3 == 1 { "par" } else { "seq" };
                    emit(format!("(generic {name} {v} {i} {iters} {seed} {ek} only-a)"));
                    if k == 0 {
                        emit(format!("(generic {name} {v} {i} {iters} {seed} {ek} only-g)"));
                    }
                }
            }
        }
    }
    out.finish();
}
