//! C09 — objective values. Runs the real `SingleObjective` / `MultiObjective` constructors,
//! comparison operators and derived arithmetic operators on bit patterns; prints raw results
//! (bit patterns, orderings, panics). Classification is left to the Lean driver.
use hcommon::problems::TagProblem;
use hcommon::*;
use mahf::population::BestIndividual;
use mahf::{Individual, MultiObjective, SingleObjective};
use std::cmp::{Ordering, Reverse};
use std::collections::{BTreeMap, BTreeSet, BinaryHeap};

fn ord(o: Ordering) -> &'static str {
    match o {
        Ordering::Less => "lt",
        Ordering::Equal => "eq",
        Ordering::Greater => "gt",
    }
}
fn oord(o: Option<Ordering>) -> &'static str {
    o.map(ord).unwrap_or("none")
}
fn cmp_s(a: &SingleObjective, b: &SingleObjective) -> &'static str {
    catch(|| a.cmp(b)).map(ord).unwrap_or("panic")
}
fn obj(x: &Sx) -> Option<SingleObjective> {
    SingleObjective::try_from(x.float().unwrap()).ok()
}
fn objs(x: &Sx) -> Option<Vec<SingleObjective>> {
    x.items().unwrap().iter().map(obj).collect()
}
fn fvec(x: &Sx) -> Vec<f64> {
    x.items().unwrap().iter().map(|v| v.float().unwrap()).collect()
}
fn mobj(x: &Sx) -> Option<MultiObjective> {
    MultiObjective::try_from(fvec(x)).ok()
}
fn err_s(e: mahf::problems::objective::IllegalObjective) -> String {
    match e {
        mahf::problems::objective::IllegalObjective::NaN => "(e nan)".into(),
        mahf::problems::objective::IllegalObjective::NegativeInfinity => "(e ninf)".into(),
    }
}
fn fxs(v: &[f64]) -> String {
    list(v.iter().map(|x| fx(*x)))
}

/// `(xs x1 x2 ...)` -> legal objectives (None if one of them is rejected by the constructor).
fn tagged_objs(x: &Sx) -> Option<Vec<SingleObjective>> {
    let (_, items) = x.head().unwrap();
    items.iter().map(obj).collect()
}
fn kref<'a>(q: &&'a (SingleObjective, usize)) -> &'a SingleObjective {
    &q.0
}
fn opt_ix(o: Option<usize>) -> String {
    match o {
        Some(i) => format!("(some {})", i),
        None => "none".into(),
    }
}
fn bits_of(v: &[SingleObjective]) -> String {
    list(v.iter().map(|o| fx(o.value())))
}
fn idx_of(p: &[(SingleObjective, usize)]) -> String {
    nats(p.iter().map(|q| q.1 as u64))
}

/// Users of the order in std, each run on the real `Ord` / `PartialOrd` / `PartialEq` of `SingleObjective`.
/// Elements are identified by their position in the input (a pointer offset or an explicit tag).
fn std_case(op: &str, v: &[SingleObjective], arg: Option<&Sx>) -> String {
    let p: Vec<(SingleObjective, usize)> = v.iter().cloned().zip(0..).collect();
    let at = |r: &SingleObjective| -> usize {
        (r as *const SingleObjective as usize - v.as_ptr() as usize) / std::mem::size_of::<SingleObjective>()
    };
    let r = catch(|| match op {
        "min" => opt_ix(v.iter().min().map(at)),
        "max" => opt_ix(v.iter().max().map(at)),
        "min_by_key" => opt_ix(p.iter().min_by_key(|q| q.0).map(|q| q.1)),
        "max_by_key" => opt_ix(p.iter().max_by_key(|q| q.0).map(|q| q.1)),
        "min_by_key_ref" => opt_ix(p.iter().min_by_key(kref).map(|q| q.1)),
        "max_by_key_ref" => opt_ix(p.iter().max_by_key(kref).map(|q| q.1)),
        "min_by" => opt_ix(p.iter().min_by(|a, b| a.0.cmp(&b.0)).map(|q| q.1)),
        "max_by" => opt_ix(p.iter().max_by(|a, b| a.0.cmp(&b.0)).map(|q| q.1)),
        "tuple_min" => opt_ix(p.iter().min().map(|q| q.1)),
        "tuple_max" => opt_ix(p.iter().max().map(|q| q.1)),
        "sort" => { let mut s = v.to_vec(); s.sort(); bits_of(&s) }
        "sort_by" => { let mut s = p.clone(); s.sort_by(|a, b| a.0.cmp(&b.0)); idx_of(&s) }
        "sort_by_key" => { let mut s = p.clone(); s.sort_by_key(|q| q.0); idx_of(&s) }
        "sort_by_cached_key" => { let mut s = p.clone(); s.sort_by_cached_key(|q| q.0); idx_of(&s) }
        "sort_rev" => { let mut s = p.clone(); s.sort_by_key(|q| Reverse(q.0)); idx_of(&s) }
        "tuple_sort" => { let mut s = p.clone(); s.sort(); idx_of(&s) }
        "sort_unstable" => { let mut s = v.to_vec(); s.sort_unstable(); bits_of(&s) }
        "sort_unstable_by" => { let mut s = p.clone(); s.sort_unstable_by(|a, b| a.0.cmp(&b.0)); idx_of(&s) }
        "sort_unstable_by_key" => { let mut s = p.clone(); s.sort_unstable_by_key(|q| q.0); idx_of(&s) }
        "select_nth" => {
            let k = arg.and_then(|a| a.nat()).unwrap() as usize;
            let mut s = p.clone();
            s.select_nth_unstable_by_key(k, |q| q.0);
            idx_of(&s)
        }
        "heap" => bits_of(&BinaryHeap::from(v.to_vec()).into_sorted_vec()),
        "btree_collect" => {
            let s: BTreeSet<SingleObjective> = v.iter().cloned().collect();
            bits_of(&s.into_iter().collect::<Vec<_>>())
        }
        "btree_insert" => {
            let mut s = BTreeSet::new();
            let flags: Vec<String> = v.iter().map(|o| b(s.insert(*o))).collect();
            list([tagged("set", s.iter().map(|o| fx(o.value()))), tagged("flags", flags)])
        }
        "btree_map" => {
            let mut m = BTreeMap::new();
            for q in &p { m.insert(q.0, q.1); }
            list(m.iter().map(|(k, i)| list([fx(k.value()), i.to_string()])))
        }
        "binary_search" => {
            let needle = obj(arg.unwrap()).unwrap();
            let mut s = v.to_vec();
            s.sort();
            let r = match s.binary_search(&needle) {
                Ok(i) => format!("(ok {})", i),
                Err(i) => format!("(err {})", i),
            };
            list([tagged("sorted", s.iter().map(|o| fx(o.value()))), r])
        }
        "dedup" => { let mut s = v.to_vec(); s.dedup(); bits_of(&s) }
        _ => panic!("unknown std op {op}"),
    });
    r.unwrap_or("panic".into())
}

fn run_case(input: &Sx) -> String {
    let (name, a) = input.head().unwrap();
    match name {
        "try" => match SingleObjective::try_from(a[0].float().unwrap()) {
            Ok(o) => {
                let back: f64 = o.into();
                format!("(ok {} {} {})", fx(o.value()), fx(back), b(o.is_finite()))
            }
            Err(e) => err_s(e),
        },
        "const" => match a[0].atom().unwrap() {
            "default" => fx(SingleObjective::default().value()),
            _ => fx(SingleObjective::INFINITY.value()),
        },
        "cmp" => {
            let (Some(x), Some(y)) = (obj(&a[0]), obj(&a[1])) else { return "illegal".into() };
            list([
                tagged("lt", [b(x < y)]),
                tagged("le", [b(x <= y)]),
                tagged("gt", [b(x > y)]),
                tagged("ge", [b(x >= y)]),
                tagged("eq", [b(x == y)]),
                tagged("pcmp", [oord(x.partial_cmp(&y)).to_string()]),
                tagged("cmp", [cmp_s(&x, &y).to_string()]),
                tagged("ne", [b(x != y)]),
                // `impl Ord for &A` / `impl PartialOrd for &A` (what `min_by_key(|i| i.objective())` compares with)
                tagged("rcmp", [catch(|| Ord::cmp(&&x, &&y)).map(ord).unwrap_or("panic").to_string()]),
                tagged("rlt", [b(&x < &y)]),
            ])
        }
        "op" => {
            let opn = a[0].atom().unwrap();
            let Some(x) = obj(&a[1]) else { return "illegal".into() };
            let r: SingleObjective = match opn {
                "neg" => -x,
                "add" | "sub" => {
                    let Some(y) = obj(&a[2]) else { return "illegal".into() };
                    if opn == "add" { x + y } else { x - y }
                }
                // derive_more: `impl<T> Mul<T> for SingleObjective where f64: Mul<T, Output = f64>` — rhs is a raw scalar
                "mul" => x * a[2].float().unwrap(),
                "div" => x / a[2].float().unwrap(),
                _ => panic!("unknown operator"),
            };
            let later = if catch(|| r.cmp(&r)).is_some() { "ok" } else { "panic" };
            list([tagged("r", [fx(r.value())]), tagged("cmp", [later.to_string()])])
        }
        "trip" => {
            let (Some(x), Some(y), Some(z)) = (obj(&a[0]), obj(&a[1]), obj(&a[2])) else { return "illegal".into() };
            list([cmp_s(&x, &y).to_string(), cmp_s(&y, &z).to_string(), cmp_s(&x, &z).to_string()])
        }
        "sort" => {
            let Some(v) = objs(&a[0]) else { return "illegal".into() };
            let r = catch(|| {
                let mut s = v.clone();
                s.sort();
                let mn = v.iter().min().map(|o| fx(o.value())).unwrap_or("none".into());
                let mx = v.iter().max().map(|o| fx(o.value())).unwrap_or("none".into());
                list([tagged("sorted", s.iter().map(|o| fx(o.value()))), tagged("min", [mn]), tagged("max", [mx])])
            });
            r.unwrap_or("panic".into())
        }
        "mtry" => {
            let v = fvec(&a[0]);
            let show = |r: Result<MultiObjective, mahf::problems::objective::IllegalObjective>| match r {
                Ok(o) => {
                    let fin = o.is_finite();
                    let val = fxs(o.value());
                    let back: Vec<f64> = o.into();
                    format!("(ok {} {} {})", val, fxs(&back), b(fin))
                }
                Err(e) => err_s(e),
            };
            let r1 = show(MultiObjective::try_from(v.clone()));
            let r2 = show(MultiObjective::try_from(&v[..]));
            list([tagged("vec", [r1]), tagged("slice", [r2])])
        }
        "mcmp" => {
            let (Some(x), Some(y)) = (mobj(&a[0]), mobj(&a[1])) else { return "illegal".into() };
            list([
                tagged("eq", [b(x == y)]),
                tagged("pcmp", [oord(x.partial_cmp(&y)).to_string()]),
                tagged("lt", [b(x < y)]),
                tagged("gt", [b(x > y)]),
                tagged("le", [b(x <= y)]),
                tagged("ge", [b(x >= y)]),
                tagged("ne", [b(x != y)]),
            ])
        }
        "ord2" => {
            let (Some(x), Some(y)) = (obj(&a[0]), obj(&a[1])) else { return "illegal".into() };
            let show = |o: Option<SingleObjective>| o.map(|o| fx(o.value())).unwrap_or("panic".into());
            list([
                tagged("min", [show(catch(|| Ord::min(x, y)))]),
                tagged("max", [show(catch(|| Ord::max(x, y)))]),
                tagged("cmin", [show(catch(|| std::cmp::min(x, y)))]),
                tagged("cmax", [show(catch(|| std::cmp::max(x, y)))]),
                tagged("rmin", [show(catch(|| *Ord::min(&x, &y)))]),
                tagged("rmax", [show(catch(|| *Ord::max(&x, &y)))]),
            ])
        }
        "clamp" => {
            let (Some(x), Some(lo), Some(hi)) = (obj(&a[0]), obj(&a[1]), obj(&a[2])) else { return "illegal".into() };
            catch(|| x.clamp(lo, hi)).map(|o| fx(o.value())).unwrap_or("panic".into())
        }
        "lex" => {
            let (Some(x), Some(y)) = (tagged_objs(&a[0]), tagged_objs(&a[1])) else { return "illegal".into() };
            let c = catch(|| x.cmp(&y)).map(ord).unwrap_or("panic");
            list([
                tagged("cmp", [c.to_string()]),
                tagged("pcmp", [oord(x.partial_cmp(&y)).to_string()]),
                tagged("eq", [b(x == y)]),
                tagged("lt", [b(x < y)]),
                tagged("le", [b(x[..] <= y[..])]),
            ])
        }
        "std" => {
            let op = a[0].atom().unwrap();
            let Some(v) = tagged_objs(&a[1]) else { return "illegal".into() };
            std_case(op, &v, a.get(2))
        }
        "best" => {
            let Some(v) = tagged_objs(&a[0]) else { return "illegal".into() };
            let pop: Vec<Individual<TagProblem>> =
                v.iter().enumerate().map(|(i, o)| Individual::new(i as u64, *o)).collect();
            let r = catch(|| {
                let whole = pop.best_individual().map(|i| *i.solution() as usize);
                let sl: &[Individual<TagProblem>] = &pop[..];
                let slice = sl.best_individual().map(|i| *i.solution() as usize);
                list([tagged("vec", [opt_ix(whole)]), tagged("slice", [opt_ix(slice)])])
            });
            r.unwrap_or("panic".into())
        }
        "mtrip" => {
            let (Some(x), Some(y), Some(z)) = (mobj(&a[0]), mobj(&a[1]), mobj(&a[2])) else { return "illegal".into() };
            list([
                oord(x.partial_cmp(&y)).to_string(),
                oord(y.partial_cmp(&z)).to_string(),
                oord(x.partial_cmp(&z)).to_string(),
            ])
        }
        _ => panic!("unknown case {name}"),
    }
}

fn legal(x: f64) -> bool {
    !(x.is_nan() || x == f64::NEG_INFINITY)
}

/// Special values: zeros, subnormals, extremes, overflow boundaries, infinities, NaN patterns.
fn specials() -> Vec<u64> {
    let p2 = |e: i32| 2f64.powi(e);
    let mut v: Vec<f64> = vec![
        0.0, 1.0, 2.0, 3.0, 0.5, 1.5, 10.0, 0.1, 1e-300, 1e300, 1e308, 1.7e308,
        f64::MIN_POSITIVE, f64::MAX, f64::MAX / 2.0, f64::EPSILON, 1.0 + f64::EPSILON,
        p2(1023), p2(1022), p2(970), p2(969), p2(971), p2(512), p2(511), p2(-511), p2(-512), p2(-1022), p2(-1023), p2(-1024),
        p2(53), p2(52), p2(-52),
    ];
    v.push(f64::from_bits(1)); // smallest subnormal
    v.push(f64::from_bits(2));
    v.push(f64::from_bits(0x000f_ffff_ffff_ffff)); // largest subnormal
    v.push(f64::from_bits(0x0010_0000_0000_0001));
    v.push(f64::from_bits(0x7fef_ffff_ffff_fffe)); // just below MAX
    v.push(f64::from_bits(p2(970).to_bits() - 1)); // just below half an ulp of MAX
    v.push(f64::from_bits(p2(970).to_bits() + 1));
    let mut bits: Vec<u64> = vec![];
    for x in &v {
        bits.push(x.to_bits());
        bits.push((-x).to_bits());
    }
    bits.extend([
        0x7ff0_0000_0000_0000, // +inf
        0xfff0_0000_0000_0000, // -inf
        0x7ff8_0000_0000_0000, // quiet NaN
        0xfff8_0000_0000_0000, // negative quiet NaN
        0x7ff0_0000_0000_0001, // signalling NaN
        0xfff0_0000_0000_0001,
        0x7fff_ffff_ffff_ffff,
        0xffff_ffff_ffff_ffff,
        0x7ff4_0000_0000_0000,
    ]);
    bits
}

/// Random pattern: uniform bits, or a value close to an interesting magnitude.
fn random_bits(r: &mut Sm) -> u64 {
    match r.below(10) {
        0..=4 => r.next(),
        5 => (r.below(2048) << 52) | (r.next() >> 63 << 63), // exact power of two / zero / inf
        6 => (r.below(2048) << 52) | (r.next() >> 12) | (r.next() >> 63 << 63),
        7 => ((r.below(20) as f64) - 10.0).to_bits(),
        8 => (0x7fe0_0000_0000_0000u64 + r.below(1 << 53)) | (r.next() >> 63 << 63), // near MAX / inf / NaN
        _ => r.below(1 << 54) | (r.next() >> 63 << 63), // subnormal neighbourhood
    }
}

fn xb(b: u64) -> String {
    format!("x{:016x}", b)
}

fn main() {
    quiet_panics();
    let a = args();
    let mut out = Out::new();
    if let Some(r) = a.replay {
        let sx = Sx::parse(&r).expect("bad replay input");
        out.case("replay", &r, &run_case(&sx));
        out.finish();
        return;
    }
    let mut emit = |site: &str, input: String| {
        let sx = Sx::parse(&input).unwrap();
        out.case(site, &input, &run_case(&sx));
    };
    let mut r = Sm::new(a.seed);
    let sp = specials();
    let sp_legal: Vec<u64> = sp.iter().cloned().filter(|b| legal(f64::from_bits(*b))).collect();
    let rand_legal = |r: &mut Sm| loop {
        let b = random_bits(r);
        if legal(f64::from_bits(b)) { return b; }
    };

    // 1. constructor
    emit("SingleObjective::default", "(const default)".into());
    emit("SingleObjective::INFINITY", "(const infinity)".into());
    for &x in &sp { emit("SingleObjective::try_from", format!("(try {})", xb(x))); }
    for _ in 0..(if a.thorough { 50_000 } else { 3_000 }) {
        emit("SingleObjective::try_from", format!("(try {})", xb(random_bits(&mut r))));
    }

    // 2. all pairs: comparison
    let mut cv = sp_legal.clone();
    for _ in 0..(if a.thorough { 340 } else { 60 }) { cv.push(rand_legal(&mut r)); }
    for &x in &cv { for &y in &cv {
        emit("SingleObjective::cmp", format!("(cmp {} {})", xb(x), xb(y)));
    } }

    // 3. all pairs x 5 operators
    let mut ov = sp_legal.clone();
    for _ in 0..(if a.thorough { 130 } else { 12 }) { ov.push(rand_legal(&mut r)); }
    let illegal_scalars: Vec<u64> = sp.iter().cloned().filter(|b| !legal(f64::from_bits(*b))).collect();
    for &x in &ov {
        emit("SingleObjective::neg", format!("(op neg {})", xb(x)));
        for &y in &ov {
            emit("SingleObjective::add", format!("(op add {} {})", xb(x), xb(y)));
            emit("SingleObjective::sub", format!("(op sub {} {})", xb(x), xb(y)));
            emit("SingleObjective::mul", format!("(op mul {} {})", xb(x), xb(y)));
            emit("SingleObjective::div", format!("(op div {} {})", xb(x), xb(y)));
        }
        for &y in &illegal_scalars {
            emit("SingleObjective::mul_scalar", format!("(op mul {} {})", xb(x), xb(y)));
            emit("SingleObjective::div_scalar", format!("(op div {} {})", xb(x), xb(y)));
        }
    }

    // 4. all triples on a ~40-value grid: transitivity
    let core: Vec<u64> = [0.0f64, -0.0, 1.0, -1.0, 2.0, 0.5, f64::MAX, f64::MIN, f64::MIN_POSITIVE, -f64::MIN_POSITIVE,
        f64::INFINITY, 1.0 + f64::EPSILON, 1e300, -1e300].iter().map(|x| x.to_bits())
        .chain([1u64, 0x8000_0000_0000_0001, 0x000f_ffff_ffff_ffff, 0x800f_ffff_ffff_ffff, 0x7fef_ffff_ffff_fffe]).collect();
    let mut tv = core.clone();
    let tn = if a.thorough { 64 } else { 40 };
    while tv.len() < tn { tv.push(rand_legal(&mut r)); }
    for &x in &tv { for &y in &tv { for &z in &tv {
        emit("SingleObjective::order3", format!("(trip {} {} {})", xb(x), xb(y), xb(z)));
    } } }

    // 5. sorting / min / max of random lists (duplicates and signed zeros likely)
    for _ in 0..(if a.thorough { 5_000 } else { 600 }) {
        // mostly short lists; some long enough for std's merge / large-slice paths
        let n = match r.below(8) { 0 => 21 + r.below(100), 1 => 9 + r.below(24), _ => r.below(9) };
        let items: Vec<String> = (0..n).map(|_| {
            if r.chance(1, 2) { xb(*r.pick(&core)) } else { xb(rand_legal(&mut r)) }
        }).collect();
        emit("SingleObjective::sort", format!("(sort {})", list(items)));
    }

    // 6. multi-objective: vectors up to length 3 over a 7-value grid (+ NaN, -inf for the constructor)
    let g7: Vec<u64> = [-1.0f64, -0.0, 0.0, 1.0, 2.0, f64::MAX, f64::INFINITY].iter().map(|x| x.to_bits()).collect();
    let mut g9 = g7.clone();
    g9.push(0x7ff8_0000_0000_0000);
    g9.push(0xfff0_0000_0000_0000);
    let vectors = |g: &[u64], maxlen: usize| -> Vec<Vec<u64>> {
        let mut all: Vec<Vec<u64>> = vec![vec![]];
        let mut cur: Vec<Vec<u64>> = vec![vec![]];
        for _ in 0..maxlen {
            let mut nxt = vec![];
            for v in &cur { for &x in g { let mut w = v.clone(); w.push(x); nxt.push(w); } }
            all.extend(nxt.iter().cloned());
            cur = nxt;
        }
        all
    };
    let vs = |v: &[u64]| list(v.iter().map(|b| xb(*b)));
    for v in vectors(&g9, 3) { emit("MultiObjective::try_from", format!("(mtry {})", vs(&v))); }
    for _ in 0..(if a.thorough { 5_000 } else { 500 }) {
        let n = r.below(6);
        let v: Vec<u64> = (0..n).map(|_| random_bits(&mut r)).collect();
        emit("MultiObjective::try_from", format!("(mtry {})", vs(&v)));
    }
    let v7 = vectors(&g7, 3);
    if a.thorough {
        for x in &v7 { for y in &v7 {
            emit("MultiObjective::partial_cmp", format!("(mcmp {} {})", vs(x), vs(y)));
        } }
    } else {
        let v72 = vectors(&g7, 2);
        for x in &v72 { for y in &v72 {
            emit("MultiObjective::partial_cmp", format!("(mcmp {} {})", vs(x), vs(y)));
        } }
        let g4: Vec<u64> = [-0.0f64, 0.0, 1.0, f64::INFINITY].iter().map(|x| x.to_bits()).collect();
        let v43 = vectors(&g4, 3);
        for x in &v43 { for y in &v43 {
            emit("MultiObjective::partial_cmp", format!("(mcmp {} {})", vs(x), vs(y)));
        } }
        for _ in 0..30_000 {
            let x = r.pick(&v7).clone();
            let y = r.pick(&v7).clone();
            emit("MultiObjective::partial_cmp", format!("(mcmp {} {})", vs(&x), vs(&y)));
        }
    }
    // random longer vectors (any length)
    for _ in 0..(if a.thorough { 20_000 } else { 2_000 }) {
        let n = r.below(7) as usize;
        let x: Vec<u64> = (0..n).map(|_| if r.chance(2, 3) { *r.pick(&g7) } else { rand_legal(&mut r) }).collect();
        let m = if r.chance(1, 8) { r.below(7) as usize } else { n };
        let y: Vec<u64> = (0..m).map(|i| match r.below(4) {
            0 if i < x.len() => x[i],
            1 => rand_legal(&mut r),
            _ => *r.pick(&g7),
        }).collect();
        emit("MultiObjective::partial_cmp", format!("(mcmp {} {})", vs(&x), vs(&y)));
    }
    // triples: all over vectors of length <= 2 on a 4-value grid, plus random triples of the 7-grid vectors
    let g4: Vec<u64> = [-0.0f64, 0.0, 1.0, f64::INFINITY].iter().map(|x| x.to_bits()).collect();
    let v42 = vectors(&g4, 2);
    for x in &v42 { for y in &v42 { for z in &v42 {
        emit("MultiObjective::order3", format!("(mtrip {} {} {})", vs(x), vs(y), vs(z)));
    } } }
    for _ in 0..(if a.thorough { 100_000 } else { 10_000 }) {
        let x = r.pick(&v7).clone();
        // bias towards comparable triples: same length, perturb coordinates upwards
        let bump = |r: &mut Sm, v: &Vec<u64>| -> Vec<u64> {
            v.iter().map(|&b| if r.chance(1, 2) { b } else { *r.pick(&g7) }).collect()
        };
        let y = if r.chance(3, 4) { bump(&mut r, &x) } else { r.pick(&v7).clone() };
        let z = if r.chance(3, 4) { bump(&mut r, &y) } else { r.pick(&v7).clone() };
        emit("MultiObjective::order3", format!("(mtrip {} {} {})", vs(&x), vs(&y), vs(&z)));
    }
    // 7. multi-objective, long vectors (7..64, a few up to 300): structured relations, so that equal / dominating /
    //    trade-off / length-mismatch outcomes all occur at every length and the deciding coordinate sits anywhere
    let bigger = |r: &mut Sm, b: u64| -> Option<u64> {
        let x = f64::from_bits(b);
        if x == f64::INFINITY { return None; }
        Some(match r.below(4) {
            0 => f64::INFINITY.to_bits(),
            1 => { let y = f64::from_bits(if x > 0.0 { b + 1 } else if x < 0.0 { b - 1 } else { 1 }); y.to_bits() } // next double up
            _ => { let y = if x.abs() < 1e300 { x.abs() * 2.0 + 1.0 } else { f64::INFINITY }; y.to_bits() }
        })
    };
    let long_len = |r: &mut Sm| -> usize { if r.chance(1, 12) { 65 + r.below(236) as usize } else { 7 + r.below(58) as usize } };
    let long_vec = |r: &mut Sm, n: usize| -> Vec<u64> {
        (0..n).map(|_| if r.chance(2, 3) { *r.pick(&g7) } else { rand_legal(r) }).collect()
    };
    let pos = |r: &mut Sm, n: usize| -> usize { match r.below(4) { 0 => 0, 1 => n - 1, _ => r.below(n as u64) as usize } };
    let flip_zeros = |r: &mut Sm, v: &mut Vec<u64>| {
        for b in v.iter_mut() { if *b << 1 == 0 && r.chance(1, 2) { *b ^= 1 << 63; } }
    };
    for _ in 0..(if a.thorough { 12_000 } else { 1_500 }) {
        let n = long_len(&mut r);
        let x = long_vec(&mut r, n);
        let mut y = x.clone();
        let kind = r.below(8);
        let k = 1 + r.below(3) as usize;
        match kind {
            0 => flip_zeros(&mut r, &mut y), // equal (possibly through signed zeros)
            1 | 2 => { // x dominates y in k coordinates (kind 2: the pair is emitted the other way round below)
                for _ in 0..k { let i = pos(&mut r, n); if let Some(w) = bigger(&mut r, y[i]) { y[i] = w; } }
                flip_zeros(&mut r, &mut y);
            }
            3 | 4 => { // trade-off: one coordinate up, another one down
                let i = pos(&mut r, n);
                let mut j = pos(&mut r, n);
                if j == i { j = (i + 1 + r.below(n as u64 - 1) as usize) % n; }
                if let Some(w) = bigger(&mut r, y[i]) { y[i] = w; }
                let mut x2 = x.clone();
                if let Some(w) = bigger(&mut r, x2[j]) { x2[j] = w; }
                emit("MultiObjective::partial_cmp", format!("(mcmp {} {})", vs(&x2), vs(&y)));
                continue;
            }
            5 => { y.truncate(n - 1 - r.below(3).min(n as u64 - 1) as usize); } // proper prefix
            6 => { y.push(*r.pick(&g7)); } // one longer
            _ => { y = long_vec(&mut r, n); }
        }
        if kind == 2 {
            emit("MultiObjective::partial_cmp", format!("(mcmp {} {})", vs(&y), vs(&x)));
        } else {
            emit("MultiObjective::partial_cmp", format!("(mcmp {} {})", vs(&x), vs(&y)));
        }
        // chains for transitivity: x <= y <= z coordinate-wise
        if kind <= 2 {
            let mut z = y.clone();
            if r.chance(2, 3) { let i = pos(&mut r, n); if let Some(w) = bigger(&mut r, z[i]) { z[i] = w; } }
            flip_zeros(&mut r, &mut z);
            emit("MultiObjective::order3", format!("(mtrip {} {} {})", vs(&x), vs(&y), vs(&z)));
        }
    }
    // constructor on long vectors: all legal, or one / two illegal coordinates at the front, the back, anywhere
    let illegal_bits: Vec<u64> = sp.iter().cloned().filter(|b| !legal(f64::from_bits(*b))).collect();
    for _ in 0..(if a.thorough { 6_000 } else { 800 }) {
        let n = if r.chance(1, 3) { 4 + r.below(4) as usize } else { long_len(&mut r) };
        let mut v = long_vec(&mut r, n);
        match r.below(6) {
            0 => {}
            5 => { let i = pos(&mut r, n); v[i] = *r.pick(&illegal_bits); let j = pos(&mut r, n); v[j] = *r.pick(&illegal_bits); }
            _ => { let i = pos(&mut r, n); v[i] = *r.pick(&illegal_bits); }
        }
        emit("MultiObjective::try_from", format!("(mtry {})", vs(&v)));
    }

    // 8. the provided methods of Ord: min / max (by value, std::cmp, through references), clamp
    let g_ord: Vec<u64> = [0.0f64, -0.0, 1.0, -1.0, 2.0, 0.5, f64::MAX, f64::MIN, f64::MIN_POSITIVE, -f64::MIN_POSITIVE,
        f64::INFINITY, 1.0 + f64::EPSILON].iter().map(|x| x.to_bits()).chain([1u64, 0x8000_0000_0000_0001]).collect();
    for &x in &g_ord { for &y in &g_ord {
        emit("Ord::min_max", format!("(ord2 {} {})", xb(x), xb(y)));
    } }
    for _ in 0..(if a.thorough { 5_000 } else { 500 }) {
        let x = rand_legal(&mut r);
        let y = if r.chance(1, 3) { x ^ (((x << 1 == 0) as u64) << 63) } else { rand_legal(&mut r) };
        emit("Ord::min_max", format!("(ord2 {} {})", xb(x), xb(y)));
    }
    let g_clamp: Vec<u64> = [0.0f64, -0.0, 1.0, -1.0, 2.0, f64::MIN, f64::INFINITY].iter().map(|x| x.to_bits())
        .chain([1u64, 0x8000_0000_0000_0001]).collect();
    for &x in &g_clamp { for &lo in &g_clamp { for &hi in &g_clamp {
        emit("Ord::clamp", format!("(clamp {} {} {})", xb(x), xb(lo), xb(hi)));
    } } }
    for _ in 0..(if a.thorough { 5_000 } else { 500 }) {
        emit("Ord::clamp", format!("(clamp {} {} {})", xb(rand_legal(&mut r)), xb(rand_legal(&mut r)), xb(rand_legal(&mut r))));
    }

    // 9. lexicographic comparison of slices of objectives
    let g5: Vec<u64> = [-0.0f64, 0.0, 1.0, -1.0, f64::INFINITY].iter().map(|x| x.to_bits()).collect();
    let tl = |t: &str, v: &[u64]| tagged(t, v.iter().map(|b| xb(*b)));
    let l52 = vectors(&g5, 2);
    for x in &l52 { for y in &l52 {
        emit("slice::cmp", format!("(lex {} {})", tl("xs", x), tl("ys", y)));
    } }
    for _ in 0..(if a.thorough { 5_000 } else { 500 }) {
        let n = r.below(12) as usize;
        let x: Vec<u64> = (0..n).map(|_| if r.chance(2, 3) { *r.pick(&g5) } else { rand_legal(&mut r) }).collect();
        let mut y = x.clone();
        flip_zeros(&mut r, &mut y);
        match r.below(4) {
            0 => {}
            1 => { y.truncate(r.below(n as u64 + 1) as usize); }
            2 => { y.push(*r.pick(&g5)); }
            _ => { if n > 0 { let i = r.below(n as u64) as usize; y[i] = *r.pick(&g5); } }
        }
        emit("slice::cmp", format!("(lex {} {})", tl("xs", &x), tl("ys", &y)));
    }

    // 10. users of the order in std (and `BestIndividual` of /repo) on whole collections
    const OPS: [&str; 24] = ["min", "max", "min_by_key", "max_by_key", "min_by_key_ref", "max_by_key_ref", "min_by", "max_by",
        "tuple_min", "tuple_max", "sort", "sort_by", "sort_by_key", "sort_by_cached_key", "sort_rev", "tuple_sort",
        "sort_unstable", "sort_unstable_by", "sort_unstable_by_key", "heap", "btree_collect", "btree_insert", "btree_map",
        "dedup"];
    let mut users = |r: &mut Sm, v: &[u64], all_args: bool| {
        let xs = tl("xs", v);
        for op in OPS { emit(&format!("std::{op}"), format!("(std {op} {xs})")); }
        emit("BestIndividual::best_individual", format!("(best {xs})"));
        if all_args {
            for k in 0..v.len() { emit("std::select_nth", format!("(std select_nth {xs} {k})")); }
            for &nd in &g5 { emit("std::binary_search", format!("(std binary_search {xs} {})", xb(nd))); }
        } else {
            if !v.is_empty() { emit("std::select_nth", format!("(std select_nth {xs} {})", r.below(v.len() as u64))); }
            let nd = if !v.is_empty() && r.chance(2, 3) { let b = *r.pick(v); if b << 1 == 0 && r.chance(1, 2) { b ^ (1 << 63) } else { b } }
                     else { rand_legal(r) };
            emit("std::binary_search", format!("(std binary_search {xs} {})", xb(nd)));
        }
    };
    // all lists of length <= 3 over {-0, 0, 1, -1, inf}, all of length 4 over {-0, 0, 1}
    for v in vectors(&g5, 3) { users(&mut r, &v, true); }
    for v in vectors(&g5[..3], 4).into_iter().filter(|v| v.len() == 4) { users(&mut r, &v, true); }
    // random lists: tie-heavy pools, both zeros forced into half of them; sizes across std's small-sort / merge / quicksort paths
    let pool_a: Vec<u64> = [-0.0f64, 0.0, 1.0, -1.0, f64::INFINITY].iter().map(|x| x.to_bits())
        .chain([1u64, 0x8000_0000_0000_0001]).collect();
    for _ in 0..(if a.thorough { 2_500 } else { 280 }) {
        let n = match r.below(16) { 0 => 65 + r.below(336), 1..=3 => 21 + r.below(44), 4..=6 => 9 + r.below(12), _ => r.below(9) } as usize;
        let kind = r.below(3);
        let mut v: Vec<u64> = (0..n).map(|_| match kind {
            0 => *r.pick(&pool_a),
            1 => if r.chance(1, 2) { *r.pick(&core) } else { rand_legal(&mut r) },
            _ => if r.chance(1, 4) { *r.pick(&pool_a) } else { rand_legal(&mut r) },
        }).collect();
        if n >= 2 && r.chance(1, 2) {
            let i = r.below(n as u64) as usize;
            let j = (i + 1 + r.below(n as u64 - 1) as usize) % n;
            v[i] = 0.0f64.to_bits();
            v[j] = (-0.0f64).to_bits();
        }
        users(&mut r, &v, false);
    }
    out.finish();
}
