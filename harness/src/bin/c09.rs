//! C09 — objective values. Runs the real `SingleObjective` / `MultiObjective` constructors,
//! comparison operators and derived arithmetic operators on bit patterns; prints raw results
//! (bit patterns, orderings, panics). Classification is left to the Lean driver.
use hcommon::*;
use mahf::{MultiObjective, SingleObjective};
use std::cmp::Ordering;

fn ord(o: Ordering) -> &'static str {
    match o {
        Ordering::Less => "lt",
        Ordering::Equal => "eq",
        Ordering::Greater => "gt",
    }
}
fn oord(o: Option<Ordering>) -> &'static str {
    o.map(ord).unwrap_or("none")
}
fn cmp_s(a: &SingleObjective, b: &SingleObjective) -> &'static str {
    catch(|| a.cmp(b)).map(ord).unwrap_or("panic")
}
fn obj(x: &Sx) -> Option<SingleObjective> {
    SingleObjective::try_from(x.float().unwrap()).ok()
}
fn objs(x: &Sx) -> Option<Vec<SingleObjective>> {
    x.items().unwrap().iter().map(obj).collect()
}
fn fvec(x: &Sx) -> Vec<f64> {
    x.items().unwrap().iter().map(|v| v.float().unwrap()).collect()
}
fn mobj(x: &Sx) -> Option<MultiObjective> {
    MultiObjective::try_from(fvec(x)).ok()
}
fn err_s(e: mahf::problems::objective::IllegalObjective) -> String {
    match e {
        mahf::problems::objective::IllegalObjective::NaN => "(e nan)".into(),
        mahf::problems::objective::IllegalObjective::NegativeInfinity => "(e ninf)".into(),
    }
}
fn fxs(v: &[f64]) -> String {
    list(v.iter().map(|x| fx(*x)))
}

fn run_case(input: &Sx) -> String {
    let (name, a) = input.head().unwrap();
    match name {
        "try" => match SingleObjective::try_from(a[0].float().unwrap()) {
            Ok(o) => {
                let back: f64 = o.into();
                format!("(ok {} {} {})", fx(o.value()), fx(back), b(o.is_finite()))
            }
            Err(e) => err_s(e),
        },
        "const" => match a[0].atom().unwrap() {
            "default" => fx(SingleObjective::default().value()),
            _ => fx(SingleObjective::INFINITY.value()),
        },
        "cmp" => {
            let (Some(x), Some(y)) = (obj(&a[0]), obj(&a[1])) else { return "illegal".into() };
            list([
                tagged("lt", [b(x < y)]),
                tagged("le", [b(x <= y)]),
                tagged("gt", [b(x > y)]),
                tagged("ge", [b(x >= y)]),
                tagged("eq", [b(x == y)]),
                tagged("pcmp", [oord(x.partial_cmp(&y)).to_string()]),
                tagged("cmp", [cmp_s(&x, &y).to_string()]),
            ])
        }
        "op" => {
            let opn = a[0].atom().unwrap();
            let Some(x) = obj(&a[1]) else { return "illegal".into() };
            let r: SingleObjective = match opn {
                "neg" => -x,
                "add" | "sub" => {
                    let Some(y) = obj(&a[2]) else { return "illegal".into() };
                    if opn == "add" { x + y } else { x - y }
                }
                // derive_more: `impl<T> Mul<T> for SingleObjective where f64: Mul<T, Output = f64>` — rhs is a raw scalar
                "mul" => x * a[2].float().unwrap(),
                "div" => x / a[2].float().unwrap(),
                _ => panic!("unknown operator"),
            };
            let later = if catch(|| r.cmp(&r)).is_some() { "ok" } else { "panic" };
            list([tagged("r", [fx(r.value())]), tagged("cmp", [later.to_string()])])
        }
        "trip" => {
            let (Some(x), Some(y), Some(z)) = (obj(&a[0]), obj(&a[1]), obj(&a[2])) else { return "illegal".into() };
            list([cmp_s(&x, &y).to_string(), cmp_s(&y, &z).to_string(), cmp_s(&x, &z).to_string()])
        }
        "sort" => {
            let Some(v) = objs(&a[0]) else { return "illegal".into() };
            let r = catch(|| {
                let mut s = v.clone();
                s.sort();
                let mn = v.iter().min().map(|o| fx(o.value())).unwrap_or("none".into());
                let mx = v.iter().max().map(|o| fx(o.value())).unwrap_or("none".into());
                list([tagged("sorted", s.iter().map(|o| fx(o.value()))), tagged("min", [mn]), tagged("max", [mx])])
            });
            r.unwrap_or("panic".into())
        }
        "mtry" => {
            let v = fvec(&a[0]);
            let show = |r: Result<MultiObjective, mahf::problems::objective::IllegalObjective>| match r {
                Ok(o) => {
                    let fin = o.is_finite();
                    let val = fxs(o.value());
                    let back: Vec<f64> = o.into();
                    format!("(ok {} {} {})", val, fxs(&back), b(fin))
                }
                Err(e) => err_s(e),
            };
            let r1 = show(MultiObjective::try_from(v.clone()));
            let r2 = show(MultiObjective::try_from(&v[..]));
            list([tagged("vec", [r1]), tagged("slice", [r2])])
        }
        "mcmp" => {
            let (Some(x), Some(y)) = (mobj(&a[0]), mobj(&a[1])) else { return "illegal".into() };
            list([
                tagged("eq", [b(x == y)]),
                tagged("pcmp", [oord(x.partial_cmp(&y)).to_string()]),
                tagged("lt", [b(x < y)]),
                tagged("gt", [b(x > y)]),
            ])
        }
        "mtrip" => {
            let (Some(x), Some(y), Some(z)) = (mobj(&a[0]), mobj(&a[1]), mobj(&a[2])) else { return "illegal".into() };
            list([
                oord(x.partial_cmp(&y)).to_string(),
                oord(y.partial_cmp(&z)).to_string(),
                oord(x.partial_cmp(&z)).to_string(),
            ])
        }
        _ => panic!("unknown case {name}"),
    }
}

fn legal(x: f64) -> bool {
    !(x.is_nan() || x == f64::NEG_INFINITY)
}

/// Special values: zeros, subnormals, extremes, overflow boundaries, infinities, NaN patterns.
fn specials() -> Vec<u64> {
    let p2 = |e: i32| 2f64.powi(e);
    let mut v: Vec<f64> = vec![
        0.0, 1.0, 2.0, 3.0, 0.5, 1.5, 10.0, 0.1, 1e-300, 1e300, 1e308, 1.7e308,
        f64::MIN_POSITIVE, f64::MAX, f64::MAX / 2.0, f64::EPSILON, 1.0 + f64::EPSILON,
        p2(1023), p2(1022), p2(970), p2(969), p2(971), p2(512), p2(511), p2(-511), p2(-512), p2(-1022), p2(-1023), p2(-1024),
        p2(53), p2(52), p2(-52),
    ];
    v.push(f64::from_bits(1)); // smallest subnormal
    v.push(f64::from_bits(2));
    v.push(f64::from_bits(0x000f_ffff_ffff_ffff)); // largest subnormal
    v.push(f64::from_bits(0x0010_0000_0000_0001));
    v.push(f64::from_bits(0x7fef_ffff_ffff_fffe)); // just below MAX
    v.push(f64::from_bits(p2(970).to_bits() - 1)); // just below half an ulp of MAX
    v.push(f64::from_bits(p2(970).to_bits() + 1));
    let mut bits: Vec<u64> = vec![];
    for x in &v {
        bits.push(x.to_bits());
        bits.push((-x).to_bits());
    }
    bits.extend([
        0x7ff0_0000_0000_0000, // +inf
        0xfff0_0000_0000_0000, // -inf
        0x7ff8_0000_0000_0000, // quiet NaN
        0xfff8_0000_0000_0000, // negative quiet NaN
        0x7ff0_0000_0000_0001, // signalling NaN
        0xfff0_0000_0000_0001,
        0x7fff_ffff_ffff_ffff,
        0xffff_ffff_ffff_ffff,
        0x7ff4_0000_0000_0000,
    ]);
    bits
}

/// Random pattern: uniform bits, or a value close to an interesting magnitude.
fn random_bits(r: &mut Sm) -> u64 {
    match r.below(10) {
        0..=4 => r.next(),
        5 => (r.below(2048) << 52) | (r.next() >> 63 << 63), // exact power of two / zero / inf
        6 => (r.below(2048) << 52) | (r.next() >> 12) | (r.next() >> 63 << 63),
        7 => ((r.below(20) as f64) - 10.0).to_bits(),
        8 => (0x7fe0_0000_0000_0000u64 + r.below(1 << 53)) | (r.next() >> 63 << 63), // near MAX / inf / NaN
        _ => r.below(1 << 54) | (r.next() >> 63 << 63), // subnormal neighbourhood
    }
}

fn xb(b: u64) -> String {
    format!("x{:016x}", b)
}

fn main() {
    quiet_panics();
    let a = args();
    let mut out = Out::new();
    if let Some(r) = a.replay {
        let sx = Sx::parse(&r).expect("bad replay input");
        out.case("replay", &r, &run_case(&sx));
        out.finish();
        return;
    }
    let mut emit = |site: &str, input: String| {
        let sx = Sx::parse(&input).unwrap();
        out.case(site, &input, &run_case(&sx));
    };
    let mut r = Sm::new(a.seed);
    let sp = specials();
    let sp_legal: Vec<u64> = sp.iter().cloned().filter(|b| legal(f64::from_bits(*b))).collect();
    let rand_legal = |r: &mut Sm| loop {
        let b = random_bits(r);
        if legal(f64::from_bits(b)) { return b; }
    };

    // 1. constructor
    emit("SingleObjective::default", "(const default)".into());
    emit("SingleObjective::INFINITY", "(const infinity)".into());
    for &x in &sp { emit("SingleObjective::try_from", format!("(try {})", xb(x))); }
    for _ in 0..(if a.thorough { 50_000 } else { 3_000 }) {
        emit("SingleObjective::try_from", format!("(try {})", xb(random_bits(&mut r))));
    }

    // 2. all pairs: comparison
    let mut cv = sp_legal.clone();
    for _ in 0..(if a.thorough { 340 } else { 60 }) { cv.push(rand_legal(&mut r)); }
    for &x in &cv { for &y in &cv {
        emit("SingleObjective::cmp", format!("(cmp {} {})", xb(x), xb(y)));
    } }

    // 3. all pairs x 5 operators
    let mut ov = sp_legal.clone();
    for _ in 0..(if a.thorough { 130 } else { 12 }) { ov.push(rand_legal(&mut r)); }
    let illegal_scalars: Vec<u64> = sp.iter().cloned().filter(|b| !legal(f64::from_bits(*b))).collect();
    for &x in &ov {
        emit("SingleObjective::neg", format!("(op neg {})", xb(x)));
        for &y in &ov {
            emit("SingleObjective::add", format!("(op add {} {})", xb(x), xb(y)));
            emit("SingleObjective::sub", format!("(op sub {} {})", xb(x), xb(y)));
            emit("SingleObjective::mul", format!("(op mul {} {})", xb(x), xb(y)));
            emit("SingleObjective::div", format!("(op div {} {})", xb(x), xb(y)));
        }
        for &y in &illegal_scalars {
            emit("SingleObjective::mul_scalar", format!("(op mul {} {})", xb(x), xb(y)));
            emit("SingleObjective::div_scalar", format!("(op div {} {})", xb(x), xb(y)));
        }
    }

    // 4. all triples on a ~40-value grid: transitivity
    let core: Vec<u64> = [0.0f64, -0.0, 1.0, -1.0, 2.0, 0.5, f64::MAX, f64::MIN, f64::MIN_POSITIVE, -f64::MIN_POSITIVE,
        f64::INFINITY, 1.0 + f64::EPSILON, 1e300, -1e300].iter().map(|x| x.to_bits())
        .chain([1u64, 0x8000_0000_0000_0001, 0x000f_ffff_ffff_ffff, 0x800f_ffff_ffff_ffff, 0x7fef_ffff_ffff_fffe]).collect();
    let mut tv = core.clone();
    let tn = if a.thorough { 64 } else { 40 };
    while tv.len() < tn { tv.push(rand_legal(&mut r)); }
    for &x in &tv { for &y in &tv { for &z in &tv {
        emit("SingleObjective::order3", format!("(trip {} {} {})", xb(x), xb(y), xb(z)));
    } } }

    // 5. sorting / min / max of random lists (duplicates and signed zeros likely)
    for _ in 0..(if a.thorough { 5_000 } else { 600 }) {
        // mostly short lists; some long enough for std's merge / large-slice paths
        let n = match r.below(8) { 0 => 21 + r.below(100), 1 => 9 + r.below(24), _ => r.below(9) };
        let items: Vec<String> = (0..n).map(|_| {
            if r.chance(1, 2) { xb(*r.pick(&core)) } else { xb(rand_legal(&mut r)) }
        }).collect();
        emit("SingleObjective::sort", format!("(sort {})", list(items)));
    }

    // 6. multi-objective: vectors up to length 3 over a 7-value grid (+ NaN, -inf for the constructor)
    let g7: Vec<u64> = [-1.0f64, -0.0, 0.0, 1.0, 2.0, f64::MAX, f64::INFINITY].iter().map(|x| x.to_bits()).collect();
    let mut g9 = g7.clone();
    g9.push(0x7ff8_0000_0000_0000);
    g9.push(0xfff0_0000_0000_0000);
    let vectors = |g: &[u64], maxlen: usize| -> Vec<Vec<u64>> {
        let mut all: Vec<Vec<u64>> = vec![vec![]];
        let mut cur: Vec<Vec<u64>> = vec![vec![]];
        for _ in 0..maxlen {
            let mut nxt = vec![];
            for v in &cur { for &x in g { let mut w = v.clone(); w.push(x); nxt.push(w); } }
            all.extend(nxt.iter().cloned());
            cur = nxt;
        }
        all
    };
    let vs = |v: &[u64]| list(v.iter().map(|b| xb(*b)));
    for v in vectors(&g9, 3) { emit("MultiObjective::try_from", format!("(mtry {})", vs(&v))); }
    for _ in 0..(if a.thorough { 5_000 } else { 500 }) {
        let n = r.below(6);
        let v: Vec<u64> = (0..n).map(|_| random_bits(&mut r)).collect();
        emit("MultiObjective::try_from", format!("(mtry {})", vs(&v)));
    }
    let v7 = vectors(&g7, 3);
    if a.thorough {
        for x in &v7 { for y in &v7 {
            emit("MultiObjective::partial_cmp", format!("(mcmp {} {})", vs(x), vs(y)));
        } }
    } else {
        let v72 = vectors(&g7, 2);
        for x in &v72 { for y in &v72 {
            emit("MultiObjective::partial_cmp", format!("(mcmp {} {})", vs(x), vs(y)));
        } }
        let g4: Vec<u64> = [-0.0f64, 0.0, 1.0, f64::INFINITY].iter().map(|x| x.to_bits()).collect();
        let v43 = vectors(&g4, 3);
        for x in &v43 { for y in &v43 {
            emit("MultiObjective::partial_cmp", format!("(mcmp {} {})", vs(x), vs(y)));
        } }
        for _ in 0..30_000 {
            let x = r.pick(&v7).clone();
            let y = r.pick(&v7).clone();
            emit("MultiObjective::partial_cmp", format!("(mcmp {} {})", vs(&x), vs(&y)));
        }
    }
    // random longer vectors (any length)
    for _ in 0..(if a.thorough { 20_000 } else { 2_000 }) {
        let n = r.below(7) as usize;
        let x: Vec<u64> = (0..n).map(|_| if r.chance(2, 3) { *r.pick(&g7) } else { rand_legal(&mut r) }).collect();
        let m = if r.chance(1, 8) { r.below(7) as usize } else { n };
        let y: Vec<u64> = (0..m).map(|i| match r.below(4) {
            0 if i < x.len() => x[i],
            1 => rand_legal(&mut r),
            _ => *r.pick(&g7),
        }).collect();
        emit("MultiObjective::partial_cmp", format!("(mcmp {} {})", vs(&x), vs(&y)));
    }
    // triples: all over vectors of length <= 2 on a 4-value grid, plus random triples of the 7-grid vectors
    let g4: Vec<u64> = [-0.0f64, 0.0, 1.0, f64::INFINITY].iter().map(|x| x.to_bits()).collect();
    let v42 = vectors(&g4, 2);
    for x in &v42 { for y in &v42 { for z in &v42 {
        emit("MultiObjective::order3", format!("(mtrip {} {} {})", vs(x), vs(y), vs(z)));
    } } }
    for _ in 0..(if a.thorough { 100_000 } else { 10_000 }) {
        let x = r.pick(&v7).clone();
        // bias towards comparable triples: same length, perturb coordinates upwards
        let bump = |r: &mut Sm, v: &Vec<u64>| -> Vec<u64> {
            v.iter().map(|&b| if r.chance(1, 2) { b } else { *r.pick(&g7) }).collect()
        };
        let y = if r.chance(3, 4) { bump(&mut r, &x) } else { r.pick(&v7).clone() };
        let z = if r.chance(3, 4) { bump(&mut r, &y) } else { r.pick(&v7).clone() };
        emit("MultiObjective::order3", format!("(mtrip {} {} {})", vs(&x), vs(&y), vs(&z)));
    }
    out.finish();
}
