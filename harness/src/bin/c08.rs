//! C08 — same seed, same run. Runs every shipped template and generated configurations with the
//! sequential evaluator, then with the parallel evaluator under rayon pools of 1..16 threads with an
//! objective function that sleeps a pseudo-random 0–200 µs per call (perturbs completion order), on the
//! original and on a cloned configuration, repeatedly and in a fresh process, and prints a digest of
//! the final state of every run. Also: `par_experiment` vs. single runs, child generators, seed pairs,
//! user-supplied generators; direct `Sequential` / `Parallel` evaluator calls (and the `PopulationEvaluator`
//! component) on prepared populations of hundreds to thousands of individuals under pools of 1..16
//! threads, compared value by value, and templates with such populations (`big`).
use std::path::PathBuf;
use std::sync::atomic::{AtomicU64, Ordering};
use std::sync::Arc;
use std::time::Duration;

use hcommon::problems::{OneMax, Sphere, Tsp};
use hcommon::templates::*;
use hcommon::*;
use mahf::components::{boundary, initialization, mapping, mutation, recombination, replacement, selection};
use mahf::components::diversity::{
    DimensionWiseDiversity, DistanceToAveragePointDiversity, Diversity, DiversityMeasure, NormalizedDiversityLens, PairwiseDistanceDiversity, TrueDiversity,
};
use mahf::components::mutation::{MutationStrength, NormalMutation};
use mahf::components::utils::improvement::{StepsWithoutImprovement, StepsWithoutImprovementUpdate};
use mahf::conditions::{EveryN, LessThanN};
use mahf::heuristics::*;
use mahf::lens::common::{BestObjectiveValueLens, PopulationSizeLens, ValueOf};
use mahf::logging::Logger;
use mahf::problems::{
    KnownOptimumProblem, LimitedVectorProblem, ObjectiveFunction, Parallel, Sequential,
    TravellingSalespersonProblem, VectorProblem,
};
use mahf::state::common::{Evaluations, Iterations};
use mahf::{Configuration, ExecResult, Problem, Random, SingleObjective, SingleObjectiveProblem, State};
use better_any::TidAble;
use rand::{RngCore, SeedableRng};
use rand_chacha::{ChaCha12Rng, ChaCha20Rng, ChaCha8Rng};

// ------------------------------------------------------------------------------------------------
// wrapper problem: same problem, objective calls take a pseudo-random 0–200 µs

pub trait HP: HProblem + KnownOptimumProblem {
    /// Problem instance `i` of this kind (different instances have different dimensions / domains).
    fn instance(i: u32) -> Self;
}
impl HP for Sphere { fn instance(i: u32) -> Self { sphere_instance(i) } }
impl HP for OneMax { fn instance(i: u32) -> Self { onemax_instance(i) } }
impl HP for Tsp { fn instance(i: u32) -> Self { tsp_instance(i) } }

#[derive(Clone)]
pub struct J<P> {
    inner: P,
    jitter: Option<u64>,
    ctr: Arc<AtomicU64>,
    label: Option<String>,
}
impl<P> J<P> {
    fn new(inner: P, jitter: Option<u64>) -> Self { J { inner, jitter, ctr: Default::default(), label: None } }
    fn labelled(inner: P, jitter: Option<u64>, label: String) -> Self { J { inner, jitter, ctr: Default::default(), label: Some(label) } }
}
impl<P: HProblem> Problem for J<P> {
    type Encoding = P::Encoding;
    type Objective = SingleObjective;
    fn name(&self) -> &str { self.label.as_deref().unwrap_or(self.inner.name()) }
}
impl<P: HProblem> ObjectiveFunction for J<P> {
    fn objective(&self, s: &P::Encoding) -> SingleObjective {
        if let Some(js) = self.jitter {
            let k = self.ctr.fetch_add(1, Ordering::SeqCst);
            let h = Sm::new(js ^ k.wrapping_mul(0x9E3779B97F4A7C15)).next();
            std::thread::sleep(Duration::from_micros(h % 200));
        }
        self.inner.objective(s)
    }
}
impl<P: HProblem + VectorProblem> VectorProblem for J<P> {
    type Element = P::Element;
    fn dimension(&self) -> usize { self.inner.dimension() }
}
impl<P: HProblem + LimitedVectorProblem> LimitedVectorProblem for J<P> {
    fn domain(&self) -> Vec<std::ops::Range<P::Element>> { self.inner.domain() }
}
impl<P: HProblem + KnownOptimumProblem> KnownOptimumProblem for J<P> {
    fn known_optimum(&self) -> SingleObjective { self.inner.known_optimum() }
}
impl<P: HProblem + TravellingSalespersonProblem> TravellingSalespersonProblem for J<P> {
    fn distance(&self, edge: (usize, usize)) -> f64 { self.inner.distance(edge) }
}

/// Something that uses a template built for the *wrapped* problem type.
trait JUser {
    type Out;
    fn use_config<P: HP>(self, config: &Configuration<J<P>>, inner: P) -> Self::Out where P::Encoding: std::fmt::Debug;
}

/// Number of parameter points in the copy below.
const JV: u32 = 4;
/// The same grid as `hcommon::templates::with_template` (copied from it with the problem types
/// replaced), instantiated for `J<…>`. Whether a point still equals the shared table is checked per
/// case by comparing the serialised configurations (`same_as_shared`).
fn with_jtemplate<U: JUser>(name: &str, variant: u32, instance: u32, iters: u32, user: U) -> Result<U::Out, String> {
    let v = (variant % JV) as usize;
    type JS = J<Sphere>;
    type JO = J<OneMax>;
    type JT = J<Tsp>;
    macro_rules! go {
        ($inner:expr, $cfg:expr) => {{
            let inner = $inner;
            let cfg = $cfg.map_err(|e| format!("{e}"))?;
            Ok(user.use_config(&cfg, inner))
        }};
    }
    match name {
        "real_ga" => go!(sphere_instance(instance), ga::real_ga::<JS>(
            ga::RealProblemParameters {
                population_size: [6, 9, 5, 2][v], tournament_size: [2, 3, 4, 2][v], pm: [1.0, 0.5, 0.1, 0.0][v],
                deviation: [0.1, 1.0, 0.01, 0.5][v], pc: [0.8, 1.0, 0.0, 0.5][v],
            }, LessThanN::iterations(iters))),
        "binary_ga" => go!(onemax_instance(instance), ga::binary_ga::<JO>(
            ga::BinaryProblemParameters {
                population_size: [6, 9, 5, 2][v], tournament_size: [2, 3, 4, 1][v], rm: [0.1, 0.5, 1.0, 0.0][v],
                pc: [0.8, 1.0, 0.0, 0.5][v], pm: [1.0, 0.5, 0.0, 1.0][v],
            }, LessThanN::iterations(iters))),
        "real_es" => go!(sphere_instance(instance), es::real_mu_plus_lambda_es::<JS, ()>(
            es::RealProblemParameters { population_size: [3, 5, 1, 2][v], lambda: [6, 5, 1, 0][v], deviation: [0.1, 1.0, 0.01, 0.1][v] },
            LessThanN::iterations(iters))),
        "real_de" => go!(sphere_instance(instance), de::real_de::<JS>(
            de::RealProblemParameters { population_size: [6, 8, 10, 4][v], y: [1, 1, 2, 1][v], f: [0.5, 1.0, 0.2, 0.0][v], pc: [0.9, 0.5, 0.1, 1.0][v] },
            LessThanN::iterations(iters))),
        "real_pso" => go!(sphere_instance(instance), pso::real_pso::<JS>(
            pso::RealProblemParameters {
                num_particles: [4, 1, 7, 2][v], start_weight: [0.9, 0.5, 0.0, 1.0][v], end_weight: [0.4, 0.5, 1.0, 1.0][v],
                c_one: [1.7, 0.0, 2.0, 0.0][v], c_two: [1.7, 2.0, 0.0, 0.0][v], v_max: [1.0, 0.001, 10.0, 0.5][v],
            }, LessThanN::iterations(iters))),
        "real_sa" => go!(sphere_instance(instance), sa::real_sa::<JS>(
            sa::RealProblemParameters { t_0: [1.0, 100.0, 1e-3, 1e6][v], alpha: [0.9, 0.99, 0.5, 0.0][v], deviation: [0.1, 1.0, 0.01, 1e-6][v] },
            LessThanN::iterations(iters))),
        "permutation_sa" => go!(tsp_instance(instance), sa::permutation_sa::<JT>(
            sa::PermutationProblemParameters { t_0: [1.0, 100.0, 1e-3, 1e6][v], alpha: [0.9, 0.99, 0.5, 0.0][v], num_swap: [2, 3, 4, 5][v] },
            LessThanN::iterations(iters))),
        "real_ls" => go!(sphere_instance(instance), ls::real_ls::<JS>(
            ls::RealProblemParameters { n_neighbors: [3, 1, 6, 0][v], deviation: [0.1, 1.0, 0.01, 0.1][v] },
            LessThanN::iterations(iters))),
        "permutation_ls" => go!(tsp_instance(instance), ls::permutation_ls::<JT>(
            ls::PermutationProblemParameters { num_neighbors: [3, 1, 6, 0][v], num_swap: [2, 3, 4, 2][v] },
            LessThanN::iterations(iters))),
        "real_ils" => go!(sphere_instance(instance), ils::real_ils::<JS>(
            ils::RealProblemParameters {
                ls_params: ls::RealProblemParameters { n_neighbors: [3, 1, 6, 0][v], deviation: [0.1, 1.0, 0.01, 0.1][v] },
                ls_condition: LessThanN::iterations([2, 3, 1, 0][v]),
            }, LessThanN::iterations(iters))),
        "permutation_ils" => go!(tsp_instance(instance), ils::permutation_ils::<JT>(
            ils::PermutationProblemParameters {
                ls_params: ls::PermutationProblemParameters { num_neighbors: [3, 1, 6, 0][v], num_swap: [2, 3, 4, 2][v] },
                ls_condition: LessThanN::iterations([2, 3, 1, 0][v]),
            }, LessThanN::iterations(iters))),
        "real_rs" => go!(sphere_instance(instance), rs::real_rs::<JS>(LessThanN::iterations(iters))),
        "permutation_rs" => go!(tsp_instance(instance), rs::permutation_rs::<JT>(LessThanN::iterations(iters))),
        "real_rw" => go!(sphere_instance(instance), rw::real_rw::<JS>(
            rw::RealProblemParameters { deviation: [0.1, 1.0, 0.01, 1e-9][v] }, LessThanN::iterations(iters))),
        "permutation_rw" => go!(tsp_instance(instance), rw::permutation_random_walk::<JT>(
            rw::PermutationProblemParameters { num_swap: [2, 3, 4, 5][v] }, LessThanN::iterations(iters))),
        "real_iwo" => go!(sphere_instance(instance), iwo::real_iwo::<JS>(
            iwo::RealProblemParameters {
                initial_population_size: [3, 2, 4, 1][v], max_population_size: [6, 5, 4, 1][v],
                min_number_of_seeds: [0, 1, 2, 0][v], max_number_of_seeds: [3, 1, 5, 1][v],
                initial_deviation: [0.5, 1.0, 0.6, 0.2][v], final_deviation: [0.01, 0.1, 0.6, 0.0][v], modulation_index: [3, 1, 2, 1][v],
            }, LessThanN::iterations(iters))),
        "real_fa" => go!(sphere_instance(instance), fa::real_fa::<JS>(
            fa::RealProblemParameters { pop_size: [4, 6, 3, 1][v], alpha: [0.25, 0.5, 0.0, 0.0][v], beta: [1.0, 0.5, 0.2, 0.0][v], gamma: [0.01, 1.0, 0.1, 0.0][v], delta: [0.97, 0.9, 1.0, 0.5][v] },
            LessThanN::iterations(iters))),
        "real_bh" => go!(sphere_instance(instance), bh::real_bh::<JS>(
            bh::RealProblemParameters { num_particles: [4, 6, 2, 1][v] }, LessThanN::iterations(iters))),
        "real_cro" => go!(sphere_instance(instance), cro::real_cro::<JS>(
            cro::RealProblemParameters {
                initial_population_size: [4, 6, 3, 2][v], mole_coll: [0.2, 0.5, 0.8, 0.0][v], kinetic_energy_lr: [0.2, 0.5, 0.9, 0.0][v],
                alpha: [5, 2, 50, 0][v], beta: [0.1, 10.0, 1.0, 0.0][v], initial_kinetic_energy: [10.0, 100.0, 1.0, 0.0][v],
                buffer: [0.0, 10.0, 1.0, 0.0][v], on_wall_deviation: [0.1, 0.5, 0.01, 0.1][v], decomposition_deviation: [0.1, 0.5, 1.0, 0.1][v],
            }, LessThanN::iterations(iters))),
        "ant_system" => go!(tsp_instance(instance), aco::ant_system::<JT>(
            aco::ASParameters::verif_new([3, 5, 1, 1][v], [1.0, 0.0, 5.0, 0.0][v], [1.0, 5.0, 0.0, 0.0][v], [1.0, 0.5, 2.0, 1.0][v], [0.1, 0.9, 0.5, 0.0][v], [1.0, 10.0, 0.1, 1.0][v]),
            LessThanN::iterations(iters))),
        "max_min_ant_system" => go!(tsp_instance(instance), aco::max_min_ant_system::<JT>(
            aco::MMASParameters::verif_new([3, 5, 1, 1][v], [1.0, 0.0, 5.0, 0.0][v], [1.0, 5.0, 0.0, 0.0][v], [1.0, 0.5, 2.0, 1.0][v], [0.1, 0.9, 0.5, 1.0][v], [2.0, 5.0, 3.0, 1.0][v], [0.5, 0.1, 1.0, 0.5][v]),
            LessThanN::iterations(iters))),
        other => Err(format!("unknown template {other}")),
    }
}

/// Templates with a LARGE population (hundreds to thousands of individuals evaluated per step): the
/// parameters of grid point 0 with the population / offspring / neighbourhood size replaced by `size`.
fn with_big_template<U: JUser>(name: &str, size: u32, instance: u32, iters: u32, user: U) -> Result<U::Out, String> {
    type JS = J<Sphere>;
    type JO = J<OneMax>;
    type JT = J<Tsp>;
    macro_rules! go {
        ($inner:expr, $cfg:expr) => {{
            let inner = $inner;
            let cfg = $cfg.map_err(|e| format!("{e}"))?;
            Ok(user.use_config(&cfg, inner))
        }};
    }
    match name {
        "real_ga" => go!(sphere_instance(instance), ga::real_ga::<JS>(
            ga::RealProblemParameters { population_size: size, tournament_size: 2, pm: 1.0, deviation: 0.1, pc: 0.8 }, LessThanN::iterations(iters))),
        "binary_ga" => go!(onemax_instance(instance), ga::binary_ga::<JO>(
            ga::BinaryProblemParameters { population_size: size, tournament_size: 2, rm: 0.1, pc: 0.8, pm: 1.0 }, LessThanN::iterations(iters))),
        "real_es" => go!(sphere_instance(instance), es::real_mu_plus_lambda_es::<JS, ()>(
            es::RealProblemParameters { population_size: size / 3 + 1, lambda: size, deviation: 0.1 }, LessThanN::iterations(iters))),
        "real_de" => go!(sphere_instance(instance), de::real_de::<JS>(
            de::RealProblemParameters { population_size: size, y: 1, f: 0.5, pc: 0.9 }, LessThanN::iterations(iters))),
        "real_pso" => go!(sphere_instance(instance), pso::real_pso::<JS>(
            pso::RealProblemParameters { num_particles: size, start_weight: 0.9, end_weight: 0.4, c_one: 1.7, c_two: 1.7, v_max: 1.0 }, LessThanN::iterations(iters))),
        "real_bh" => go!(sphere_instance(instance), bh::real_bh::<JS>(
            bh::RealProblemParameters { num_particles: size }, LessThanN::iterations(iters))),
        "real_ls" => go!(sphere_instance(instance), ls::real_ls::<JS>(
            ls::RealProblemParameters { n_neighbors: size, deviation: 0.1 }, LessThanN::iterations(iters))),
        "permutation_ls" => go!(tsp_instance(instance), ls::permutation_ls::<JT>(
            ls::PermutationProblemParameters { num_neighbors: size, num_swap: 2 }, LessThanN::iterations(iters))),
        "real_iwo" => go!(sphere_instance(instance), iwo::real_iwo::<JS>(
            iwo::RealProblemParameters {
                initial_population_size: size / 2 + 1, max_population_size: size, min_number_of_seeds: 0, max_number_of_seeds: 3,
                initial_deviation: 0.5, final_deviation: 0.01, modulation_index: 3,
            }, LessThanN::iterations(iters))),
        "ant_system" => go!(tsp_instance(instance), aco::ant_system::<JT>(
            aco::ASParameters::verif_new(size as usize, 1.0, 1.0, 1.0, 0.1, 1.0), LessThanN::iterations(iters))),
        other => Err(format!("unknown big template {other}")),
    }
}
const BIG_TEMPLATES: [&str; 10] = ["real_ga", "real_es", "real_pso", "binary_ga", "real_de", "real_bh", "real_ls", "ant_system", "permutation_ls", "real_iwo"];

// ------------------------------------------------------------------------------------------------
// direct evaluator calls on prepared populations

/// `Σ xᵢ²` on small integer vectors (`MahfModel.Determinism.objF`); records which individual (tag =
/// first component) entered the objective function, in entry order, and how many workers took part.
pub struct EvalProbe { spin: u64, log: std::sync::Mutex<Vec<u64>> }
impl Problem for EvalProbe {
    type Encoding = Vec<f64>;
    type Objective = SingleObjective;
    fn name(&self) -> &str { "eval-probe" }
}
impl ObjectiveFunction for EvalProbe {
    fn objective(&self, s: &Vec<f64>) -> SingleObjective {
        let tag = s[0] as u64;
        self.log.lock().unwrap().push(tag);
        // a pseudo-random short busy wait so that workers interleave and steal
        let h = Sm::new(self.spin ^ tag.wrapping_mul(0x9E3779B97F4A7C15)).next();
        for _ in 0..(h % 300) { std::hint::spin_loop(); }
        SingleObjective::try_from(s.iter().map(|x| x * x).sum::<f64>()).unwrap()
    }
}
/// `MahfModel.Determinism.prepInd`
fn prep_ind(prep: u64, seed: u64, i: u64) -> mahf::Individual<EvalProbe> {
    let sol = vec![i as f64, ((seed + 7 * i) % 101) as f64];
    let f = |s: &Vec<f64>| SingleObjective::try_from(s.iter().map(|x| x * x).sum::<f64>()).unwrap();
    let stale = SingleObjective::try_from(7.0).unwrap();
    let obj = match prep {
        0 => None,
        1 => Some(stale),
        2 => if i % 3 == 0 { Some(stale) } else { None },
        3 => Some(f(&sol)),
        _ => if i % 2 == 0 { Some(f(&sol)) } else { None },
    };
    match obj { None => mahf::Individual::new_unevaluated(sol), Some(o) => mahf::Individual::new(sol, o) }
}
fn obj_atom(i: &mahf::Individual<EvalProbe>) -> String {
    match i.get_objective() {
        None => "-".into(),
        Some(o) => { let v = o.value(); if v >= 0.0 && v < 9.0e15 && v.fract() == 0.0 { (v as u64).to_string() } else { fx(v) } }
    }
}
/// One evaluator call → `(res (objs …) (sched …) (extra …))` or `panic`.
fn eval_once(entry: &str, n: u64, prep: u64, seed: u64, lo: u64, len: u64, pool: Option<&rayon::ThreadPool>) -> String {
    use mahf::problems::Evaluate;
    let problem = EvalProbe { spin: seed ^ (pool.map(|p| p.current_num_threads() as u64).unwrap_or(0) << 32), log: Default::default() };
    let mut pop: Vec<mahf::Individual<EvalProbe>> = (0..n).map(|i| prep_ind(prep, seed, i)).collect();
    let (lo, hi) = (lo as usize, (lo + len) as usize);
    let par = pool.is_some();
    let r = catch(|| -> Option<(Vec<String>, Vec<String>)> {
        match entry {
            "direct" => {
                // `Evaluate::evaluate(problem, state, &mut pop[lo..hi])` on a fresh state
                let mut state: State<EvalProbe> = State::new();
                let slice = &mut pop[lo..hi];
                match pool {
                    Some(p) => p.install(|| Parallel::<EvalProbe>::new().evaluate(&problem, &mut state, slice)),
                    None => Sequential::<EvalProbe>::new().evaluate(&problem, &mut state, slice),
                }
                Some((pop[lo..hi].iter().map(obj_atom).collect(), vec![]))
            }
            "component" => {
                // the `PopulationEvaluator` component, run by the public `Configuration::run` on a hand-built state
                // whose stack is [slice (top), three unevaluated individuals (below)]
                let config = Configuration::<EvalProbe>::builder().evaluate().build();
                let mut state: State<EvalProbe> = State::new();
                state.insert(mahf::logging::Log::new());
                state.insert(mahf::state::common::Populations::<EvalProbe>::new());
                state.insert(Random::new(seed));
                if par { state.insert_evaluator(Parallel::<EvalProbe>::new()) } else { state.insert_evaluator(Sequential::<EvalProbe>::new()) }
                let lower: Vec<mahf::Individual<EvalProbe>> = (0..3).map(|j| mahf::Individual::new_unevaluated(vec![(n + j) as f64, 0.0])).collect();
                state.populations_mut().push(lower);
                state.populations_mut().push(pop[lo..hi].to_vec());
                let ok = match pool {
                    Some(p) => p.install(|| config.run(&problem, &mut state)).is_ok(),
                    None => config.run(&problem, &mut state).is_ok(),
                };
                if !ok { return None; }
                let pops = state.populations();
                let objs = pops.peek(0).iter().map(obj_atom).collect();
                let below = if pops.len() > 1 { pops.peek(1).iter().filter(|i| i.is_evaluated()).count() } else { 0 };
                Some((objs, vec![state.get_value::<Evaluations>().to_string(), pops.len().to_string(), below.to_string()]))
            }
            other => panic!("unknown evaluate entry {other}"),
        }
    });
    match r {
        Some(Some((objs, extra))) => {
            let sched: Vec<String> = problem.log.lock().unwrap().iter().map(|t| t.checked_sub(lo as u64).unwrap_or(999_999_999).to_string()).collect();
            list(["res".into(), tagged("objs", objs), tagged("sched", sched), tagged("extra", extra)])
        }
        Some(None) => "err".into(),
        None => "panic".into(),
    }
}

// ------------------------------------------------------------------------------------------------
// digests

fn fnv(s: &str) -> String {
    let mut h: u64 = 0xcbf29ce484222325;
    for b in s.bytes() { h ^= b as u64; h = h.wrapping_mul(0x100000001b3); }
    format!("h{h:016x}")
}

/// Final populations (every stack level: solutions + objective bits), best individual, counters, log.
fn state_string<Q: SingleObjectiveProblem>(state: &State<Q>, enc: &dyn Fn(&Q::Encoding) -> String) -> String {
    let mut s = String::new();
    {
        let pops = state.populations();
        for d in 0..pops.len() {
            s.push('|');
            for i in pops.peek(d) {
                s.push_str(&enc(i.solution()));
                s.push(':');
                s.push_str(&i.get_objective().map(|o| fx(o.value())).unwrap_or("none".into()));
                s.push(' ');
            }
        }
    }
    s.push_str("|best:");
    match state.best_individual() {
        Some(bi) => { s.push_str(&enc(bi.solution())); s.push(':'); s.push_str(&bi.get_objective().map(|o| fx(o.value())).unwrap_or("none".into())); }
        None => s.push_str("none"),
    }
    s.push_str(&format!("|evals:{:?}|iters:{:?}", state.try_get_value::<Evaluations>().ok(), state.try_get_value::<Iterations>().ok()));
    // the generator's position: one more word from it (any extra or missing draw during the run shows here)
    s.push_str(&format!("|next-word:{}", state.random_mut().next_u64()));
    s.push_str("|log:");
    s.push_str(&serde_json::to_string(&*state.log()).unwrap_or("log-ser-err".into()));
    s
}

fn log_setup<Q: SingleObjectiveProblem>(state: &mut State<Q>) -> ExecResult<()> {
    state.configure_log(|c| {
        c.with(EveryN::iterations(1), BestObjectiveValueLens::<Q>::entry());
        c.with(EveryN::iterations(1), ValueOf::<Evaluations>::entry());
        c.with(EveryN::iterations(2), PopulationSizeLens::<Q>::entry());
        c.with(EveryN::iterations(1), ValueOf::<Iterations>::entry());
        Ok(())
    })
}

/// Identity of the generator the run really draws from, observed DURING the run (a log trigger reads
/// `state.random_mut().config()` every time the `Logger` executes) and exported with the log.
#[derive(Clone, Default, serde::Serialize, better_any::Tid, derive_more::Deref, derive_more::DerefMut)]
pub struct SeedMark(pub u64);
impl mahf::CustomState<'_> for SeedMark {}
#[derive(Clone, Default, serde::Serialize, better_any::Tid, derive_more::Deref, derive_more::DerefMut)]
pub struct BackendMark(pub u64);
impl mahf::CustomState<'_> for BackendMark {}
const UNOBSERVED: u64 = u64::MAX;
fn backend_code(name: &str) -> u64 {
    if name == std::any::type_name::<ChaCha12Rng>() { 0 }
    else if name == std::any::type_name::<ChaCha8Rng>() { 1 }
    else if name == std::any::type_name::<UserRng>() { 2 }
    else if name == std::any::type_name::<Ctr>() { 3 }
    else { 9 }
}
#[derive(Clone, serde::Serialize)]
struct ProbeRng;
impl<P: Problem> mahf::Condition<P> for ProbeRng {
    fn evaluate(&self, _p: &P, state: &mut State<P>) -> ExecResult<bool> {
        let (seed, code) = { let r = state.random_mut(); (r.config().seed, backend_code(r.config().name)) };
        state.set_value::<SeedMark>(seed);
        state.set_value::<BackendMark>(code);
        Ok(true)
    }
}
fn exp_setup<Q: SingleObjectiveProblem + ObjectiveFunction + Sync>(state: &mut State<Q>, par: bool) -> ExecResult<()> {
    state.insert(SeedMark(UNOBSERVED));
    state.insert(BackendMark(UNOBSERVED));
    if par { state.insert_evaluator(Parallel::<Q>::new()) } else { state.insert_evaluator(Sequential::<Q>::new()) }
    log_setup(state)?;
    state.configure_log(|c| { c.with_auto::<SeedMark>(Box::new(ProbeRng)); c.with_auto::<BackendMark>(Box::new(ProbeRng)); Ok(()) })
}
/// The value logged for custom state `T` in the first step of an exported (compressed CBOR) log.
fn mark_in_file<T>(p: &std::path::Path) -> Option<u64> {
    let bytes = std::fs::read(p).ok()?;
    let v: ciborium::Value = ciborium::de::from_reader(&bytes[..]).ok()?;
    let top = v.as_map()?;
    let get = |key: &str| top.iter().find(|(k, _)| k.as_text() == Some(key)).map(|(_, v)| v);
    let names = get("names")?.as_array()?;
    let key = names.iter().position(|n| n.as_text() == Some(std::any::type_name::<T>()))?;
    let first = get("entries")?.as_array()?.first()?.as_map()?;
    let val = first.iter().find(|(k, _)| k.as_integer().and_then(|i| u64::try_from(i).ok()) == Some(key as u64))?.1.clone();
    val.as_integer().and_then(|i| u64::try_from(i).ok())
}
fn seed_in_file(p: &std::path::Path) -> Option<u64> { mark_in_file::<SeedMark>(p).filter(|s| *s != UNOBSERVED) }
fn backend_in_file(p: &std::path::Path) -> Option<u64> { mark_in_file::<BackendMark>(p).filter(|s| *s != UNOBSERVED) }

/// Transparent backend: the stream of seed `s` is `s, s+1, s+2, …` (wrapping); `next_u32` is the low half
/// of the next word; `fill_bytes` writes the little-endian bytes of successive words. Same definition
/// as `MahfModel.Determinism.ctr`, so the model predicts `Random::with_rng::<Ctr>(s)` completely and
/// the first word shows which seed really reached the backend.
pub struct Ctr(u64);
impl RngCore for Ctr {
    fn next_u32(&mut self) -> u32 { self.next_u64() as u32 }
    fn next_u64(&mut self) -> u64 { let w = self.0; self.0 = self.0.wrapping_add(1); w }
    fn fill_bytes(&mut self, d: &mut [u8]) {
        for chunk in d.chunks_mut(8) { let w = self.next_u64().to_le_bytes(); let n = chunk.len(); chunk.copy_from_slice(&w[..n]); }
    }
    fn try_fill_bytes(&mut self, d: &mut [u8]) -> Result<(), rand::Error> { self.fill_bytes(d); Ok(()) }
}
impl SeedableRng for Ctr {
    type Seed = [u8; 8];
    fn from_seed(seed: Self::Seed) -> Self { Ctr(u64::from_le_bytes(seed)) }
    fn seed_from_u64(s: u64) -> Self { Ctr(s) }
}

/// The generator a user might supply: backend code (see `backend_code`) and seed.
fn make_rng(code: u64, seed: u64) -> Random {
    match code {
        0 => Random::new(seed),
        1 => Random::with_rng::<ChaCha8Rng>(seed),
        2 => Random::with_rng::<UserRng>(seed),
        3 => Random::with_rng::<Ctr>(seed),
        _ => Random::with_rng::<ChaCha20Rng>(seed),
    }
}

// draw scripts on `Random` and on the bare backend ----------------------------------------------------
#[derive(Clone, Copy)]
enum DrawOp { U64, U32, Fill(usize), Try(usize) }
fn parse_ops(items: &[Sx]) -> Vec<DrawOp> {
    items.iter().map(|o| match o.atom() {
        Some("u64") => DrawOp::U64,
        Some("u32") => DrawOp::U32,
        _ => { let (h, a) = o.head().unwrap(); let n = a[0].nat().unwrap() as usize; if h == "fill" { DrawOp::Fill(n) } else { DrawOp::Try(n) } }
    }).collect()
}
fn draw(r: &mut dyn RngCore, op: DrawOp) -> Vec<u64> {
    match op {
        DrawOp::U64 => vec![r.next_u64()],
        DrawOp::U32 => vec![r.next_u32() as u64],
        DrawOp::Fill(n) => { let mut b = vec![0u8; n]; r.fill_bytes(&mut b); b.into_iter().map(u64::from).collect() }
        DrawOp::Try(n) => { let mut b = vec![0u8; n]; if r.try_fill_bytes(&mut b).is_err() { return vec![999] } b.into_iter().map(u64::from).collect() }
    }
}
fn render_out(out: &[Vec<u64>]) -> String { tagged("out", out.iter().map(|v| nats(v.iter().copied()))) }
/// `Random` walked down `path` (child number i of the current generator, alternately through
/// `iter_children` and `IntoIterator for &mut Random`), then the script → seeds reported on the way
/// (`config().seed`: the witness), backend kept, outputs.
fn walk_random(root: Random, backend_name: &str, path: &[u64], ops: &[DrawOp], mixed: bool) -> (Vec<u64>, bool, Vec<Vec<u64>>) {
    let mut kept = root.config().name == backend_name;
    let mut seeds = vec![];
    let mut cur = root;
    for (lvl, &i) in path.iter().enumerate() {
        // child number i; `mixed`: reached through the different ways the Iterator interface offers (nth, skip, repeated next) —
        // the same child number of the same generator must be the same generator however the iterator is driven
        let n = i as usize;
        let mut it = if lvl % 2 == 0 { cur.iter_children() } else { (&mut cur).into_iter() };
        let child = match if mixed { (lvl / 2 + n) % 4 } else { 0 } {
            0 => it.take(n + 1).last().unwrap(),
            1 => it.nth(n).unwrap(),
            2 => it.skip(n).next().unwrap(),
            _ => { let mut c = it.next().unwrap(); for _ in 0..n { c = it.next().unwrap(); } c }
        };
        seeds.push(child.config().seed);
        kept &= child.config().name == backend_name;
        cur = child;
    }
    let out: Vec<Vec<u64>> = ops.iter().map(|&op| draw(&mut cur, op)).collect();
    (seeds, kept, out)
}
fn render_walk(w: &(Vec<u64>, bool, Vec<Vec<u64>>)) -> [String; 3] {
    [tagged("seeds", w.0.iter().map(|s| s.to_string())), list(["kept".into(), b(w.1)]), render_out(&w.2)]
}
/// Reference: the draw script on the bare backend seeded through rand's own `SeedableRng::seed_from_u64`
/// with the seed the descendant reports (the root's seed for the empty path).
fn ref_backend<B: RngCore + SeedableRng>(seed: u64, ops: &[DrawOp]) -> Vec<Vec<u64>> {
    let mut cur = B::seed_from_u64(seed);
    ops.iter().map(|&op| draw(&mut cur, op)).collect()
}
fn stream_case<B: RngCore + SeedableRng + Send + 'static>(via_new: bool, seed: u64, path: &[u64], ops: &[DrawOp]) -> String {
    let mk = || if via_new { Random::new(seed) } else { Random::with_rng::<B>(seed) };
    let name = std::any::type_name::<B>();
    let r = catch(|| {
        let a = walk_random(mk(), name, path, ops, true);
        let a2 = walk_random(mk(), name, path, ops, false);
        let last = a.0.last().copied().unwrap_or(seed);
        let rf = ref_backend::<B>(last, ops);
        let rs = a.0.clone();
        (a, a2, rf, rs)
    });
    match r {
        Some((a, a2, rf, rs)) => list(["stream".into(), tagged("impl", render_walk(&a)), tagged("again", render_walk(&a2)),
            tagged("ref", [tagged("seeds", rs.iter().map(|s| s.to_string())), render_out(&rf)])]),
        None => "(stream panic panic (ref (seeds) (out)))".into(),
    }
}

/// Counting wrapper around the default generator: same stream as `Random::new(seed)`.
static USER_DRAWS: AtomicU64 = AtomicU64::new(0);
struct UserRng(ChaCha12Rng);
impl RngCore for UserRng {
    fn next_u32(&mut self) -> u32 { USER_DRAWS.fetch_add(1, Ordering::SeqCst); self.0.next_u32() }
    fn next_u64(&mut self) -> u64 { USER_DRAWS.fetch_add(1, Ordering::SeqCst); self.0.next_u64() }
    fn fill_bytes(&mut self, d: &mut [u8]) { USER_DRAWS.fetch_add(1, Ordering::SeqCst); self.0.fill_bytes(d) }
    fn try_fill_bytes(&mut self, d: &mut [u8]) -> Result<(), rand::Error> { USER_DRAWS.fetch_add(1, Ordering::SeqCst); self.0.try_fill_bytes(d) }
}
impl SeedableRng for UserRng {
    type Seed = <ChaCha12Rng as SeedableRng>::Seed;
    fn from_seed(seed: Self::Seed) -> Self { UserRng(ChaCha12Rng::from_seed(seed)) }
    fn seed_from_u64(s: u64) -> Self { UserRng(ChaCha12Rng::seed_from_u64(s)) }
}

#[derive(Clone, Copy, PartialEq)]
enum Gen { Seeded, User }

/// One run → digest (or `err` / `panic`).
fn run_digest<Q>(config: &Configuration<Q>, problem: &Q, seed: u64, par: bool, gen: Gen, enc: &dyn Fn(&Q::Encoding) -> String) -> String
where
    Q: SingleObjectiveProblem + ObjectiveFunction + Sync,
{
    let before = USER_DRAWS.load(Ordering::SeqCst);
    let r = catch(|| {
        config.optimize_with(problem, |state: &mut State<Q>| {
            match gen {
                Gen::Seeded => { state.insert(Random::new(seed)); }
                Gen::User => { state.insert(Random::with_rng::<UserRng>(seed)); }
            }
            if par { state.insert_evaluator(Parallel::<Q>::new()) } else { state.insert_evaluator(Sequential::<Q>::new()) }
            log_setup(state)
        })
    });
    match r {
        None => "panic".into(),
        Some(Err(_)) => "err".into(),
        Some(Ok(state)) => {
            if gen == Gen::User {
                // the generator in the final state must be the object the user supplied, and it must have been drawn from
                let (name_ok, seed_ok) = { let rnd = state.random_mut(); (rnd.config().name == std::any::type_name::<UserRng>(), rnd.config().seed == seed) };
                let drew = USER_DRAWS.load(Ordering::SeqCst) > before;
                if !(name_ok && seed_ok && drew) { return "rng-replaced".into(); }
            }
            fnv(&state_string(&state, enc))
        }
    }
}

/// A generator of backend `code` seeded `seed` from which the user has already drawn `k` words.
fn advanced_rng(code: u64, seed: u64, k: u64) -> Random {
    let mut r = make_rng(code, seed);
    for _ in 0..k { r.next_u64(); }
    r
}
/// One run with the generator `mk()` supplied by the user, either through `optimize_with` or through
/// the public `Configuration::run` on a hand-built state (Log, Populations, generator, evaluator).
fn run_digest_supplied<Q>(config: &Configuration<Q>, problem: &Q, mk: &dyn Fn() -> Random, par: bool, handbuilt: bool, enc: &dyn Fn(&Q::Encoding) -> String) -> String
where
    Q: SingleObjectiveProblem + ObjectiveFunction + Sync,
{
    let want = { let g = mk(); (g.config().name, g.config().seed) };
    let r = catch(|| -> ExecResult<State<Q>> {
        let init = |state: &mut State<Q>| -> ExecResult<()> {
            state.insert(mk());
            if par { state.insert_evaluator(Parallel::<Q>::new()) } else { state.insert_evaluator(Sequential::<Q>::new()) }
            log_setup(state)
        };
        if handbuilt {
            let mut state = State::new();
            state.insert(mahf::logging::Log::new());
            state.insert(mahf::state::common::Populations::<Q>::new());
            init(&mut state)?;
            config.run(problem, &mut state)?;
            Ok(state)
        } else {
            config.optimize_with(problem, init)
        }
    });
    match r {
        None => "panic".into(),
        Some(Err(_)) => "err".into(),
        Some(Ok(state)) => {
            let got = { let rnd = state.random_mut(); (rnd.config().name, rnd.config().seed) };
            if got != want { return "rng-replaced".into(); }
            fnv(&state_string(&state, enc))
        }
    }
}

fn pools() -> Vec<(usize, rayon::ThreadPool)> {
    [1usize, 2, 3, 4, 7, 8, 16].iter().map(|&n| (n, rayon::ThreadPoolBuilder::new().num_threads(n).build().expect("pool"))).collect()
}

struct Ctx<'a> { pools: &'a [(usize, rayon::ThreadPool)], seed: u64, jseed: u64 }

/// All the runs of one configuration on the wrapped problem → `(tag digest)` entries.
fn all_runs<P: HP>(config: &Configuration<J<P>>, inner: &P, cx: &Ctx) -> Vec<String> {
    let enc = |s: &P::Encoding| P::enc(s);
    let plain = J::new(inner.clone(), None);
    let mut out = vec![];
    out.push(list(["seq".into(), run_digest(config, &plain, cx.seed, false, Gen::Seeded, &enc)]));
    out.push(list(["seq-again".into(), run_digest(config, &plain, cx.seed, false, Gen::Seeded, &enc)]));
    let cloned = config.clone();
    out.push(list(["clone-seq".into(), run_digest(&cloned, &J::new(inner.clone(), None), cx.seed, false, Gen::Seeded, &enc)]));
    // the public `Configuration::run` on a hand-built state holding the same generator
    let seed = cx.seed;
    out.push(list(["handbuilt-run".into(), run_digest_supplied(config, &plain, &|| Random::new(seed), false, true, &enc)]));
    for (k, (n, pool)) in cx.pools.iter().enumerate() {
        let jp = J::new(inner.clone(), Some(cx.jseed.wrapping_add(k as u64)));
        let cfg = if k % 2 == 0 { config } else { &cloned };
        let d = pool.install(|| run_digest(cfg, &jp, cx.seed, true, Gen::Seeded, &enc));
        out.push(list([format!("par{n}"), d]));
    }
    // the SEQUENTIAL evaluator inside pools of 2, 3, 8 threads (original / cloned configuration): whatever a
    // component does with the ambient rayon pool on its own, the evaluator plays no part in it
    for (k, (n, pool)) in cx.pools.iter().enumerate() {
        if ![2usize, 3, 8].contains(n) { continue; }
        let cfg = if k % 2 == 0 { &cloned } else { config };
        let d = pool.install(|| run_digest(cfg, &plain, cx.seed, false, Gen::Seeded, &enc));
        out.push(list([format!("seq-in-pool{n}"), d]));
    }
    // once more under the 4-thread pool with other delays, and sequential evaluation with delays
    let jp = J::new(inner.clone(), Some(cx.jseed ^ 0xabcdef));
    let d = cx.pools[3].1.install(|| run_digest(config, &jp, cx.seed, true, Gen::Seeded, &enc));
    out.push(list(["par4-again".into(), d]));
    out
}

/// The SAME configuration object on two problems with different domains one after the other, and a
/// clone made AFTER the first use — each compared with a fresh configuration on that problem.
/// `fresh` builds a new configuration (same template, same parameters).
fn reuse_runs<P: HP>(used: &Configuration<J<P>>, fresh: &Configuration<J<P>>, ia: u32, ib: u32, seed: u64, pool: &rayon::ThreadPool) -> Vec<String> {
    let enc = |s: &P::Encoding| P::enc(s);
    let (pa, pb) = (J::new(P::instance(ia), None), J::new(P::instance(ib), None));
    let mut out = vec![];
    // reference: pristine configuration on B
    out.push(list(["fresh-on-B".into(), run_digest(fresh, &pb, seed, false, Gen::Seeded, &enc)]));
    // first use on A (result not compared here), then the same object on B
    let first = run_digest(used, &pa, seed, false, Gen::Seeded, &enc);
    out.push(list(["used-on-A-then-B".into(), run_digest(used, &pb, seed, false, Gen::Seeded, &enc)]));
    let cl = used.clone();
    out.push(list(["clone-after-use-on-B".into(), run_digest(&cl, &pb, seed, false, Gen::Seeded, &enc)]));
    let jb = J::new(P::instance(ib), Some(seed ^ 0x99));
    out.push(list(["used-par-on-B".into(), pool.install(|| run_digest(used, &jb, seed, true, Gen::Seeded, &enc))]));
    // and back on A: must equal the first use
    let again = run_digest(used, &pa, seed, false, Gen::Seeded, &enc);
    if again != first { out.push(list(["A-after-B-differs-from-first-A".into(), again])); }
    out
}
struct Reuse<'a> { name: String, v: u32, iters: u32, ia: u32, ib: u32, seed: u64, pool: &'a rayon::ThreadPool }
impl<'a> JUser for Reuse<'a> {
    type Out = Vec<String>;
    fn use_config<P: HP>(self, config: &Configuration<J<P>>, _inner: P) -> Vec<String> where P::Encoding: std::fmt::Debug {
        // a second, pristine configuration of the same template
        struct Fresh<'a, 'b, Q: HP> { used: &'b Configuration<J<Q>>, r: &'b Reuse<'a> }
        impl<'a, 'b, Q: HP> JUser for Fresh<'a, 'b, Q> {
            type Out = Vec<String>;
            fn use_config<P2: HP>(self, fresh: &Configuration<J<P2>>, _inner: P2) -> Vec<String> where P2::Encoding: std::fmt::Debug {
                // P2 and Q are the same type (same template name); go through `Any` to say so
                let fresh_any: &dyn std::any::Any = fresh;
                match fresh_any.downcast_ref::<Configuration<J<Q>>>() {
                    Some(f) => reuse_runs::<Q>(self.used, f, self.r.ia, self.r.ib, self.r.seed, self.r.pool),
                    None => vec![list(["fresh-on-B".into(), "type-mismatch".into()])],
                }
            }
        }
        with_jtemplate(&self.name, self.v, self.ia, self.iters, Fresh { used: config, r: &self }).unwrap_or(vec![list(["fresh-on-B".into(), "ctor-err".into()])])
    }
}

struct RunAll<'a> { cx: Ctx<'a> }
impl<'a> JUser for RunAll<'a> {
    type Out = Vec<String>;
    fn use_config<P: HP>(self, config: &Configuration<J<P>>, inner: P) -> Vec<String> where P::Encoding: std::fmt::Debug { all_runs(config, &inner, &self.cx) }
}
/// The unwrapped problem type through the shared template table: the wrapper must be transparent.
struct PlainSeq { seed: u64 }
impl ConfigUser for PlainSeq {
    type Out = String;
    fn use_config<P: HProblem>(self, config: &Configuration<P>, problem: &P) -> String {
        let enc = |s: &P::Encoding| P::enc(s);
        run_digest(config, problem, self.seed, false, Gen::Seeded, &enc)
    }
}
/// Serialised configuration (problem wrapper type names normalised away), to detect drift between
/// the copied template table above and the shared one.
fn norm_ser(s: String) -> String { s.replace("c08::J<", "").replace('>', "") }
struct SerJ;
impl JUser for SerJ {
    type Out = String;
    fn use_config<P: HP>(self, config: &Configuration<J<P>>, _inner: P) -> String where P::Encoding: std::fmt::Debug {
        norm_ser(serde_json::to_string(config.heuristic()).unwrap_or("ser-err-j".into()))
    }
}
struct SerPlain;
impl ConfigUser for SerPlain {
    type Out = String;
    fn use_config<P: HProblem>(self, config: &Configuration<P>, _problem: &P) -> String {
        norm_ser(serde_json::to_string(config.heuristic()).unwrap_or("ser-err-p".into()))
    }
}
fn same_as_shared(name: &str, v: u32, inst: u32, iters: u32) -> bool {
    match (with_jtemplate(name, v, inst, iters, SerJ), with_template(name, v, inst, iters, SerPlain)) {
        (Ok(a), Ok(b)) => a == b,
        _ => false,
    }
}
struct SeqOnly { seed: u64, gen: Gen, par: bool }
impl JUser for SeqOnly {
    type Out = String;
    fn use_config<P: HP>(self, config: &Configuration<J<P>>, inner: P) -> String where P::Encoding: std::fmt::Debug {
        let enc = |s: &P::Encoding| P::enc(s);
        run_digest(config, &J::new(inner, if self.par { Some(self.seed) } else { None }), self.seed, self.par, self.gen, &enc)
    }
}

/// A user generator that was already drawn from (`k` words) when handed over: hand-built state +
/// `Configuration::run`, `optimize_with` (twice), `optimize_with` + parallel evaluation.
struct AdvRuns<'a> { seed: u64, k: u64, code: u64, pool: &'a rayon::ThreadPool }
impl<'a> JUser for AdvRuns<'a> {
    type Out = Vec<String>;
    fn use_config<P: HP>(self, config: &Configuration<J<P>>, inner: P) -> Vec<String> where P::Encoding: std::fmt::Debug {
        let enc = |s: &P::Encoding| P::enc(s);
        let (seed, k, code) = (self.seed, self.k, self.code);
        let mk = move || advanced_rng(code, seed, k);
        let plain = J::new(inner.clone(), None);
        let jp = J::new(inner, Some(seed ^ 0x51));
        vec![
            list(["handbuilt-run".into(), run_digest_supplied(config, &plain, &mk, false, true, &enc)]),
            list(["optimize-with".into(), run_digest_supplied(config, &plain, &mk, false, false, &enc)]),
            list(["optimize-with-again".into(), run_digest_supplied(&config.clone(), &plain, &mk, false, false, &enc)]),
            list(["optimize-with-parallel".into(), self.pool.install(|| run_digest_supplied(config, &jp, &mk, true, false, &enc))]),
        ]
    }
}

// generated configurations on J<Sphere> -------------------------------------------------------------
type JS = J<Sphere>;
fn gen_config(spec: &[Sx]) -> Configuration<JS> {
    // (n iters sel mut rec repl twolog)
    let n = spec[0].nat().unwrap() as u32;
    let iters = spec[1].nat().unwrap() as u32;
    let (sel, mutk, rec, repl) = (spec[2].nat().unwrap(), spec[3].nat().unwrap(), spec[4].nat().unwrap(), spec[5].nat().unwrap());
    Configuration::<JS>::builder()
        .do_(initialization::RandomSpread::new(n))
        .evaluate()
        .update_best_individual()
        .while_(LessThanN::iterations(iters), |b| {
            let b = b.do_(match sel {
                0 => selection::Tournament::new(n, 2),
                1 => selection::FullyRandom::new(n),
                2 => selection::RouletteWheel::new(n, 0.5),
                _ => selection::LinearRank::new(n),
            });
            let b = match rec {
                0 => b,
                1 => b.do_(recombination::UniformCrossover::new_insert_both(0.8)),
                _ => b.do_(recombination::ArithmeticCrossover::new_insert_both(1.0)),
            };
            let b = b.do_(match mutk {
                0 => mutation::NormalMutation::new(0.1, 1.0),
                1 => mutation::UniformMutation::new(0.5, 0.5),
                _ => mutation::NormalMutation::new(1.0, 0.3),
            });
            b.evaluate()
                .update_best_individual()
                .do_(match repl {
                    0 => replacement::MuPlusLambda::new(n),
                    1 => replacement::Generational::new(n),
                    _ => replacement::RandomReplacement::new(n),
                })
                .do_(Logger::new())
        })
        .build()
}


// measure components (diversity, improvement) --------------------------------------------------------
const MEASURES: [&str; 4] = ["DimensionWiseDiversity", "PairwiseDistanceDiversity", "TrueDiversity", "DistanceToAveragePointDiversity"];
fn measure_index(name: &str) -> usize { MEASURES.iter().position(|m| *m == name).unwrap_or_else(|| panic!("unknown measure {name}")) }

/// `MahfModel.DeterminismMeasure.prepCoord`: coordinate `k` of solution `i` — sevenths, so that nearly every
/// value has a full mantissa and sums round differently under different association.
fn prep_coord(seed: u64, i: u64, k: u64) -> f64 { ((seed + 31 * i + 17 * k + 7 * i * k) % 1009) as f64 / 7.0 - 70.0 }
fn prep_solutions(n: u64, d: u64, seed: u64) -> Vec<Vec<f64>> { (0..n).map(|i| (0..d).map(|k| prep_coord(seed, i, k)).collect()).collect() }

/// The public `DiversityMeasure::measure` on prepared solutions → bits of the value.
fn measure_direct(m: usize, d: u64, sols: &[Vec<f64>]) -> String {
    let problem = Sphere::new(d as usize, -100.0, 100.0, 0.0);
    let refs: Vec<&Vec<f64>> = sols.iter().collect();
    match catch(|| match m {
        0 => DimensionWiseDiversity::from_params().measure(&problem, &refs),
        1 => PairwiseDistanceDiversity::from_params().measure(&problem, &refs),
        2 => TrueDiversity::from_params().measure(&problem, &refs),
        _ => DistanceToAveragePointDiversity::from_params().measure(&problem, &refs),
    }) { Some(v) => fx(v), None => "panic".into() }
}
/// The measure as a component: `Configuration::run` on a hand-built state whose current population are the
/// prepared solutions → bits of `Diversity<M>::max_diversity` (= the measured value of the single execution)
/// and of the normalised value.
fn measure_component(m: usize, d: u64, sols: &[Vec<f64>]) -> String {
    type S = Sphere;
    let problem = Sphere::new(d as usize, -100.0, 100.0, 0.0);
    fn go<M: mahf::component::AnyComponent + 'static>(comp: Box<dyn mahf::Component<S>>, problem: &S, sols: &[Vec<f64>]) -> Option<String> {
        let config = Configuration::<S>::builder().do_(comp).build();
        let mut state: State<S> = State::new();
        state.insert(mahf::logging::Log::new());
        state.insert(mahf::state::common::Populations::<S>::new());
        state.insert(Random::new(0));
        state.insert_evaluator(Sequential::<S>::new());
        state.populations_mut().push(sols.iter().map(|s| mahf::Individual::new_unevaluated(s.clone())).collect());
        config.run(problem, &mut state).ok()?;
        let dv = state.borrow::<Diversity<M>>();
        Some(format!("{}/{}", fx(dv.max_diversity), fx(dv.diversity)))
    }
    match catch(|| match m {
        0 => go::<DimensionWiseDiversity>(DimensionWiseDiversity::new(), &problem, sols),
        1 => go::<PairwiseDistanceDiversity>(PairwiseDistanceDiversity::new(), &problem, sols),
        2 => go::<TrueDiversity>(TrueDiversity::new(), &problem, sols),
        _ => go::<DistanceToAveragePointDiversity>(DistanceToAveragePointDiversity::new(), &problem, sols),
    }) { Some(Some(v)) => v, Some(None) => "err".into(), None => "panic".into() }
}

/// A generated configuration on J<Sphere> in which measured values are logged and steer the search:
/// `(n iters mask fb map)` — `mask`: which of the four diversity measures run in the loop; `fb`: the measure
/// whose normalised value is mapped (`map` 0 = `mapping::Linear`, 1 = `mapping::Polynomial`) onto the
/// `MutationStrength` of the `NormalMutation` that follows (4 = no feedback); `StepsWithoutImprovementUpdate`
/// runs in every pass.
fn measure_config(n: u32, iters: u32, mask: u64, fb: u64, map: u64) -> Configuration<JS> {
    type MS = MutationStrength<NormalMutation>;
    Configuration::<JS>::builder()
        .do_(initialization::RandomSpread::new(n))
        .evaluate()
        .update_best_individual()
        .while_(LessThanN::iterations(iters), |b| {
            let b = if mask & 1 != 0 { b.do_(DimensionWiseDiversity::new()) } else { b };
            let b = if mask & 2 != 0 { b.do_(PairwiseDistanceDiversity::new()) } else { b };
            let b = if mask & 4 != 0 { b.do_(TrueDiversity::new()) } else { b };
            let b = if mask & 8 != 0 { b.do_(DistanceToAveragePointDiversity::new()) } else { b };
            macro_rules! feed {
                ($m:ty) => {
                    if map == 0 { b.do_(mapping::Linear::new(0.05, 0.5, NormalizedDiversityLens::<$m>::new(), ValueOf::<MS>::new())) }
                    else { b.do_(mapping::Polynomial::new(0.02, 0.8, 2.0, NormalizedDiversityLens::<$m>::new(), ValueOf::<MS>::new())) }
                };
            }
            let b = match fb {
                0 => feed!(DimensionWiseDiversity),
                1 => feed!(PairwiseDistanceDiversity),
                2 => feed!(TrueDiversity),
                3 => feed!(DistanceToAveragePointDiversity),
                _ => b,
            };
            b.do_(NormalMutation::new(0.1, 1.0))
                .do_(boundary::Saturation::new())
                .evaluate()
                .update_best_individual()
                .do_(StepsWithoutImprovementUpdate::new())
                .do_(Logger::new())
        })
        .build()
}
/// One run of a measure configuration → digest of populations, best, counters, generator position, log
/// (with the measured values, the steps without improvement and the mutation strength in every pass) and the
/// final `Diversity<M>` states.
fn measure_run_digest(config: &Configuration<JS>, problem: &JS, seed: u64, par: bool, mask: u64) -> String {
    type MS = MutationStrength<NormalMutation>;
    let r = catch(|| {
        config.optimize_with(problem, |state: &mut State<JS>| {
            state.insert(Random::new(seed));
            if par { state.insert_evaluator(Parallel::<JS>::new()) } else { state.insert_evaluator(Sequential::<JS>::new()) }
            log_setup(state)?;
            state.configure_log(|c| {
                if mask & 1 != 0 { c.with(EveryN::iterations(1), NormalizedDiversityLens::<DimensionWiseDiversity>::entry()); }
                if mask & 2 != 0 { c.with(EveryN::iterations(1), NormalizedDiversityLens::<PairwiseDistanceDiversity>::entry()); }
                if mask & 4 != 0 { c.with(EveryN::iterations(1), NormalizedDiversityLens::<TrueDiversity>::entry()); }
                if mask & 8 != 0 { c.with(EveryN::iterations(1), NormalizedDiversityLens::<DistanceToAveragePointDiversity>::entry()); }
                c.with(EveryN::iterations(1), ValueOf::<StepsWithoutImprovement>::entry());
                c.with(EveryN::iterations(1), ValueOf::<MS>::entry());
                Ok(())
            })
        })
    });
    match r {
        None => "panic".into(),
        Some(Err(_)) => "err".into(),
        Some(Ok(state)) => {
            let enc = |s: &Vec<f64>| Sphere::enc(s);
            let mut s = state_string(&state, &enc);
            macro_rules! dv { ($bit:expr, $m:ty) => { if mask & $bit != 0 { let d = state.borrow::<Diversity<$m>>(); s.push_str(&format!("|div:{}/{}", fx(d.diversity), fx(d.max_diversity))); } }; }
            dv!(1, DimensionWiseDiversity); dv!(2, PairwiseDistanceDiversity); dv!(4, TrueDiversity); dv!(8, DistanceToAveragePointDiversity);
            s.push_str(&format!("|swi:{:?}|strength:{:?}", state.try_get_value::<StepsWithoutImprovement>().ok(), state.try_get_value::<MS>().ok().map(fx)));
            fnv(&s)
        }
    }
}
/// The runs of one measure configuration: reference = plain call from the main thread with the sequential
/// evaluator; then under every pool the sequential AND the parallel evaluator, original / cloned configuration.
fn measure_runs(config: &Configuration<JS>, inner: &Sphere, seed: u64, mask: u64, pools: &[(usize, rayon::ThreadPool)]) -> Vec<String> {
    let plain = J::new(inner.clone(), None);
    let mut out = vec![list(["seq".into(), measure_run_digest(config, &plain, seed, false, mask)])];
    out.push(list(["seq-again".into(), measure_run_digest(config, &plain, seed, false, mask)]));
    let cloned = config.clone();
    for (k, (n, pool)) in pools.iter().enumerate() {
        let cfg = if k % 2 == 0 { config } else { &cloned };
        out.push(list([format!("seq-in-pool{n}"), pool.install(|| measure_run_digest(cfg, &plain, seed, false, mask))]));
        let jp = J::new(inner.clone(), if k == 3 { Some(seed ^ 0x3e) } else { None });
        out.push(list([format!("par{n}"), pool.install(|| measure_run_digest(cfg, &jp, seed, true, mask))]));
    }
    out
}

// par_experiment ------------------------------------------------------------------------------------
fn canon_cbor(v: &ciborium::Value) -> String {
    use ciborium::Value as C;
    match v {
        C::Null => "null".into(),
        C::Bool(b) => b.to_string(),
        C::Integer(i) => i128::from(*i).to_string(),
        C::Float(f) => fx(*f),
        C::Text(s) => format!("s:{s}"),
        C::Array(a) => tagged("a", a.iter().map(canon_cbor)),
        C::Map(m) => {
            let mut kv: Vec<(String, String)> = m.iter().map(|(k, v)| (canon_cbor(k), canon_cbor(v))).collect();
            kv.sort();
            tagged("m", kv.into_iter().map(|(k, v)| list([k, v])))
        }
        _ => "other".into(),
    }
}
fn cbor_file_canon(p: &std::path::Path) -> String {
    match std::fs::read(p) {
        Err(_) => "missing".into(),
        Ok(bytes) => match ciborium::de::from_reader::<ciborium::Value, _>(&bytes[..]) {
            Ok(v) => canon_cbor(&v),
            Err(_) => "malformed".into(),
        },
    }
}
fn tmp_root() -> PathBuf { PathBuf::from("/verif/harness/target/tmp") }

/// Child process: runs the real `par_experiment` on `nprob` problems (different instances, labelled
/// p0, p1, …) inside a pool of `pool` threads, writing under `dir`.
struct ExpChild { runs: u64, pool: usize, nprob: u32, dir: PathBuf, user: Option<(u64, u64)> }
impl JUser for ExpChild {
    type Out = bool;
    fn use_config<P: HP>(self, config: &Configuration<J<P>>, _inner: P) -> bool where P::Encoding: std::fmt::Debug {
        let problems: Vec<J<P>> = (0..self.nprob).map(|i| J::labelled(P::instance(i), Some(0x5eed + i as u64), format!("p{i}"))).collect();
        let tp = rayon::ThreadPoolBuilder::new().num_threads(self.pool).build().expect("pool");
        let (runs, dir, user) = (self.runs, self.dir.clone(), self.user);
        let r = catch(|| tp.install(|| {
            mahf::experiments::par_experiment(config, |state: &mut State<J<P>>| {
                // a `setup` that supplies its own generator (own backend, own seed)
                if let Some((code, useed)) = user { state.insert(make_rng(code, useed)); }
                exp_setup(state, true)
            }, &problems, runs, &dir, true)
        }));
        matches!(r, Some(Ok(())))
    }
}
/// Parent: for every (problem, run) the single-run reference seeded with the run number, exported
/// through the same `to_cbor`; the experiment's files; the seeds observed inside the experiment's jobs.
struct ExpRef { runs: u64, nprob: u32, dir: PathBuf, user: Option<(u64, u64)> }
impl JUser for ExpRef {
    type Out = (String, String, Vec<String>);
    fn use_config<P: HP>(self, config: &Configuration<J<P>>, _inner: P) -> (String, String, Vec<String>) where P::Encoding: std::fmt::Debug {
        let (mut single, mut files, mut seeds) = (String::new(), String::new(), vec![]);
        for pi in 0..self.nprob {
            let problem = J::labelled(P::instance(pi), None, format!("p{pi}"));
            for run in 0..self.runs {
                let r = catch(|| config.optimize_with(&problem, |state: &mut State<J<P>>| {
                    state.insert(match self.user { None => Random::new(run), Some((code, useed)) => make_rng(code, useed) });
                    exp_setup(state, false)
                }));
                let one = match r {
                    Some(Ok(state)) => {
                        let p = self.dir.join(format!("ref_{pi}_{run}.cbor"));
                        match state.log().to_cbor(&p) { Ok(()) => cbor_file_canon(&p), Err(_) => "write-err".into() }
                    }
                    Some(Err(_)) => "err".into(),
                    None => "panic".into(),
                };
                single.push_str(&one);
                single.push('\n');
                let f = self.dir.join(format!("{}_{run}.cbor", problem.name()));
                files.push_str(&cbor_file_canon(&f));
                files.push('\n');
                let seen = seed_in_file(&f).map(|s| s.to_string()).unwrap_or("unobserved".into());
                if self.user.is_some() {
                    seeds.push(list([pi.to_string(), run.to_string(), backend_in_file(&f).map(|s| s.to_string()).unwrap_or("unobserved".into()), seen]));
                } else {
                    seeds.push(list([pi.to_string(), run.to_string(), seen]));
                }
            }
        }
        (fnv(&single), fnv(&files), seeds)
    }
}

// ------------------------------------------------------------------------------------------------

/// Seeds at which an implementation is most likely to special-case.
const BOUNDARY_SEEDS: [u64; 20] = [
    0, 1, 2, u64::MAX, u64::MAX - 1, 0xFFFF_FFFF, 0x1_0000_0000, 0x1_0000_0001, 1 << 63, (1 << 63) - 1, (1 << 63) + 1,
    42, 0xDEAD_BEEF, 0x9E37_79B9_7F4A_7C15, 0x5DEE_CE66D, 0x6A09_E667_F3BC_C908, 255, 256, 65_535, 65_536,
];

fn first_words(r: &mut Random, n: usize) -> Vec<u64> { (0..n).map(|_| r.next_u64()).collect() }

fn run_case(input: &Sx, pools: &[(usize, rayon::ThreadPool)]) -> String {
    let (h, a) = input.head().unwrap();
    let n = |i: usize| a[i].nat().unwrap();
    match h {
        "run" => {
            let name = a[0].atom().unwrap();
            let (v, inst, iters, seed) = (n(1) as u32, n(2) as u32, n(3) as u32, n(4));
            let cx = Ctx { pools, seed, jseed: seed ^ 0x1234 };
            let mut ds = match with_jtemplate(name, v, inst, iters, RunAll { cx }) { Ok(d) => d, Err(_) => return "(digests (seq ctor-err))".into() };
            if same_as_shared(name, v, inst, iters) {
                ds.push(list(["unwrapped".into(), with_template(name, v, inst, iters, PlainSeq { seed }).unwrap_or("ctor-err".into())]));
            }
            if a.len() > 5 {
                // fresh process
                // (spawning can fail on a loaded machine: tried up to four times before it is reported)
                let mut d = String::new();
                for attempt in 0..4u64 {
                    if attempt > 0 { std::thread::sleep(Duration::from_millis(200 * attempt)); }
                    d = std::process::Command::new(std::env::current_exe().unwrap())
                        .args(["--digest", &format!("(run {name} {v} {inst} {iters} {seed})")])
                        .output().ok().and_then(|o| String::from_utf8(o.stdout).ok()).map(|s| s.trim().to_string()).unwrap_or_default();
                    if !d.is_empty() { break; }
                }
                ds.push(list(["fresh-process".into(), if d.is_empty() { "proc-failed".into() } else { d }]));
            }
            tagged("digests", ds)
        }
        "big" => {
            let name = a[0].atom().unwrap();
            let (size, inst, iters, seed) = (n(1) as u32, n(2) as u32, n(3) as u32, n(4));
            let cx = Ctx { pools, seed, jseed: seed ^ 0x4321 };
            tagged("digests", match with_big_template(name, size, inst, iters, RunAll { cx }) { Ok(d) => d, Err(_) => vec![list(["seq".into(), "ctor-err".into()])] })
        }
        "evaluate" => {
            let entry = a[0].atom().unwrap();
            let (nn, threads, prep, seed, lo, len) = (n(1), n(2) as usize, n(3), n(4), n(5), n(6));
            let own;
            let pool = match pools.iter().find(|(k, _)| *k == threads) {
                Some((_, p)) => p,
                None => { own = rayon::ThreadPoolBuilder::new().num_threads(threads).build().expect("pool"); &own }
            };
            let sq = eval_once(entry, nn, prep, seed, lo, len, None);
            let pr = eval_once(entry, nn, prep, seed, lo, len, Some(pool));
            list(["evaluate".into(), list(["seq".into(), sq]), list(["par".into(), pr])])
        }
        "measure" => {
            // (measure <Measure> n d seed): the public `measure` and the component on prepared solutions,
            // called from the main thread and inside every pool
            let m = measure_index(a[0].atom().unwrap());
            let (nn, d, seed) = (n(1), n(2), n(3));
            let sols = prep_solutions(nn, d, seed);
            let mut ds = vec![list(["outside".into(), measure_direct(m, d, &sols)])];
            for (t, pool) in pools { ds.push(list([format!("pool{t}"), pool.install(|| measure_direct(m, d, &sols))])); }
            let mut cs = vec![list(["outside".into(), measure_component(m, d, &sols)])];
            for (t, pool) in pools { cs.push(list([format!("pool{t}"), pool.install(|| measure_component(m, d, &sols))])); }
            list(["measure".into(), tagged("digests", ds), tagged("digests", cs)])
        }
        "mrun" => {
            // (mrun n iters mask fb map inst seed)
            let (nn, iters, mask, fb, map, inst, seed) = (n(0) as u32, n(1) as u32, n(2) & 15, n(3), n(4), n(5) as u32, n(6));
            let mask = if fb < 4 { mask | (1 << fb) } else { mask };
            let config = measure_config(nn, iters, mask, fb, map);
            tagged("digests", measure_runs(&config, &sphere_instance(inst), seed, mask, pools))
        }
        "gen" => {
            let config = gen_config(&a[..7]);
            let inner = sphere_instance(n(6) as u32);
            let cx = Ctx { pools, seed: n(7), jseed: n(7) ^ 0x77 };
            tagged("digests", all_runs(&config, &inner, &cx))
        }
        "user-rng" => {
            let name = a[0].atom().unwrap();
            let (v, iters, seed) = (n(1) as u32, n(2) as u32, n(3));
            let s = with_jtemplate(name, v, 0, iters, SeqOnly { seed, gen: Gen::Seeded, par: false }).unwrap_or("ctor-err".into());
            let u = with_jtemplate(name, v, 0, iters, SeqOnly { seed, gen: Gen::User, par: false }).unwrap_or("ctor-err".into());
            let up = pools[3].1.install(|| with_jtemplate(name, v, 0, iters, SeqOnly { seed, gen: Gen::User, par: true })).unwrap_or("ctor-err".into());
            tagged("digests", [list(["seeded".into(), s]), list(["user".into(), u]), list(["user-parallel".into(), up])])
        }
        "exp" | "exp-user" => {
            let name = a[0].atom().unwrap();
            let (v, iters, runs, pool, nprob) = (n(1) as u32, n(2) as u32, n(3), n(4), n(5) as u32);
            let user = if h == "exp-user" { Some((n(6), n(7))) } else { None };
            let dir = tmp_root().join(format!("c08-{}-{h}-{name}-{v}-{iters}-{runs}-{pool}-{nprob}", std::process::id()));
            let _ = std::fs::remove_dir_all(&dir);
            std::fs::create_dir_all(&dir).expect("tmp dir");
            let mut argv = vec!["--exp".to_string(), name.to_string(), v.to_string(), iters.to_string(), runs.to_string(), pool.to_string(), nprob.to_string(), dir.to_str().unwrap().to_string()];
            if let Some((code, useed)) = user { argv.push(code.to_string()); argv.push(useed.to_string()); }
            let st = std::process::Command::new(std::env::current_exe().unwrap())
                .args(&argv)
                .stdout(std::process::Stdio::null()).stderr(std::process::Stdio::null()).status();
            let child_ok = matches!(st, Ok(s) if s.success());
            let ron_ok = dir.join("configuration.ron").exists();
            let (single, files, seeds) = with_jtemplate(name, v, 0, iters, ExpRef { runs, nprob, dir: dir.clone(), user })
                .unwrap_or(("ctor-err".into(), "ctor-err".into(), vec![]));
            let _ = std::fs::remove_dir_all(&dir);
            let files = if child_ok && ron_ok { files } else { "experiment-failed".into() };
            list([h.to_string(), tagged(if user.is_some() { "gens" } else { "seeds" }, seeds), tagged("digests", [list(["single-runs".into(), single]), list(["par-experiment".into(), files])])])
        }
        "adv-rng" => {
            let name = a[0].atom().unwrap();
            let (v, iters, seed, k, code) = (n(1) as u32, n(2) as u32, n(3), n(4), n(5));
            tagged("digests", with_jtemplate(name, v, 0, iters, AdvRuns { seed, k, code, pool: &pools[3].1 }).unwrap_or(vec![list(["handbuilt-run".into(), "ctor-err".into()])]))
        }
        "stream" => {
            let backend = a[0].atom().unwrap();
            let seed = n(1);
            let path: Vec<u64> = a[2].head().unwrap().1.iter().map(|x| x.nat().unwrap()).collect();
            let ops = parse_ops(a[3].head().unwrap().1);
            match backend {
                "new" => stream_case::<ChaCha12Rng>(true, seed, &path, &ops),
                "chacha12" => stream_case::<ChaCha12Rng>(false, seed, &path, &ops),
                "chacha8" => stream_case::<ChaCha8Rng>(false, seed, &path, &ops),
                "chacha20" => stream_case::<ChaCha20Rng>(false, seed, &path, &ops),
                "std" => stream_case::<rand::rngs::StdRng>(false, seed, &path, &ops),
                "user" => stream_case::<UserRng>(false, seed, &path, &ops),
                "ctr" => stream_case::<Ctr>(false, seed, &path, &ops),
                other => panic!("unknown backend {other}"),
            }
        }
        "seedmap" => {
            // which seed really reaches the backend: first word of the transparent backend
            let s0 = n(0);
            let r = catch(|| {
                let e = Random::with_rng::<Ctr>(s0).next_u64();
                let e2 = Random::with_rng::<Ctr>(e).next_u64();
                let same = first_words(&mut Random::with_rng::<Ctr>(s0), 16) == first_words(&mut Random::with_rng::<Ctr>(e), 16)
                    && first_words(&mut Random::new(s0), 16) == first_words(&mut Random::new(e), 16);
                (e, e2, same)
            });
            match r {
                Some((e, e2, same)) => format!("(seedmap (eff {e}) (eff2 {e2}) (same-stream {}))", b(same)),
                None => "(seedmap panic)".into(),
            }
        }
        "reuse" => {
            let name = a[0].atom().unwrap().to_string();
            let r = Reuse { name: name.clone(), v: n(1) as u32, iters: n(2) as u32, ia: n(3) as u32, ib: n(4) as u32, seed: n(5), pool: &pools[3].1 };
            let (v, ia, iters) = (r.v, r.ia, r.iters);
            tagged("digests", with_jtemplate(&name, v, ia, iters, r).unwrap_or(vec![list(["fresh-on-B".into(), "ctor-err".into()])]))
        }
        "children" => {
            let (seed, k) = (n(0), n(1) as usize);
            let mut twin = Random::new(seed);
            let words = first_words(&mut twin, k);
            let mut pa = Random::new(seed);
            let mut ca: Vec<Random> = pa.iter_children().take(k).collect();
            let mut pb = Random::new(seed);
            let mut cb: Vec<Random> = (&mut pb).into_iter().take(k).collect();
            // witness: the seed every child reports
            let seeds: Vec<u64> = ca.iter().map(|c| c.config().seed).collect();
            let da: Vec<String> = ca.iter_mut().map(|c| fnv(&format!("{:?}", first_words(c, 64)))).collect();
            let db: Vec<String> = cb.iter_mut().map(|c| fnv(&format!("{:?}", first_words(c, 64)))).collect();
            // reference: the bare default backend seeded with that seed through rand's own seed_from_u64
            let dc: Vec<String> = seeds.iter().map(|w| { let mut g = ChaCha12Rng::seed_from_u64(*w); fnv(&format!("{:?}", (0..64).map(|_| g.next_u64()).collect::<Vec<u64>>())) }).collect();
            // after deriving k children both parents are at the same position
            let tail_eq = first_words(&mut pa, 8) == first_words(&mut pb, 8);
            let mut da = da; if !tail_eq { da.push("parent-diverged".into()); }
            list(["children".into(), list(["parent".into(), seed.to_string()]), tagged("words", words.iter().map(|w| w.to_string())), tagged("seeds", seeds.iter().map(|w| w.to_string())), tagged("a", da), tagged("b", db), tagged("c", dc)])
        }
        "pairs" => {
            let (base, cnt) = (n(0), n(1));
            let mut r = Sm::new(base);
            let mut coll = 0u64;
            for i in 0..cnt {
                let sa = r.next();
                let sb = match i % 3 { 0 => sa ^ (1u64 << (i % 64)), 1 => sa.wrapping_add(1), _ => r.next() };
                if sa == sb { continue; }
                let wa = first_words(&mut Random::new(sa), 64);
                let wb = first_words(&mut Random::new(sb), 64);
                if wa == wb { coll += 1; }
                // and their first children differ as well
                if i % 16 == 0 {
                    let ca = Random::new(sa).iter_children().next().unwrap().config().seed;
                    let cb = Random::new(sb).iter_children().next().unwrap().config().seed;
                    if ca == cb { coll += 1; }
                }
            }
            format!("(pairs {cnt} (collisions {coll}))")
        }
        _ => panic!("unknown case {h}"),
    }
}

fn site_of(sx: &Sx) -> String {
    match sx.head().unwrap() {
        ("run", a) => format!("run-{}", a[0].atom().unwrap()),
        ("big", a) => format!("big-{}", a[0].atom().unwrap()),
        ("evaluate", a) => format!("evaluate-{}", a[0].atom().unwrap()),
        ("measure", a) => format!("measure-{}", a[0].atom().unwrap()),
        (h, _) => h.to_string(),
    }
}

/// Population sizes at which a size-dependent code path is most likely to switch or to leave a
/// remainder: around powers of two, primes, round numbers.
const EVAL_SIZES: [u64; 40] = [
    255, 256, 257, 258, 263, 300, 383, 384, 385, 500, 511, 512, 513, 521, 640, 769, 1000, 1009, 1023, 1024, 1025, 1031, 1500, 1537,
    2000, 2047, 2048, 2049, 2053, 2500, 3000, 3001, 3072, 3073, 4000, 4095, 4096, 4097, 4099, 5000,
];
const EVAL_THREADS: [u64; 7] = [1, 2, 3, 4, 7, 8, 16];

fn main() {
    if std::env::var("VERIF_LOUD").is_err() { quiet_panics(); }
    let argv: Vec<String> = std::env::args().collect();
    if argv.len() >= 9 && argv[1] == "--exp" {
        let p = |i: usize| argv[i].parse::<u64>().unwrap();
        let user = if argv.len() >= 11 { Some((p(9), p(10))) } else { None };
        let ok = with_jtemplate(&argv[2], p(3) as u32, 0, p(4) as u32, ExpChild { runs: p(5), pool: p(6) as usize, nprob: p(7) as u32, dir: PathBuf::from(&argv[8]), user }).unwrap_or(false);
        std::process::exit(if ok { 0 } else { 3 });
    }
    if argv.len() >= 3 && argv[1] == "--digest" {
        let sx = Sx::parse(&argv[2]).expect("bad input");
        let (_, a) = sx.head().unwrap();
        let d = with_jtemplate(a[0].atom().unwrap(), a[1].nat().unwrap() as u32, a[2].nat().unwrap() as u32, a[3].nat().unwrap() as u32,
            SeqOnly { seed: a[4].nat().unwrap(), gen: Gen::Seeded, par: false }).unwrap_or("ctor-err".into());
        println!("{d}");
        return;
    }
    let a = args();
    let pools = pools();
    let mut out = Out::new();
    if let Some(r) = a.replay {
        let sx = Sx::parse(&r).expect("bad replay input");
        out.case(&site_of(&sx), &r, &run_case(&sx, &pools));
        out.finish();
        return;
    }
    let mut emit = |input: String| {
        let sx = Sx::parse(&input).unwrap();
        let site = site_of(&sx);
        out.case(&site, &input, &run_case(&sx, &pools));
    };
    let mut r = Sm::new(a.seed);
    // 1. every template
    let reps = if a.thorough { 20 } else { 5 };
    let all_variants = true;
    let mut k = 0u64;
    for name in TEMPLATES {
        for rep in 0..reps {
            let variants: Vec<u32> = if a.thorough || all_variants { (0..JV).collect() } else { vec![((a.seed + k) % JV as u64) as u32] };
            for v in variants {
                let iters = r.range(1, if a.thorough { 15 } else { 6 });
                let fresh = if k % 4 == 0 { " fresh" } else { "" };
                // run seeds: mostly small, every 5th case a boundary seed (0, 1, 2^32, 2^63, u64::MAX, …)
                let seed = if k % 5 == 2 { BOUNDARY_SEEDS[(r.below(BOUNDARY_SEEDS.len() as u64)) as usize] } else { r.below(1 << 20) };
                emit(format!("(run {name} {v} {} {iters} {seed}{fresh})", r.below(N_INSTANCES as u64)));
                k += 1;
            }
            let _ = rep;
        }
    }
    // 2. generated configurations
    for _ in 0..(if a.thorough { 600 } else { 40 }) {
        emit(format!("(gen {} {} {} {} {} {} {} {})", r.range(2, 8), r.range(1, 5), r.below(4), r.below(3), r.below(3), r.below(3), r.below(N_INSTANCES as u64), r.below(1 << 20)));
    }
    // 2a. LARGE populations. (i) direct evaluator calls and the PopulationEvaluator component on prepared populations
    //     of hundreds to thousands of individuals under pools of 1, 2, 3, 4, 7, 8, 16 threads;
    for &t in EVAL_THREADS.iter() {
        let mut sizes: Vec<u64> = vec![257, 1000];
        for _ in 0..(if a.thorough { 30 } else { 5 }) { sizes.push(*r.pick(&EVAL_SIZES)); }
        for _ in 0..(if a.thorough { 12 } else { 2 }) { sizes.push(r.range(200, if a.thorough { 16000 } else { 6000 })); }
        sizes.push(r.range(0, 70));
        for (k, nn) in sizes.into_iter().enumerate() {
            let prep = if k % 3 == 0 { 0 } else { r.below(5) };
            let entry = if k % 3 == 1 { "component" } else { "direct" };
            // every 4th direct call hands the evaluator a sub-slice
            let (lo, len) = if entry == "direct" && k % 4 == 2 && nn > 2 { let lo = r.below(nn / 2); (lo, r.range((nn - lo) / 2, nn - lo)) } else { (0, nn) };
            emit(format!("(evaluate {entry} {nn} {t} {prep} {} {lo} {len})", r.below(1 << 20)));
        }
    }
    //     (ii) templates and generated configurations with a large population: all runs of `all_runs`
    for i in 0..(if a.thorough { 60 } else { 6 }) {
        let name = BIG_TEMPLATES[(i + a.seed as usize) % BIG_TEMPLATES.len()];
        // thorough: every 10th case a population of a few thousand
        let size = if a.thorough && i % 10 == 9 { r.range(2049, 4200) } else if i % 2 == 0 { *r.pick(&EVAL_SIZES[..24]) } else { r.range(257, 1600) };
        emit(format!("(big {name} {size} {} {} {})", r.below(N_INSTANCES as u64), r.range(1, 2), r.below(1 << 20)));
    }
    for _ in 0..(if a.thorough { 40 } else { 3 }) {
        emit(format!("(gen {} {} {} {} {} {} {} {})", r.range(257, 1300), r.range(1, 2), r.below(4), r.below(3), r.below(3), r.below(3), r.below(N_INSTANCES as u64), r.below(1 << 20)));
    }
    // 2a'. measure components. (i) the four diversity measures called directly and as components on prepared
    //      solutions (2..600 solutions, 1..12 dimensions), from the main thread and inside pools of 1..16 threads;
    for (mi, m) in MEASURES.iter().enumerate() {
        let mut shapes: Vec<(u64, u64)> = vec![(48, 6), (2, 1), (3 + mi as u64, 2)];
        for _ in 0..(if a.thorough { 40 } else { 5 }) { shapes.push((r.range(2, if a.thorough { 600 } else { 200 }), r.range(1, 12))); }
        for (nn, d) in shapes { emit(format!("(measure {m} {nn} {d} {})", r.below(1 << 20))); }
    }
    //      (ii) generated configurations in which the measured values are logged and steer the mutation strength
    //      through a mapping; sequential and parallel evaluator inside every pool vs. the plain call
    for i in 0..(if a.thorough { 160 } else { 16 }) {
        let fb = if i % 5 == 4 { 4 } else { i % 4 };
        let mask = if i % 3 == 0 { 15 } else { r.range(1, 15) };
        emit(format!("(mrun {} {} {mask} {fb} {} {} {})", r.range(8, if a.thorough { 96 } else { 48 }), r.range(3, if a.thorough { 30 } else { 12 }), r.below(2), r.below(N_INSTANCES as u64), r.below(1 << 20)));
    }
    // 2b. one configuration object reused on problems with different domains; clone after use
    for name in TEMPLATES {
        for rep in 0..(if a.thorough { 6 } else { 2 }) {
            let ia = r.below(N_INSTANCES as u64);
            let ib = (ia + 1 + r.below(N_INSTANCES as u64 - 1)) % N_INSTANCES as u64;
            let _ = rep;
            emit(format!("(reuse {name} {} {} {ia} {ib} {})", r.below(JV as u64), r.range(1, 5), r.below(1 << 20)));
        }
    }
    // 3. user-supplied generator
    for (i, name) in TEMPLATES.iter().enumerate() {
        if a.thorough || i < 100 {
            emit(format!("(user-rng {name} {} {} {})", r.below(JV as u64), r.range(1, 4), r.below(1 << 20)));
        }
    }
    // 3b. a user generator that was already drawn from / has another backend: hand-built state + `run` vs `optimize_with`
    for (i, name) in TEMPLATES.iter().enumerate() {
        for rep in 0..(if a.thorough { 4 } else { 1 }) {
            let k = if rep == 0 && (i as u64 + a.seed) % 4 == 0 { 0 } else { r.range(1, 5) };
            emit(format!("(adv-rng {name} {} {} {} {k} {})", r.below(JV as u64), r.range(1, 4), r.below(1 << 20), r.below(2)));
        }
    }
    // 4. the batch experiment runner: run counts 1–6 × pool sizes
    let exp_templates = ["real_ga", "real_rs", "binary_ga", "real_ils", "permutation_sa", "real_pso", "ant_system", "real_es", "real_cro", "permutation_ils"];
    let n_exp = if a.thorough { exp_templates.len() } else { 4 };
    for t in 0..n_exp {
        let name = exp_templates[(t + a.seed as usize) % exp_templates.len()];
        for runs in 1..=6u64 {
            let pool = [1, 2, 4, 8][((runs + t as u64 + a.seed) % 4) as usize];
            let nprob = 1 + (runs + t as u64 + a.seed) % 3;
            emit(format!("(exp {name} {} {} {runs} {pool} {nprob})", r.below(JV as u64), r.range(1, 4)));
        }
    }
    // 4b. the batch experiment runner with a `setup` that supplies its own generator (backend 0 = default, 1 = ChaCha8, 2 = counting wrapper)
    for t in 0..(if a.thorough { 12 } else { 3 }) {
        let name = exp_templates[(t + 2 * a.seed as usize) % exp_templates.len()];
        let code = (t as u64 + a.seed) % 3;
        let runs = 1 + (t as u64 + a.seed) % 3;
        let pool = [1, 2, 4, 8][((t as u64 + a.seed) % 4) as usize];
        let nprob = 1 + (t as u64 / 3 + a.seed) % 2;
        // the user's seed is never one of the run numbers, so a replacement by `Random::new(run)` cannot go unnoticed
        emit(format!("(exp-user {name} {} {} {runs} {pool} {nprob} {code} {})", r.below(JV as u64), r.range(1, 3), 1000 + r.below(1 << 20)));
    }
    // 4c. `Random` vs the bare backend (seeded through rand's own `seed_from_u64`; for `ctr` predicted by the model):
    //     boundary and random seeds x backends x descendant paths (depth 0..4) x draw scripts over all four RngCore methods
    let backends = ["new", "chacha12", "chacha8", "chacha20", "std", "user", "ctr"];
    let gen_path = |r: &mut Sm| -> String { let d = r.below(5); tagged("path", (0..d).map(|_| r.below(4).to_string())) };
    let gen_ops = |r: &mut Sm| -> String {
        let n = r.range(1, 8);
        tagged("ops", (0..n).map(|_| match r.below(5) { 0 | 1 => "u64".to_string(), 2 => "u32".to_string(), 3 => format!("(fill {})", r.below(21)), _ => format!("(try {})", r.below(21)) }))
    };
    for (bi, be) in backends.iter().enumerate() {
        for (si, &seed) in BOUNDARY_SEEDS.iter().enumerate() {
            if a.thorough || si < 8 || (si + bi + a.seed as usize) % 4 == 0 {
                let path = if si % 3 == 0 { "(path)".to_string() } else { gen_path(&mut r) };
                emit(format!("(stream {be} {seed} {path} {})", gen_ops(&mut r)));
            }
        }
        for _ in 0..(if a.thorough { 300 } else { 25 }) {
            let seed = r.next() >> r.below(64);
            emit(format!("(stream {be} {seed} {} {})", gen_path(&mut r), gen_ops(&mut r)));
        }
    }
    // the counter backend around the wrap (children with seed 0, u64::MAX) and a long path
    emit(format!("(stream ctr {} (path 1 0 2 3) (ops u64 u32 (fill 9) (try 0) u64))", u64::MAX));
    emit(format!("(stream ctr {} (path 0 2 1) (ops u64 u32 (fill 3) (try 9) u64))", u64::MAX - 1));
    // 4d. which seed reaches the backend: all 2^k, 2^k ± 1, well-known constants, random seeds
    let mut sm_seeds: Vec<u64> = BOUNDARY_SEEDS.to_vec();
    for kbit in 0..64u32 { let p = 1u64 << kbit; sm_seeds.extend([p, p.wrapping_sub(1), p.wrapping_add(1)]); }
    for _ in 0..(if a.thorough { 3000 } else { 150 }) { sm_seeds.push(r.next() >> r.below(64)); }
    sm_seeds.sort(); sm_seeds.dedup();
    for sd in sm_seeds { emit(format!("(seedmap {sd})")); }
    // 5. child generators, seed pairs
    for _ in 0..(if a.thorough { 2000 } else { 200 }) {
        emit(format!("(children {} {})", r.next() >> r.below(64), r.range(1, 12)));
    }
    emit(format!("(children 0 5)"));
    emit(format!("(children {} 3)", u64::MAX));
    for i in 0..(if a.thorough { 20 } else { 2 }) {
        emit(format!("(pairs {} {})", a.seed * 100 + i, if a.thorough { 10000 } else { 5000 }));
    }
    out.finish();
}
