//! C14 — initialisation and boundary repair. Every case runs the REAL component (`execute` on a
//! `State`) inside a worker process under a 2 s watchdog: a case that does not answer is re-run once
//! in a fresh worker (in isolation) and only then reported as the outcome `timeout`.
use std::io::{BufRead, BufReader, Write};
use std::process::{Child, ChildStdin, Command, Stdio};
use std::sync::mpsc::{channel, Receiver};
use std::time::Duration;

use hcommon::problems::{OneMax, Sphere, Tsp};
use mahf::problems::{LimitedVectorProblem, VectorProblem};
use mahf::SingleObjective;
use hcommon::*;
use mahf::components::boundary::{CompleteOneTailedNormalCorrection, Mirror, Saturation, Toroidal};
use mahf::components::initialization::{Empty, RandomBitstring, RandomPermutation, RandomSpread};
use mahf::state::common::Populations;
use mahf::{Component, Individual, Problem, Random, State};
use rand::distributions::Distribution;
use rand_distr::Normal;

const WATCHDOG: Duration = Duration::from_millis(2000);

/// A `LimitedVectorProblem` whose range may differ from dimension to dimension.
struct Ranges { dom: Vec<(f64, f64)> }
impl Problem for Ranges {
    type Encoding = Vec<f64>;
    type Objective = SingleObjective;
    fn name(&self) -> &str { "ranges" }
}
impl VectorProblem for Ranges {
    type Element = f64;
    fn dimension(&self) -> usize { self.dom.len() }
}
impl LimitedVectorProblem for Ranges {
    fn domain(&self) -> Vec<std::ops::Range<f64>> { self.dom.iter().map(|&(a, b)| a..b).collect() }
}

/// A `LimitedVectorProblem` over `usize` (the element type of `RandomSpread` is generic).
struct NatRanges { dom: Vec<(usize, usize)> }
impl Problem for NatRanges {
    type Encoding = Vec<usize>;
    type Objective = SingleObjective;
    fn name(&self) -> &str { "nat-ranges" }
}
impl VectorProblem for NatRanges {
    type Element = usize;
    fn dimension(&self) -> usize { self.dom.len() }
}
impl LimitedVectorProblem for NatRanges {
    fn domain(&self) -> Vec<std::ops::Range<usize>> { self.dom.iter().map(|&(a, b)| a..b).collect() }
}

/// `(dom (a b) ..)`: one pair = the same range in each of `dim` dimensions, several = one per dimension.
fn dom_of(x: &Sx, dim: usize) -> Vec<(f64, f64)> {
    let (_, pairs) = x.head().unwrap();
    let v: Vec<(f64, f64)> = pairs.iter().map(|p| { let f = fl(p); (f[0], f[1]) }).collect();
    if v.len() == 1 { vec![v[0]; dim] } else { v }
}
fn dom_s(d: &[(f64, f64)]) -> String { tagged("dom", d.iter().map(|&(a, b)| list([fx(a), fx(b)]))) }

fn fs(v: &[f64]) -> String {
    list(v.iter().map(|&x| fx(x)))
}
fn fl(x: &Sx) -> Vec<f64> {
    x.items().unwrap().iter().map(|t| t.float().unwrap()).collect()
}

fn exec<P: Problem>(c: &dyn Component<P>, p: &P, s: &mut State<P>) -> Result<(), String> {
    match catch(|| c.execute(p, s)) {
        None => Err("panic".into()),
        Some(Err(_)) => Err("(e exec)".into()),
        Some(Ok(())) => Ok(()),
    }
}

/// `(bnd OP KIND (dom (a b)..) SEED (pop (x..)..))` → `((r1 (x..)..) (r2 (x..)..) (w s..))`:
/// the population after one and after two applications, and (for `otn`) the absolute STANDARD normal
/// deviates a twin generator with the same seed produces — the script the model consumes first
/// (`Normal::new(0, σ).sample` is `0 + σ·z`, so the component's `|sample|` is `σ·|z|`).
/// `(bnds OP KIND (dom ..) SEED (stack (pop ..) (pop ..) ..))` is the same on a whole population stack
/// (last = current): `((r1 (pop ..) ..) (r2 (pop ..) ..) (w ..))` shows EVERY population after each application.
fn run_bnd(a: &[Sx], as_stack: bool) -> String {
    let op = a[0].atom().unwrap();
    let seed = a[3].nat().unwrap();
    let (_, body) = a[4].head().unwrap();
    let pops: Vec<Vec<Vec<f64>>> = if as_stack {
        body.iter().map(|p| p.head().unwrap().1.iter().map(fl).collect()).collect()
    } else { vec![body.iter().map(fl).collect()] };
    let dim = pops.iter().flatten().map(|s| s.len()).max().unwrap_or(0);
    let problem = Ranges { dom: dom_of(&a[2], dim) };
    let comp: Box<dyn Component<Ranges>> = match op {
        "sat" => Saturation::new(),
        "tor" => Toroidal::new(),
        "mir" => Mirror::new(),
        "otn" => CompleteOneTailedNormalCorrection::new(),
        _ => panic!("unknown operator {op}"),
    };
    let mut state: State<Ranges> = State::new();
    state.insert(Populations::<Ranges>::new());
    state.insert(Random::new(seed));
    // every other individual carries an objective value (individual `i` of population `j` iff `seed + i + j` is
    // even): a solution is repaired whether or not it has been evaluated (mutate -> evaluate -> repair)
    for (j, p) in pops.iter().enumerate() {
        state.populations_mut().push(p.iter().enumerate().map(|(i, s)| {
            if (seed as usize + i + j) % 2 == 0 { Individual::new(s.clone(), SingleObjective::try_from(1.0).unwrap()) }
            else { Individual::new_unevaluated(s.clone()) }
        }).collect());
    }
    let snap = |state: &State<Ranges>, tag: &str| -> String {
        let pops = state.populations();
        if as_stack {
            let h = pops.len();
            // peek(0) is the current population: print bottom first
            tagged(tag, (0..h).rev().map(|d| tagged("pop", pops.peek(d).iter().map(|i| fs(i.solution())))))
        } else {
            tagged(tag, pops.current().iter().map(|i| fs(i.solution())))
        }
    };
    if let Err(e) = exec(comp.as_ref(), &problem, &mut state) { return e; }
    let r1 = snap(&state, "r1");
    if let Err(e) = exec(comp.as_ref(), &problem, &mut state) { return e; }
    let r2 = snap(&state, "r2");
    let mut w = vec![];
    if op == "otn" {
        let mut twin = Random::new(seed);
        let dist: Normal<f64> = Normal::new(0., 1.).unwrap();
        let k = 32 + 8 * pops.last().map(|p| p.iter().map(|s| s.len()).sum::<usize>()).unwrap_or(0);
        w = (0..k).map(|_| fx(dist.sample(&mut twin).abs())).collect();
    }
    list([r1, r2, tagged("w", w)])
}

/// `(init KIND N DIM H SEED [(dom ..) | P])` → `(HEIGHT (below t|f) (pop (ind EVAL sol)..))`.
fn run_init(a: &[Sx]) -> String {
    let kind = a[0].atom().unwrap();
    let n = a[1].nat().unwrap() as u32;
    let dim = a[2].nat().unwrap() as usize;
    let h = a[3].nat().unwrap() as usize;
    let seed = a[4].nat().unwrap();
    fn go<P: Problem>(p: &P, c: Box<dyn Component<P>>, h: usize, seed: u64, marker: P::Encoding,
                      show: impl Fn(&P::Encoding) -> String) -> String
    where P::Encoding: PartialEq {
        let mut state: State<P> = State::new();
        state.insert(Populations::<P>::new());
        state.insert(Random::new(seed));
        for _ in 0..h {
            state.populations_mut().push(vec![Individual::new_unevaluated(marker.clone())]);
        }
        if let Err(e) = exec(c.as_ref(), p, &mut state) { return e; }
        let pops = state.populations();
        let height = pops.len();
        let below = (1..height).all(|d| { let q = pops.peek(d); q.len() == 1 && *q[0].solution() == marker });
        let top: Vec<String> = if height == 0 { vec![] } else {
            pops.current().iter().map(|i| list([b(i.is_evaluated()), show(i.solution())])).collect()
        };
        list([height.to_string(), b(below), tagged("pop", top)])
    }
    match kind {
        "empty" => {
            let p = Sphere::new(dim, 0.0, 1.0, 0.0);
            go(&p, Empty::new(), h, seed, vec![0.5; dim], |s| fs(s))
        }
        "spread" => {
            let dom = dom_of(&a[5], dim);
            let marker: Vec<f64> = dom.iter().map(|d| d.0).collect();
            let p = Ranges { dom };
            go(&p, RandomSpread::new(n), h, seed, marker, |s| fs(s))
        }
        "spreadn" => {
            let (_, pairs) = a[5].head().unwrap();
            let v: Vec<(usize, usize)> = pairs.iter().map(|p| { let it = p.items().unwrap(); (it[0].nat().unwrap() as usize, it[1].nat().unwrap() as usize) }).collect();
            let dom = if v.len() == 1 { vec![v[0]; dim] } else { v };
            let marker: Vec<usize> = dom.iter().map(|d| d.0).collect();
            let p = NatRanges { dom };
            go(&p, RandomSpread::new(n), h, seed, marker, |s| nats(s.iter().map(|&x| x as u64)))
        }
        "bitsu" => {
            let p = OneMax::new(dim);
            go(&p, RandomBitstring::new_uniform(n), h, seed, vec![false; dim], |s| list(s.iter().map(|&x| b(x))))
        }
        "perm" => {
            let p = Tsp::new(vec![vec![1.0; dim]; dim]);
            go(&p, RandomPermutation::new(n), h, seed, (0..dim).collect(), |s| nats(s.iter().map(|&x| x as u64)))
        }
        "bits" => {
            let pr = a[5].float().unwrap();
            let p = OneMax::new(dim);
            go(&p, RandomBitstring::new(n, pr), h, seed, vec![false; dim], |s| list(s.iter().map(|&x| b(x))))
        }
        _ => panic!("unknown initialiser {kind}"),
    }
}

fn run_case(input: &Sx) -> String {
    let (name, a) = input.head().expect("tagged list");
    match name {
        "bnd" => run_bnd(a, false),
        "bnds" => run_bnd(a, true),
        "init" => run_init(a),
        "rem" => fx(a[0].float().unwrap().rem_euclid(a[1].float().unwrap())),
        _ => panic!("unknown case {name}"),
    }
}

// ------------------------------------------------------------------ watchdog
struct Worker { child: Child, stdin: ChildStdin, rx: Receiver<String> }
impl Worker {
    fn spawn() -> Worker {
        let exe = std::env::current_exe().expect("current_exe");
        let mut child = Command::new(exe).arg("--worker").stdin(Stdio::piped()).stdout(Stdio::piped())
            .stderr(Stdio::null()).spawn().expect("spawn worker");
        let stdin = child.stdin.take().unwrap();
        let stdout = child.stdout.take().unwrap();
        let (tx, rx) = channel();
        std::thread::spawn(move || {
            for line in BufReader::new(stdout).lines() {
                match line { Ok(l) => { if tx.send(l).is_err() { break } } Err(_) => break }
            }
        });
        Worker { child, stdin, rx }
    }
    fn ask(&mut self, input: &str) -> Option<String> { self.ask_within(input, WATCHDOG) }
    fn ask_within(&mut self, input: &str, limit: Duration) -> Option<String> {
        writeln!(self.stdin, "{}", input).ok()?;
        self.stdin.flush().ok()?;
        self.rx.recv_timeout(limit).ok()
    }
    fn kill(mut self) {
        let _ = self.child.kill();
        let _ = self.child.wait();
    }
}

struct Runner { w: Option<Worker>, timeouts: std::collections::HashMap<String, u32> }
impl Runner {
    fn new() -> Runner { Runner { w: None, timeouts: Default::default() } }
    /// Runs one case under the watchdog; `None` = skipped (too many timeouts at this site already).
    fn run(&mut self, site: &str, input: &str) -> Option<String> {
        let seen = *self.timeouts.get(site).unwrap_or(&0);
        if seen >= 12 { return None; }
        if self.w.is_none() { self.w = Some(Worker::spawn()); }
        if let Some(r) = self.w.as_mut().unwrap().ask(input) { return Some(r); }
        // no answer (or the worker died): kill it, re-run once in a fresh worker, in isolation
        self.w.take().unwrap().kill();
        let mut fresh = Worker::spawn();
        // the isolated re-run gets three times the limit, so that a machine under heavy load is not mistaken for a hang
        let again = if seen >= 3 { None } else { fresh.ask_within(input, WATCHDOG * 3) };
        match again {
            Some(r) => { self.w = Some(fresh); Some(r) }
            None => {
                fresh.kill();
                *self.timeouts.entry(site.to_string()).or_insert(0) += 1;
                Some("timeout".into())
            }
        }
    }
    fn finish(self) { if let Some(w) = self.w { w.kill(); } }
}

fn worker_loop() {
    quiet_panics();
    let stdin = std::io::stdin();
    let stdout = std::io::stdout();
    for line in stdin.lock().lines() {
        let Ok(line) = line else { break };
        let r = match Sx::parse(&line) {
            Some(sx) => catch(|| run_case(&sx)).unwrap_or_else(|| "panic".into()),
            None => "badinput".into(),
        };
        let mut o = stdout.lock();
        let _ = writeln!(o, "{}", r);
        let _ = o.flush();
    }
}

// ------------------------------------------------------------------ generators
fn next_up(x: f64) -> f64 {
    if x.is_nan() || x == f64::INFINITY { return x; }
    if x == 0.0 { return f64::from_bits(1); }
    let b = x.to_bits();
    f64::from_bits(if x > 0.0 { b + 1 } else { b - 1 })
}
fn next_down(x: f64) -> f64 { -next_up(-x) }

const DOMAINS: [(f64, f64); 4] = [(-1.0, 1.0), (0.0, 10.0), (-5.0, -2.0), (1e-3, 1e6)];
const KS: [f64; 8] = [0.25, 0.5, 1.0, 1.5, 2.0, 7.0, 1e3, 1e6];
const OPS: [&str; 4] = ["sat", "tor", "mir", "otn"];

fn op_name(op: &str) -> &'static str {
    match op { "sat" => "Saturation", "tor" => "Toroidal", "mir" => "Mirror", _ => "OneTailed" }
}

fn bound_points(a: f64, b: f64) -> Vec<f64> {
    vec![a, b, next_up(a), next_down(a), next_up(b), next_down(b)]
}
fn grid_points(a: f64, b: f64) -> Vec<f64> {
    let d = b - a;
    KS.iter().flat_map(|&k| [a - k * d, b + k * d]).collect()
}
fn huge_points() -> Vec<f64> {
    vec![1e17, -1e17, 1e300, -f64::MAX, f64::MAX, -1e300, 1e22, -4.5e15, 9007199254740993.0, -3.3e9, 2.5e12]
}
/// Around `Mirror`'s fold: the thresholds `a - d`, `b + d` and their floating-point neighbours (just
/// folded / just not), whole periods away from either bound (remainder 0, `d`, or one ulp off), and
/// far points whose remainder is small, about `d`, or just below `2d`.
fn fold_points(a: f64, b: f64) -> Vec<f64> {
    let d = b - a;
    let mut v = vec![];
    for t in [a - d, b + d] { v.extend([t, next_up(t), next_down(t)]); }
    for k in [1.0, 2.0, 3.0, 8.0, 1e3, 1e6] {
        for base in [a, b] { for sgn in [-1.0, 1.0] {
            let t = base + sgn * 2.0 * k * d;
            v.extend([t, next_up(t), next_down(t)]);
        } }
        for frac in [0.001, 0.999, 1.001, 1.999] { v.extend([a + (2.0 * k + frac) * d, a - (2.0 * k + frac) * d]); }
    }
    v
}

fn bnd_input(op: &str, kind: &str, a: f64, b: f64, seed: u64, sols: &[Vec<f64>]) -> String {
    bnd_input_dom(op, kind, &[(a, b)], seed, sols)
}
fn bnd_input_dom(op: &str, kind: &str, dom: &[(f64, f64)], seed: u64, sols: &[Vec<f64>]) -> String {
    format!("(bnd {} {} {} {} {})", op, kind, dom_s(dom), seed, tagged("pop", sols.iter().map(|s| fs(s))))
}
/// Domains whose range differs from dimension to dimension.
fn mixed_domains() -> Vec<Vec<(f64, f64)>> {
    vec![vec![(0.0, 1.0), (10.0, 20.0), (-5.0, -4.0)],
         vec![(-1.0, 1.0), (1e-3, 1e6), (0.0, 10.0), (-5.0, -2.0)],
         vec![(100.0, 101.0), (-1.0, 1.0)],
         // first and last range equal, inner ones different; repeated ranges
         vec![(0.0, 6.25), (100.0, 101.0), (0.0, 6.25)],
         vec![(-1.0, 1.0), (10.0, 20.0), (-5.0, -4.0), (-1.0, 1.0)],
         vec![(2.0, 3.0), (2.0, 3.0), (7.0, 8.0), (2.0, 3.0), (2.0, 3.0)]]
}

fn site_of(input: &Sx) -> String {
    let (name, a) = input.head().unwrap();
    if name == "init" {
        return match a[0].atom().unwrap() {
            "empty" => "Empty".into(), "spread" => "RandomSpread".into(),
            "perm" => "RandomPermutation".into(), "spreadn" => "RandomSpread<usize>".into(),
            "bitsu" => "RandomBitstring::new_uniform".into(), _ => {
                let p = a[5].float().unwrap();
                if (0.0..=1.0).contains(&p) { "RandomBitstring".into() } else { "RandomBitstring!malformed".into() }
            }
        };
    }
    if name == "rem" { return "f64::rem_euclid".into(); }
    format!("{}@{}", op_name(a[0].atom().unwrap()), a[1].atom().unwrap())
}

fn main() {
    let a = args();
    if std::env::args().any(|x| x == "--worker") { worker_loop(); return; }
    quiet_panics();
    let mut out = Out::new();
    let mut runner = Runner::new();
    if let Some(r) = a.replay {
        let sx = Sx::parse(&r).expect("bad replay input");
        let site = site_of(&sx);
        let res = runner.run(&site, &r).unwrap_or_else(|| "timeout".into());
        out.case(&site, &r, &res);
        out.finish();
        runner.finish();
        return;
    }
    let mut rng = Sm::new(a.seed);
    let mut emit = |runner: &mut Runner, input: String| {
        let sx = Sx::parse(&input).unwrap();
        let site = site_of(&sx);
        if let Some(res) = runner.run(&site, &input) { out.case(&site, &input, &res); }
    };
    let otn_seeds: u64 = if a.thorough { 48 } else { 6 };

    // ---- 1. every operator x every domain x every point of the bound neighbourhood / grid, one coordinate
    for &(lo, hi) in &DOMAINS {
        for op in OPS {
            let seeds = if op == "otn" { otn_seeds } else { 1 };
            for (kind, pts) in [("bound", bound_points(lo, hi)), ("grid", grid_points(lo, hi))] {
                for &x in &pts { for s in 0..seeds {
                    emit(&mut runner, bnd_input(op, kind, lo, hi, a.seed * 1000 + s, &[vec![x]]));
                } }
            }
        }
    }
    // ---- 2. populations of 1..3 individuals, dimension 1..4, coordinates of one kind
    let n_multi = if a.thorough { 20000 } else { 3000 };
    for _ in 0..n_multi {
        let &(lo, hi) = rng.pick(&DOMAINS);
        let d = hi - lo;
        let op = *rng.pick(&OPS);
        let kind = *rng.pick(&["bound", "grid", "random", "random", "inside"]);
        let dim = rng.range(1, 4) as usize;
        let n = rng.range(1, 3) as usize;
        let coord = |rng: &mut Sm| -> f64 {
            match kind {
                "bound" => *rng.pick(&bound_points(lo, hi)),
                "grid" => { let g = grid_points(lo, hi); g[rng.below(14) as usize] }   // k <= 1e3
                "inside" => lo + rng.unit() * d,
                _ => {
                    let mag = 10f64.powi(rng.range(0, 4) as i32 - 1);
                    lo + (rng.unit() * 2.0 - 0.5) * d * mag
                }
            }
        };
        let sols: Vec<Vec<f64>> = (0..n).map(|_| (0..dim).map(|_| coord(&mut rng)).collect()).collect();
        emit(&mut runner, bnd_input(op, if kind == "inside" { "random" } else { kind }, lo, hi, rng.next() % 100000, &sols));
    }
    // ---- 2b. per-dimension DIFFERENT ranges: every coordinate is judged against its own range
    let n_mixed = if a.thorough { 6000 } else { 900 };
    for it in 0..n_mixed {
        let doms = mixed_domains();
        let dom = &doms[it % doms.len()];
        let op = OPS[(it / doms.len()) % OPS.len()];
        let kind = *rng.pick(&["bound", "grid", "random", "inside"]);
        let n = rng.range(1, 3) as usize;
        let sols: Vec<Vec<f64>> = (0..n).map(|_| dom.iter().map(|&(lo, hi)| {
            let d = hi - lo;
            match kind {
                "bound" => *rng.pick(&bound_points(lo, hi)),
                "grid" => { let g = grid_points(lo, hi); g[rng.below(14) as usize] }
                "inside" => lo + rng.unit() * d,
                _ => lo + (rng.unit() * 2.0 - 0.5) * d * 10f64.powi(rng.range(0, 3) as i32 - 1),
            }
        }).collect()).collect();
        emit(&mut runner, bnd_input_dom(op, if kind == "inside" { "random" } else { kind }, dom, rng.next() % 100000, &sols));
    }
    // ---- 3. huge finite coordinates and the neighbourhood of Mirror's fold: ordinary cases — every operator
    //         must return, in bounds (for `|x| >> width` step-by-step reflection would not: `b - (v - b)` rounds to `-v`)
    for &(lo, hi) in &DOMAINS {
        for op in OPS {
            let seeds = if op == "otn" { 2 } else { 1 };
            for (kind, pts) in [("huge", huge_points()), ("fold", fold_points(lo, hi))] {
                for &x in &pts { for s in 0..seeds {
                    emit(&mut runner, bnd_input(op, kind, lo, hi, a.seed * 1000 + s, &[vec![x]]));
                } }
            }
        }
    }
    // the same inside populations over per-dimension different ranges (each coordinate folded with ITS range)
    for (it, dom) in mixed_domains().iter().enumerate() {
        for op in OPS {
            let hp = huge_points();
            let sols: Vec<Vec<f64>> = (0..3).map(|i| dom.iter().enumerate().map(|(j, &(lo, hi))| {
                if (i + j) % 2 == 0 { hp[(it + 3 * i + j) % hp.len()] } else { let f = fold_points(lo, hi); f[(7 * it + 5 * i + j) % f.len()] }
            }).collect()).collect();
            emit(&mut runner, bnd_input_dom(op, "huge", dom, a.seed, &sols));
        }
    }
    // ---- 3b. larger dimensions and populations, kinds MIXED per coordinate (inside coordinates next to ones that
    //          are repaired; a chunked or size-dependent fast path would show here)
    let mixed_coord = |rng: &mut Sm, lo: f64, hi: f64| -> f64 {
        let d = hi - lo;
        match rng.below(6) {
            0 => *rng.pick(&bound_points(lo, hi)),
            1 => { let g = grid_points(lo, hi); g[rng.below(14) as usize] }
            2 => lo + rng.unit() * d,
            3 => { let f = fold_points(lo, hi); f[rng.below(f.len() as u64) as usize] }
            4 => *rng.pick(&huge_points()),
            _ => lo + (rng.unit() * 2.0 - 0.5) * d * 10f64.powi(rng.range(0, 4) as i32 - 1),
        }
    };
    let n_big = if a.thorough { 600 } else { 120 };
    for it in 0..n_big {
        let &(lo, hi) = rng.pick(&DOMAINS);
        let op = OPS[it % OPS.len()];
        let dim = *rng.pick(&[5usize, 7, 8, 9, 15, 16, 17, 31, 32, 33]);
        let n = *rng.pick(&[1usize, 4, 5, 8, 9, 16, 17, 40]);
        let sols: Vec<Vec<f64>> = (0..n).map(|_| (0..dim).map(|_| mixed_coord(&mut rng, lo, hi)).collect()).collect();
        emit(&mut runner, bnd_input(op, "big", lo, hi, rng.next() % 100000, &sols));
    }
    // ---- 3c. population STACKS: only the current (top-most) population may change; populations below hold
    //          out-of-bounds coordinates, too, and must come back bit-identical; empty populations; empty stack
    for op in OPS { emit(&mut runner, format!("(bnds {} empty-stack {} 0 (stack))", op, dom_s(&[(-1.0, 1.0)]))); }
    let n_stack = if a.thorough { 4000 } else { 600 };
    for it in 0..n_stack {
        let doms = mixed_domains();
        let dom: Vec<(f64, f64)> = if it % 3 == 0 { doms[(it / 3) % doms.len()].clone() } else {
            let dm = *rng.pick(&DOMAINS); vec![dm; rng.range(1, 4) as usize] };
        let op = OPS[(it / 2) % OPS.len()];
        let height = *rng.pick(&[1u64, 2, 2, 3, 3, 4]);
        let pops: Vec<String> = (0..height).map(|_| {
            let n = rng.range(0, 3);
            tagged("pop", (0..n).map(|_| fs(&dom.iter().map(|&(lo, hi)| mixed_coord(&mut rng, lo, hi)).collect::<Vec<f64>>())))
        }).collect();
        emit(&mut runner, format!("(bnds {} stack {} {} {})", op, dom_s(&dom), rng.next() % 100000, tagged("stack", pops)));
    }
    // ---- 3d. the carrier operation `f64::rem_euclid` itself against the model's exact integer computation
    {
        let special = [0.0, -0.0, 5e-324, -5e-324, 2.2250738585072014e-308, 1.0, -1.0, 1.5, -2.5, 3.0, -3.0, 4.0, 0.1, -0.1, 1e-3,
            1999999.998, 1e17, -1e17, 9007199254740993.0, 1e22, 1e300, -1e300, f64::MAX, -f64::MAX, f64::INFINITY, f64::NEG_INFINITY, f64::NAN];
        for &x in &special { for &m in &special { emit(&mut runner, format!("(rem {} {})", fx(x), fx(m))); } }
        let n_rem = if a.thorough { 20000 } else { 3000 };
        for _ in 0..n_rem {
            // random finite doubles over the whole exponent range, and pairs with close exponents
            let x = f64::from_bits(rng.next() & !(0x7ffu64 << 52) | (rng.range(1, 2046) << 52));
            let m = if rng.chance(1, 2) { f64::from_bits(rng.next() & !(0x7ffu64 << 52) | (rng.range(1, 2046) << 52)) }
                    else { x.abs() * (rng.unit() * 4.0 + 1e-3) / 10f64.powi(rng.range(0, 20) as i32) };
            emit(&mut runner, format!("(rem {} {})", fx(x), fx(m)));
        }
    }
    // ---- 4. initialisers: sizes 0..6, dimensions 1..6 (and 0), domains, stack heights, seeds
    let seeds = if a.thorough { 6 } else { 2 };
    for h in 0..=2u64 { emit(&mut runner, format!("(init empty 0 3 {} 0)", h)); }
    for n in 0..=6u64 { for dim in 0..=6u64 { for s in 0..seeds {
        let seed = a.seed * 7919 + s * 131 + n * 17 + dim;
        let h = (n + dim + s) % 3;
        for &(lo, hi) in &DOMAINS {
            emit(&mut runner, format!("(init spread {} {} {} {} {})", n, dim, h, seed, dom_s(&[(lo, hi)])));
        }
        for dom in mixed_domains() {
            if dim >= 2 && (dim as usize) <= dom.len() {
                emit(&mut runner, format!("(init spread {} {} {} {} {})", n, dim, h, seed, dom_s(&dom[..dim as usize])));
            }
        }
        emit(&mut runner, format!("(init perm {} {} {} {})", n, dim, h, seed));
        for p in [0.0, 0.5, 1.0, 0.25] {
            emit(&mut runner, format!("(init bits {} {} {} {} {})", n, dim, h, seed, fx(p)));
        }
    } } }
    // `RandomBitstring::new_uniform`, `RandomSpread` over an integer element type
    let nat_doms: [&[(u64, u64)]; 6] = [&[(0, 1)], &[(3, 10)], &[(100, 100000)], &[(0, 1), (10, 20), (7, 8), (1000, 1000000)],
        &[(0, 6), (100, 101), (0, 6)], &[(2, 3), (2, 3), (7, 9), (2, 3), (2, 3)]];
    for n in 0..=6u64 { for dim in 0..=6u64 {
        let seed = a.seed * 104729 + n * 31 + dim;
        let h = (n + dim) % 3;
        emit(&mut runner, format!("(init bitsu {} {} {} {})", n, dim, h, seed));
        for dom in nat_doms {
            if dom.len() == 1 || (dim >= 2 && dim as usize <= dom.len()) {
                let d = &dom[..if dom.len() == 1 { 1 } else { dim as usize }];
                emit(&mut runner, format!("(init spreadn {} {} {} {} {})", n, dim, h, seed,
                    tagged("dom", d.iter().map(|&(x, y)| list([x.to_string(), y.to_string()])))));
            }
        }
    } }
    // sizes and dimensions beyond a byte (a truncating cast or a fixed-size buffer would show here)
    for (n, dim) in [(255u64, 1u64), (256, 1), (257, 2), (1000, 2), (65537, 1), (1, 64), (2, 257), (3, 1000)] {
        let seed = a.seed * 611 + n + dim;
        emit(&mut runner, format!("(init spread {} {} 1 {} {})", n, dim, seed, dom_s(&[(-5.0, -2.0)])));
        emit(&mut runner, format!("(init spreadn {} {} 1 {} (dom (3 10)))", n, dim, seed));
        emit(&mut runner, format!("(init perm {} {} 1 {})", n, dim, seed));
        emit(&mut runner, format!("(init bits {} {} 1 {} {})", n, dim, seed, fx(0.25)));
        emit(&mut runner, format!("(init bitsu {} {} 1 {})", n, dim, seed));
    }
    // probability outside [0,1]: `Bernoulli::new(p).unwrap()` — outside the documented domain
    for n in [0u64, 2] { for p in [-0.5, 1.5] {
        emit(&mut runner, format!("(init bits {} 3 0 1 {})", n, fx(p)));
    } }
    out.finish();
    runner.finish();
}
