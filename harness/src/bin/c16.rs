//! C16 — every shipped template runs to completion, performs exactly the requested iterations,
//! keeps the population stack balanced per loop pass and the population size as prescribed.
//! Also emits the serialised component tree of every template (regenerated layer).
use hcommon::templates::*;
use hcommon::*;
use mahf::state::common::Populations;
use mahf::verif::Phase;
use mahf::{Configuration, State};

/// Last path segment of a type name, generics stripped: `a::b::Foo<x::Y>` → `Foo`.
pub fn short(name: &str) -> String {
    let base = name.split('<').next().unwrap_or(name);
    base.rsplit("::").next().unwrap_or(base).to_string()
}

#[derive(Default)]
struct Rec {
    /// open frames: (name, index, height before)
    open: Vec<(String, usize, i64)>,
    /// completed steps in completion order: (name, nesting depth, delta, height after, size after)
    steps: Vec<String>,
    /// loop passes: (loop nesting depth, height before, height after, size after)
    pass_open: Vec<i64>,
    passes: Vec<String>,
    iters: Option<u32>,
    final_height: Option<usize>,
    final_size: Option<usize>,
    n_steps: usize,
    /// innermost component that was executing when the run ended (for failed runs)
    failed_in: Option<String>,
}
fn hs<P: HProblem>(state: &State<P>) -> (i64, i64) {
    match state.try_borrow::<Populations<P>>() {
        Ok(p) => (p.len() as i64, p.get_current().map(|c| c.len() as i64).unwrap_or(-1)),
        Err(_) => (-1, -1),
    }
}
impl Visitor for Rec {
    fn step<P: HProblem>(&mut self, phase: Phase, name: &'static str, index: usize, state: &State<P>, _p: &P) {
        let (h, sz) = hs(state);
        let n = short(name);
        if n == "LoopPass" {
            match phase {
                Phase::Before => self.pass_open.push(h),
                Phase::After => {
                    let hb = self.pass_open.pop().unwrap_or(-9);
                    let depth = self.pass_open.len();
                    if self.passes.len() < 400 {
                        self.passes.push(format!("({} {} {} {})", depth, hb, h, sz));
                    }
                }
            }
            return;
        }
        match phase {
            Phase::Before => self.open.push((n, index, h)),
            Phase::After => {
                if let Some((bn, _bi, hb)) = self.open.pop() {
                    self.n_steps += 1;
                    if self.steps.len() < 600 {
                        self.steps.push(format!("({} {} {})", bn, h - hb, sz));
                    }
                }
            }
        }
    }
    fn done<P: HProblem>(&mut self, _o: &Outcome, state: Option<&State<P>>, _p: &P) {
        self.failed_in = self.open.iter().rev().map(|(n, _, _)| n.clone()).find(|n| !["Block", "Loop", "Branch", "Scope"].contains(&n.as_str()))
            .or_else(|| self.open.last().map(|(n, _, _)| n.clone()));
        if let Some(s) = state {
            self.iters = s.try_get_value::<mahf::state::common::Iterations>().ok();
            let (h, sz) = hs(s);
            self.final_height = Some(h as usize);
            self.final_size = Some(sz as usize);
        }
    }
}

struct Tree;
impl ConfigUser for Tree {
    type Out = String;
    fn use_config<P: HProblem>(self, config: &Configuration<P>, _p: &P) -> String {
        sertree::to_sexp(config.heuristic()).unwrap_or_else(|e| format!("(ser-error {})", e.to_string().replace(' ', "_")))
    }
}

fn run_case(input: &Sx) -> String {
    // (run NAME variant instance iters seed (tree …)) — the tree is informational for the model
    let (_, a) = input.head().unwrap();
    let name = a[0].atom().unwrap();
    let (variant, instance, iters, seed) = (a[1].nat().unwrap() as u32, a[2].nat().unwrap() as u32, a[3].nat().unwrap() as u32, a[4].nat().unwrap());
    let r = run_template(name, variant, instance, iters, seed, EvalKind::Sequential, Rec::default());
    match r {
        Err(e) => format!("((res ctor-err) (msg {}))", e.replace(|c: char| c.is_whitespace() || c == '(' || c == ')', "_")),
        Ok((rec, outcome)) => {
            let (lo, hi) = prescribed_size(name, variant);
            list([
                format!("(res {})", outcome.tag()),
                format!("(msg {})", match &outcome { Outcome::Err(e) => e.replace(|c: char| c.is_whitespace() || c == '(' || c == ')', "_"), _ => "-".into() }),
                format!("(failed-in {})", rec.failed_in.clone().unwrap_or("-".into())),
                format!("(iters {})", rec.iters.map(|i| i.to_string()).unwrap_or("none".into())),
                format!("(height {})", rec.final_height.map(|i| i.to_string()).unwrap_or("none".into())),
                format!("(size {})", rec.final_size.map(|i| i.to_string()).unwrap_or("none".into())),
                format!("(prescribed {} {})", lo, if hi == usize::MAX { "inf".to_string() } else { hi.to_string() }),
                format!("(nsteps {})", rec.n_steps),
                tagged("passes", rec.passes),
                tagged("steps", rec.steps),
            ])
        }
    }
}

fn main() {
    quiet_panics();
    let a = args();
    let mut out = Out::new();
    if let Some(r) = a.replay {
        let sx = Sx::parse(&r).expect("bad replay input");
        let site = sx.head().and_then(|(_, a)| a.first().and_then(|x| x.atom().map(|s| s.to_string()))).unwrap_or("replay".into());
        out.case(&site, &r, &run_case(&sx));
        out.finish();
        return;
    }
    if std::env::args().any(|x| x == "--trees") {
        // regenerated layer: one line per template × variant: `(tree NAME variant TREE)`
        for name in TEMPLATES {
            for v in 0..N_VARIANTS {
                match with_template(name, v, 0, 3, Tree) {
                    Ok(t) => println!("(tree {} {} {})", name, v, t),
                    Err(e) => println!("(tree {} {} (ctor-err {}))", name, v, e.replace(|c: char| c.is_whitespace() || c == '(' || c == ')', "_")),
                }
            }
        }
        return;
    }
    let mut rng = Sm::new(a.seed);
    let seeds: u64 = if a.thorough { 40 } else { 2 };
    let iters_list: &[u32] = if a.thorough { &[0, 1, 2, 7, 25, 60] } else { &[0, 1, 7] };
    for name in TEMPLATES {
        for v in 0..N_VARIANTS {
            let tree = with_template(name, v, 0, 3, Tree).unwrap_or_else(|e| format!("(ctor-err {})", e.replace(|c: char| c.is_whitespace() || c == '(' || c == ')', "_")));
            for inst in 0..N_INSTANCES {
                if !a.thorough && inst >= 2 && v != (inst % N_VARIANTS) { continue; }
                for &iters in iters_list {
                    for _ in 0..seeds {
                        let seed = rng.next() % 1_000_000;
                        let input = format!("(run {} {} {} {} {} {})", name, v, inst, iters, seed, tree);
                        let sx = Sx::parse(&input).unwrap();
                        out.case(name, &input, &run_case(&sx));
                    }
                }
            }
        }
    }
    out.finish();
}
