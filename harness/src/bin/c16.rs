//! C16 — every shipped template runs to completion, performs exactly the requested iterations,
//! keeps the population stack balanced per loop pass and the population size as prescribed.
//! Also emits the serialised component tree of every template (regenerated layer).
use hcommon::templates::*;
use hcommon::*;
use mahf::state::common::Populations;
use mahf::verif::Phase;
use mahf::{Configuration, State};

/// Last path segment of a type name, generics stripped: `a::b::Foo<x::Y>` → `Foo`.
pub fn short(name: &str) -> String {
    let base = name.split('<').next().unwrap_or(name);
    base.rsplit("::").next().unwrap_or(base).to_string()
}

#[derive(Default)]
struct Rec {
    /// open frames: (name, index, height before)
    open: Vec<(String, usize, i64)>,
    /// completed steps in completion order: (name, nesting depth, delta, height after, size after)
    steps: Vec<String>,
    /// loop passes: (loop nesting depth, height before, height after, size after)
    pass_open: Vec<i64>,
    passes: Vec<String>,
    iters: Option<u32>,
    final_height: Option<usize>,
    final_size: Option<usize>,
    n_steps: usize,
    /// innermost component that was executing when the run ended (for failed runs)
    failed_in: Option<String>,
}
fn hs<P: HProblem>(state: &State<P>) -> (i64, i64) {
    match state.try_borrow::<Populations<P>>() {
        Ok(p) => (p.len() as i64, p.get_current().map(|c| c.len() as i64).unwrap_or(-1)),
        Err(_) => (-1, -1),
    }
}
impl Visitor for Rec {
    fn step<P: HProblem>(&mut self, phase: Phase, name: &'static str, index: usize, state: &State<P>, _p: &P) {
        let (h, sz) = hs(state);
        let n = short(name);
        if n == "LoopPass" {
            match phase {
                Phase::Before => self.pass_open.push(h),
                Phase::After => {
                    let hb = self.pass_open.pop().unwrap_or(-9);
                    let depth = self.pass_open.len();
                    if self.passes.len() < 400 {
                        self.passes.push(format!("({} {} {} {})", depth, hb, h, sz));
                    }
                }
            }
            return;
        }
        match phase {
            Phase::Before => self.open.push((n, index, h)),
            Phase::After => {
                if let Some((bn, _bi, hb)) = self.open.pop() {
                    self.n_steps += 1;
                    if self.steps.len() < 600 {
                        self.steps.push(format!("({} {} {})", bn, h - hb, sz));
                    }
                }
            }
        }
    }
    fn done<P: HProblem>(&mut self, _o: &Outcome, state: Option<&State<P>>, _p: &P) {
        self.failed_in = self.open.iter().rev().map(|(n, _, _)| n.clone()).find(|n| !["Block", "Loop", "Branch", "Scope"].contains(&n.as_str()))
            .or_else(|| self.open.last().map(|(n, _, _)| n.clone()));
        if let Some(s) = state {
            self.iters = s.try_get_value::<mahf::state::common::Iterations>().ok();
            let (h, sz) = hs(s);
            self.final_height = Some(h as usize);
            self.final_size = Some(sz as usize);
        }
    }
}

/// Audit of the component classes used by the C06/C07 template analyses (`Tpl.callsObjective`,
/// `Tpl.eclass`): per executed leaf, how many objective calls it made, by how much the visible
/// evaluation counter moved, whether any population changed (solutions / objective flags) and
/// whether the best-so-far record changed.
#[derive(Default)]
struct Audit {
    open: Vec<(String, u64, i64, u64, u64, Option<u64>)>,
    steps: Vec<String>,
}
fn digest<P: HProblem>(state: &State<P>) -> (u64, u64) {
    // (digest of all solutions in stack order, digest of solutions + objective bits)
    let mut a: u64 = 0xcbf29ce484222325;
    let mut b: u64 = 0x84222325cbf29ce4;
    let mut mix = |h: &mut u64, s: &str| { for c in s.bytes() { *h ^= c as u64; *h = h.wrapping_mul(0x100000001b3); } };
    if let Ok(p) = state.try_borrow::<Populations<P>>() {
        for d in 0..p.len() {
            mix(&mut a, "|"); mix(&mut b, "|");
            for i in p.peek(d) {
                let e = P::enc(i.solution());
                mix(&mut a, &e); mix(&mut b, &e);
                match i.get_objective() { Some(o) => mix(&mut b, &fx(mahf::SingleObjective::value(o))), None => mix(&mut b, "u") }
            }
        }
    }
    (a, b)
}
impl Visitor for Audit {
    fn step<P: HProblem>(&mut self, phase: Phase, name: &'static str, _index: usize, state: &State<P>, p: &P) {
        let n = short(name);
        if n == "LoopPass" { return; }
        let calls = p.probe().count();
        let evals = state.try_get_value::<mahf::state::common::Evaluations>().map(|v| v as i64).unwrap_or(-1);
        let (ds, df) = digest(state);
        let best = state.best_objective_value().map(|o| o.value().to_bits());
        match phase {
            Phase::Before => self.open.push((n, calls, evals, ds, df, best)),
            Phase::After => {
                if let Some((bn, c0, e0, s0, f0, b0)) = self.open.pop() {
                    if ["Block", "Loop", "Branch", "Scope"].contains(&bn.as_str()) { return; }
                    if self.steps.len() < 500 {
                        self.steps.push(format!("({} {} {} {} {} {})", bn, calls - c0, evals - e0, b(ds != s0), b(df != f0), b(best != b0)));
                    }
                }
            }
        }
    }
    fn done<P: HProblem>(&mut self, _o: &Outcome, _s: Option<&State<P>>, _p: &P) {}
}

struct Tree;
impl ConfigUser for Tree {
    type Out = String;
    fn use_config<P: HProblem>(self, config: &Configuration<P>, _p: &P) -> String {
        sertree::to_sexp(config.heuristic()).unwrap_or_else(|e| format!("(ser-error {})", e.to_string().replace(' ', "_")))
    }
}

fn run_case(input: &Sx) -> String {
    // (run NAME variant instance iters seed (tree …)) — the tree is informational for the model
    let (head, a) = input.head().unwrap();
    if head == "audit" {
        let name = a[0].atom().unwrap();
        let (variant, instance, iters, seed) = (a[1].nat().unwrap() as u32, a[2].nat().unwrap() as u32, a[3].nat().unwrap() as u32, a[4].nat().unwrap());
        return match run_template(name, variant, instance, iters, seed, EvalKind::Sequential, Audit::default()) {
            Err(_) => "((res ctor-err) (steps))".to_string(),
            Ok((au, outcome)) => list([format!("(res {})", outcome.tag()), tagged("steps", au.steps)]),
        };
    }
    let name = a[0].atom().unwrap();
    let (variant, instance, iters, seed) = (a[1].nat().unwrap() as u32, a[2].nat().unwrap() as u32, a[3].nat().unwrap() as u32, a[4].nat().unwrap());
    let r = run_template(name, variant, instance, iters, seed, EvalKind::Sequential, Rec::default());
    match r {
        Err(e) => format!("((res ctor-err) (msg {}))", e.replace(|c: char| c.is_whitespace() || c == '(' || c == ')', "_")),
        Ok((rec, outcome)) => {
            let (lo, hi) = prescribed_size(name, variant);
            list([
                format!("(res {})", outcome.tag()),
                format!("(msg {})", match &outcome { Outcome::Err(e) => e.replace(|c: char| c.is_whitespace() || c == '(' || c == ')', "_"), _ => "-".into() }),
                format!("(failed-in {})", rec.failed_in.clone().unwrap_or("-".into())),
                format!("(iters {})", rec.iters.map(|i| i.to_string()).unwrap_or("none".into())),
                format!("(height {})", rec.final_height.map(|i| i.to_string()).unwrap_or("none".into())),
                format!("(size {})", rec.final_size.map(|i| i.to_string()).unwrap_or("none".into())),
                format!("(prescribed {} {})", lo, if hi == usize::MAX { "inf".to_string() } else { hi.to_string() }),
                format!("(nsteps {})", rec.n_steps),
                tagged("passes", rec.passes),
                tagged("steps", rec.steps),
            ])
        }
    }
}

fn main() {
    quiet_panics();
    let a = args();
    let mut out = Out::new();
    if let Some(r) = a.replay {
        let sx = Sx::parse(&r).expect("bad replay input");
        let site = sx.head().and_then(|(_, a)| a.first().and_then(|x| x.atom().map(|s| s.to_string()))).unwrap_or("replay".into());
        out.case(&site, &r, &run_case(&sx));
        out.finish();
        return;
    }
    if std::env::args().any(|x| x == "--trees") {
        // regenerated layer: one line per template × variant: `(tree NAME variant TREE)`
        for name in TEMPLATES {
            for v in 0..N_VARIANTS {
                match with_template(name, v, 0, 3, Tree) {
                    Ok(t) => println!("(tree {} {} {})", name, v, t),
                    Err(e) => println!("(tree {} {} (ctor-err {}))", name, v, e.replace(|c: char| c.is_whitespace() || c == '(' || c == ')', "_")),
                }
            }
        }
        return;
    }
    if std::env::args().any(|x| x == "--audit") {
        // K-only stream for the C06/C07 template analyses
        let mut rng = Sm::new(a.seed ^ 0xA0D17);
        let reps = if a.thorough { 6 } else { 1 };
        for name in TEMPLATES {
            for v in 0..N_VARIANTS {
                for inst in 0..N_INSTANCES {
                    for _ in 0..reps {
                        let seed = rng.next() % 1_000_000;
                        let input = format!("(audit {} {} {} {} {})", name, v, inst, if a.thorough { 6 } else { 3 }, seed);
                        let sx = Sx::parse(&input).unwrap();
                        out.case(&format!("audit:{}", name), &input, &run_case(&sx));
                    }
                }
            }
        }
        out.finish();
        return;
    }
    let mut rng = Sm::new(a.seed);
    let seeds: u64 = if a.thorough { 40 } else { 2 };
    let iters_list: &[u32] = if a.thorough { &[0, 1, 2, 7, 25, 60] } else { &[0, 1, 7] };
    for name in TEMPLATES {
        for v in 0..N_VARIANTS {
            let tree = with_template(name, v, 0, 3, Tree).unwrap_or_else(|e| format!("(ctor-err {})", e.replace(|c: char| c.is_whitespace() || c == '(' || c == ')', "_")));
            for inst in 0..N_INSTANCES {
                if !a.thorough && inst >= 2 && v != (inst % N_VARIANTS) { continue; }
                for &iters in iters_list {
                    for _ in 0..seeds {
                        let seed = rng.next() % 1_000_000;
                        let input = format!("(run {} {} {} {} {} {})", name, v, inst, iters, seed, tree);
                        let sx = Sx::parse(&input).unwrap();
                        out.case(name, &input, &run_case(&sx));
                    }
                }
            }
        }
    }
    out.finish();
}
