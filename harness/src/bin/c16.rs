//! C16 — every shipped template runs to completion, performs exactly the requested iterations,
//! keeps the population stack balanced per loop pass and the population size as prescribed.
//! Also emits the serialised component tree of every template (regenerated layer).
use hcommon::templates::*;
use hcommon::*;
use mahf::state::common::Populations;
use mahf::verif::Phase;
use mahf::{Configuration, State};

/// Last path segment of a type name, generics stripped: `a::b::Foo<x::Y>` → `Foo`.
pub fn short(name: &str) -> String {
    let base = name.split('<').next().unwrap_or(name);
    base.rsplit("::").next().unwrap_or(base).to_string()
}

#[derive(Default)]
struct Rec {
    /// open frames: (name, index, height before, sizes of the top three populations before (-1 = absent))
    open: Vec<(String, usize, i64, [i64; 3])>,
    /// completed steps in completion order: (name, height delta, size after, top three sizes before)
    steps: Vec<String>,
    /// loop passes: (loop nesting depth, height before, height after, size after)
    pass_open: Vec<i64>,
    passes: Vec<String>,
    iters: Option<u32>,
    final_height: Option<usize>,
    final_size: Option<usize>,
    n_steps: usize,
    /// innermost component that was executing when the run ended (for failed runs)
    failed_in: Option<String>,
}
fn hs<P: HProblem>(state: &State<P>) -> (i64, i64) {
    match state.try_borrow::<Populations<P>>() {
        Ok(p) => (p.len() as i64, p.get_current().map(|c| c.len() as i64).unwrap_or(-1)),
        Err(_) => (-1, -1),
    }
}
/// Sizes of the three top-most populations (top first), -1 where the stack is shallower.
fn top3<P: HProblem>(state: &State<P>) -> [i64; 3] {
    let mut r = [-1i64; 3];
    if let Ok(p) = state.try_borrow::<Populations<P>>() {
        for d in 0..3.min(p.len()) {
            r[d] = p.peek(d).len() as i64;
        }
    }
    r
}
impl Visitor for Rec {
    fn step<P: HProblem>(&mut self, phase: Phase, name: &'static str, index: usize, state: &State<P>, _p: &P) {
        let (h, sz) = hs(state);
        let n = short(name);
        if n == "LoopPass" {
            match phase {
                Phase::Before => self.pass_open.push(h),
                Phase::After => {
                    let hb = self.pass_open.pop().unwrap_or(-9);
                    let depth = self.pass_open.len();
                    if self.passes.len() < 400 {
                        self.passes.push(format!("({} {} {} {})", depth, hb, h, sz));
                    }
                }
            }
            return;
        }
        match phase {
            Phase::Before => self.open.push((n, index, h, top3(state))),
            Phase::After => {
                if let Some((bn, _bi, hb, b3)) = self.open.pop() {
                    self.n_steps += 1;
                    if self.steps.len() < 600 {
                        self.steps.push(format!("({} {} {} {} {} {})", bn, h - hb, sz, b3[0], b3[1], b3[2]));
                    }
                }
            }
        }
    }
    fn done<P: HProblem>(&mut self, _o: &Outcome, state: Option<&State<P>>, _p: &P) {
        self.failed_in = self.open.iter().rev().map(|(n, _, _, _)| n.clone()).find(|n| !["Block", "Loop", "Branch", "Scope"].contains(&n.as_str()))
            .or_else(|| self.open.last().map(|(n, _, _, _)| n.clone()));
        if let Some(s) = state {
            self.iters = s.try_get_value::<mahf::state::common::Iterations>().ok();
            let (h, sz) = hs(s);
            self.final_height = Some(h as usize);
            self.final_size = Some(sz as usize);
        }
    }
}

/// Audit of the component classes used by the C06/C07 template analyses (`Tpl.callsObjective`,
/// `Tpl.eclass`): per executed leaf, how many objective calls it made, by how much the visible
/// evaluation counter moved, whether any population changed (solutions / objective flags) and
/// whether the best-so-far record changed.
#[derive(Default)]
struct Audit {
    open: Vec<(String, u64, i64, u64, u64, Option<u64>)>,
    steps: Vec<String>,
}
fn digest<P: HProblem>(state: &State<P>) -> (u64, u64) {
    // (digest of all solutions in stack order, digest of solutions + objective bits)
    let mut a: u64 = 0xcbf29ce484222325;
    let mut b: u64 = 0x84222325cbf29ce4;
    let mut mix = |h: &mut u64, s: &str| { for c in s.bytes() { *h ^= c as u64; *h = h.wrapping_mul(0x100000001b3); } };
    if let Ok(p) = state.try_borrow::<Populations<P>>() {
        for d in 0..p.len() {
            mix(&mut a, "|"); mix(&mut b, "|");
            for i in p.peek(d) {
                let e = P::enc(i.solution());
                mix(&mut a, &e); mix(&mut b, &e);
                match i.get_objective() { Some(o) => mix(&mut b, &fx(mahf::SingleObjective::value(o))), None => mix(&mut b, "u") }
            }
        }
    }
    (a, b)
}
impl Visitor for Audit {
    fn step<P: HProblem>(&mut self, phase: Phase, name: &'static str, _index: usize, state: &State<P>, p: &P) {
        let n = short(name);
        if n == "LoopPass" { return; }
        let calls = p.probe().count();
        let evals = state.try_get_value::<mahf::state::common::Evaluations>().map(|v| v as i64).unwrap_or(-1);
        let (ds, df) = digest(state);
        let best = state.best_objective_value().map(|o| o.value().to_bits());
        match phase {
            Phase::Before => self.open.push((n, calls, evals, ds, df, best)),
            Phase::After => {
                if let Some((bn, c0, e0, s0, f0, b0)) = self.open.pop() {
                    if ["Block", "Loop", "Branch", "Scope"].contains(&bn.as_str()) { return; }
                    if self.steps.len() < 500 {
                        self.steps.push(format!("({} {} {} {} {} {})", bn, calls - c0, evals - e0, b(ds != s0), b(df != f0), b(best != b0)));
                    }
                }
            }
        }
    }
    fn done<P: HProblem>(&mut self, _o: &Outcome, _s: Option<&State<P>>, _p: &P) {}
}


// ---------------------------------------------------------------------------------------------
// Size probes: K-validation of the size transformers (`Tpl.opOf`) at component level. Each case runs
// ONE real component on a prepared stack of evaluated populations of the given sizes (odd sizes,
// empty populations, unequal operands — combinations the template runs rarely produce) and reports
// the sizes afterwards. The component travels as its own serialised form, so the driver extracts the
// size parameters with the same translator that reads the template trees.
//   input  `(sizeprobe COMPONENT seed (sizes top second third))`
//   output `((res ok|err|panic) (sizes …))`
// ---------------------------------------------------------------------------------------------
use hcommon::problems::Sphere;
use mahf::components::{mutation, recombination, replacement, selection, utils};
use mahf::{Component, Individual, Random, SingleObjective};

type BC = Box<dyn Component<Sphere>>;

/// The probed components, by index (the index is not part of the case: the serialised form is).
fn probe_components() -> Vec<BC> {
    let mut v: Vec<BC> = Vec::new();
    v.push(selection::All::new());
    v.push(selection::None::new());
    for k in [0u32, 1, 3, 4] {
        v.push(selection::CloneSingle::new(k));
        v.push(selection::FullyRandom::new(k));
        v.push(selection::RandomWithoutRepetition::new(k));
        v.push(selection::RouletteWheel::new(k, 1.0));
        v.push(selection::StochasticUniversalSampling::new(k, 1.0));
        v.push(selection::Tournament::new(k, 2));
        v.push(selection::LinearRank::new(k));
        if let Ok(c) = selection::ExponentialRank::new(k, 0.5) { v.push(c); }
        v.push(replacement::MuPlusLambda::new(k));
        v.push(replacement::Generational::new(k));
        v.push(replacement::RandomReplacement::new(k));
    }
    for y in [1u32, 2] {
        if let Ok(c) = selection::de::DERand::new(y) { v.push(c); }
        if let Ok(c) = selection::de::DEBest::new(y) { v.push(c); }
        if let Ok(c) = selection::de::DECurrentToBest::new(y) { v.push(c); }
        if let Ok(c) = mutation::de::DEMutation::new(y, 0.5) { v.push(c); }
    }
    for (mn, mx) in [(0u32, 3u32), (1, 1), (2, 5), (0, 0)] {
        v.push(selection::iwo::DeterministicFitnessProportional::new(mn, mx));
    }
    v.push(replacement::DiscardOffspring::new());
    v.push(replacement::Merge::new());
    v.push(replacement::KeepBetterAtIndex::new());
    v.push(replacement::sa::ExponentialAnnealingAcceptance::new(1.0));
    for pc in [0.0f64, 0.5, 1.0] {
        for both in [true, false] {
            v.push(recombination::UniformCrossover::new(pc, both));
            v.push(recombination::NPointCrossover::new(1, pc, both));
            v.push(recombination::ArithmeticCrossover::new(pc, both));
        }
    }
    v.push(recombination::de::DEBinomialCrossover::new(0.5));
    v.push(recombination::de::DEExponentialCrossover::new(0.5));
    v.push(utils::populations::DuplicatePopulation::new());
    v.push(utils::populations::ClearPopulation::new());
    v.push(utils::populations::InterleavePopulations::new());
    v.push(mutation::NormalMutation::new(0.1, 0.5));
    v
}

fn probe_pop(rng: &mut Sm, n: usize, problem: &Sphere) -> Vec<Individual<Sphere>> {
    (0..n).map(|_| {
        let x: Vec<f64> = (0..problem.dim).map(|_| problem.lo + (rng.next() % 10_000) as f64 / 10_000.0 * (problem.hi - problem.lo)).collect();
        let o = problem.f(&x) + 0.25;
        Individual::new(x, SingleObjective::try_from(o).unwrap())
    }).collect()
}

fn run_probe(c: &BC, seed: u64, sizes: &[usize]) -> String {
    let problem = Sphere::new(3, -2.0, 2.0, 0.0);
    let mut rng = Sm::new(seed ^ 0x517E);
    let mut state: State<Sphere> = State::new();
    state.insert(Populations::<Sphere>::new());
    state.insert(Random::new(seed));
    for &n in sizes.iter().rev() {
        let pop = probe_pop(&mut rng, n, &problem);
        state.populations_mut().push(pop);
    }
    let res = match catch(|| c.init(&problem, &mut state).and_then(|_| c.execute(&problem, &mut state))) {
        Some(Ok(())) => "ok",
        Some(Err(_)) => "err",
        None => "panic",
    };
    let after: Vec<String> = match (res, state.try_borrow::<Populations<Sphere>>()) {
        ("ok", Ok(p)) => (0..p.len()).map(|d| p.peek(d).len().to_string()).collect(),
        _ => vec![],
    };
    list([format!("(res {})", res), tagged("sizes", after)])
}

fn probe_case(input: &Sx) -> String {
    // the component is looked up by its serialised form
    let (_, a) = input.head().unwrap();
    let want = a[0].render();
    let seed = a[1].nat().unwrap();
    let sizes: Vec<usize> = a[2].head().unwrap().1.iter().map(|x| x.nat().unwrap() as usize).collect();
    for c in probe_components() {
        if sertree::to_sexp(c.as_ref()).map(|s| Sx::parse(&s).map(|x| x.render()) == Some(want.clone())).unwrap_or(false) {
            return run_probe(&c, seed, &sizes);
        }
    }
    "((res unknown-component) (sizes))".to_string()
}

fn emit_probes(out: &mut Out, seed: u64, thorough: bool) {
    let mut rng = Sm::new(seed ^ 0x51AE);
    let stacks: Vec<Vec<usize>> = {
        let mut v: Vec<Vec<usize>> = vec![vec![], vec![0], vec![1], vec![2], vec![3], vec![5], vec![6], vec![7], vec![9], vec![15]];
        for a in [0usize, 1, 2, 3, 4, 5, 6, 9] {
            for b in [0usize, 1, 3, 4, 6] {
                v.push(vec![a, b]);
            }
            v.push(vec![a, a, 2]);
        }
        v
    };
    let reps = if thorough { 4 } else { 1 };
    for c in probe_components() {
        let ser = match sertree::to_sexp(c.as_ref()) { Ok(s) => s, Err(_) => continue };
        let site = format!("size:{}", ser.split(|ch: char| ch == ' ' || ch == ')').nth(1).unwrap_or("?"));
        for st in &stacks {
            for _ in 0..reps {
                let s = rng.next() % 1_000_000;
                let input = format!("(sizeprobe {} {} (sizes {}))", ser, s, st.iter().map(|n| n.to_string()).collect::<Vec<_>>().join(" "));
                let sx = Sx::parse(&input).unwrap();
                out.case(&site, &input, &probe_case(&sx));
            }
        }
    }
}

struct Tree;
impl ConfigUser for Tree {
    type Out = String;
    fn use_config<P: HProblem>(self, config: &Configuration<P>, _p: &P) -> String {
        sertree::to_sexp(config.heuristic()).unwrap_or_else(|e| format!("(ser-error {})", e.to_string().replace(' ', "_")))
    }
}

fn run_case(input: &Sx) -> String {
    // (run NAME variant instance iters seed (tree …)) — the tree is informational for the model
    let (head, a) = input.head().unwrap();
    if head == "sizeprobe" {
        return probe_case(input);
    }
    if head == "audit" {
        let name = a[0].atom().unwrap();
        let (variant, instance, iters, seed) = (a[1].nat().unwrap() as u32, a[2].nat().unwrap() as u32, a[3].nat().unwrap() as u32, a[4].nat().unwrap());
        return match run_template(name, variant, instance, iters, seed, EvalKind::Sequential, Audit::default()) {
            Err(_) => "((res ctor-err) (steps))".to_string(),
            Ok((au, outcome)) => list([format!("(res {})", outcome.tag()), tagged("steps", au.steps)]),
        };
    }
    let name = a[0].atom().unwrap();
    let (variant, instance, iters, seed) = (a[1].nat().unwrap() as u32, a[2].nat().unwrap() as u32, a[3].nat().unwrap() as u32, a[4].nat().unwrap());
    let r = run_template(name, variant, instance, iters, seed, EvalKind::Sequential, Rec::default());
    match r {
        Err(e) => format!("((res ctor-err) (msg {}))", e.replace(|c: char| c.is_whitespace() || c == '(' || c == ')', "_")),
        Ok((rec, outcome)) => {
            let (lo, hi) = prescribed_size(name, variant);
            list([
                format!("(res {})", outcome.tag()),
                format!("(msg {})", match &outcome { Outcome::Err(e) => e.replace(|c: char| c.is_whitespace() || c == '(' || c == ')', "_"), _ => "-".into() }),
                format!("(failed-in {})", rec.failed_in.clone().unwrap_or("-".into())),
                format!("(iters {})", rec.iters.map(|i| i.to_string()).unwrap_or("none".into())),
                format!("(height {})", rec.final_height.map(|i| i.to_string()).unwrap_or("none".into())),
                format!("(size {})", rec.final_size.map(|i| i.to_string()).unwrap_or("none".into())),
                format!("(prescribed {} {})", lo, if hi == usize::MAX { "inf".to_string() } else { hi.to_string() }),
                format!("(nsteps {})", rec.n_steps),
                tagged("passes", rec.passes),
                tagged("steps", rec.steps),
            ])
        }
    }
}

fn main() {
    quiet_panics();
    let a = args();
    let mut out = Out::new();
    if let Some(r) = a.replay {
        let sx = Sx::parse(&r).expect("bad replay input");
        let site = sx.head().and_then(|(_, a)| a.first().and_then(|x| x.atom().map(|s| s.to_string()))).unwrap_or("replay".into());
        out.case(&site, &r, &run_case(&sx));
        out.finish();
        return;
    }
    if std::env::args().any(|x| x == "--trees") {
        // regenerated layer: one line per template × variant: `(tree NAME variant TREE)`
        for name in TEMPLATES {
            for v in 0..N_VARIANTS {
                match with_template(name, v, 0, 3, Tree) {
                    Ok(t) => println!("(tree {} {} {})", name, v, t),
                    Err(e) => println!("(tree {} {} (ctor-err {}))", name, v, e.replace(|c: char| c.is_whitespace() || c == '(' || c == ')', "_")),
                }
            }
        }
        return;
    }
    if std::env::args().any(|x| x == "--prescribed") {
        // the bounds the per-template size theorems are stated with: `(prescribed NAME variant lo hi|inf)`
        for name in TEMPLATES {
            for v in 0..N_VARIANTS {
                let (lo, hi) = prescribed_size(name, v);
                println!("(prescribed {} {} {} {})", name, v, lo, if hi == usize::MAX { "inf".to_string() } else { hi.to_string() });
            }
        }
        return;
    }
    if std::env::args().any(|x| x == "--audit") {
        // K-only stream for the C06/C07 template analyses
        let mut rng = Sm::new(a.seed ^ 0xA0D17);
        let reps = if a.thorough { 6 } else { 1 };
        for name in TEMPLATES {
            for v in 0..N_VARIANTS {
                for inst in 0..N_INSTANCES {
                    for _ in 0..reps {
                        let seed = rng.next() % 1_000_000;
                        let input = format!("(audit {} {} {} {} {})", name, v, inst, if a.thorough { 6 } else { 3 }, seed);
                        let sx = Sx::parse(&input).unwrap();
                        out.case(&format!("audit:{}", name), &input, &run_case(&sx));
                    }
                }
            }
        }
        out.finish();
        return;
    }
    let mut rng = Sm::new(a.seed);
    let seeds: u64 = if a.thorough { 40 } else { 2 };
    let iters_list: &[u32] = if a.thorough { &[0, 1, 2, 7, 25, 60] } else { &[0, 1, 7] };
    for name in TEMPLATES {
        for v in 0..N_VARIANTS {
            let tree = with_template(name, v, 0, 3, Tree).unwrap_or_else(|e| format!("(ctor-err {})", e.replace(|c: char| c.is_whitespace() || c == '(' || c == ')', "_")));
            for inst in 0..N_INSTANCES {
                if !a.thorough && inst >= 2 && v != (inst % N_VARIANTS) { continue; }
                for &iters in iters_list {
                    for _ in 0..seeds {
                        let seed = rng.next() % 1_000_000;
                        let input = format!("(run {} {} {} {} {} {})", name, v, inst, iters, seed, tree);
                        let sx = Sx::parse(&input).unwrap();
                        out.case(name, &input, &run_case(&sx));
                    }
                }
            }
        }
    }
    emit_probes(&mut out, a.seed, a.thorough);
    out.finish();
}
