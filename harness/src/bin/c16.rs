//! C16 — every shipped template runs to completion, performs exactly the requested iterations,
//! keeps the population stack balanced per loop pass and the population size as prescribed.
//! Also emits the serialised component tree of every template (regenerated layer).
use hcommon::templates::*;
use hcommon::*;
use mahf::state::common::Populations;
use mahf::verif::Phase;
use mahf::{Configuration, State};

/// Last path segment of a type name, generics stripped: `a::b::Foo<x::Y>` → `Foo`.
pub fn short(name: &str) -> String {
    let base = name.split('<').next().unwrap_or(name);
    base.rsplit("::").next().unwrap_or(base).to_string()
}

#[derive(Default)]
struct Rec {
    /// open frames: (name, index, height before, sizes of the top three populations before (-1 = absent), visible Iterations before)
    open: Vec<(String, usize, i64, [i64; 3], i64)>,
    /// completed steps in completion order: (name, height delta, size after, top three sizes before)
    steps: Vec<String>,
    /// loop passes: (loop nesting depth, height before, height after, size after)
    pass_open: Vec<i64>,
    passes: Vec<String>,
    iters: Option<u32>,
    final_height: Option<usize>,
    final_size: Option<usize>,
    n_steps: usize,
    /// innermost component that was executing when the run ended (for failed runs)
    failed_in: Option<String>,
    /// completed loop passes per loop-nesting depth (not capped)
    pcount: Vec<u64>,
    /// executed leaf components across which the visible `Iterations` value changed (the loop model assumes none)
    itouch: u64,
    /// `Evaluations` at the start of every outermost pass (first 400), and at the end of the run
    evals_before: Vec<i64>,
    evals_final: i64,
    /// open executions of a `Loop` component: (loop passes around it, passes it has completed)
    loop_open: Vec<(usize, u64)>,
    /// completed executions of a `Loop` component in order of completion (first 400):
    /// (loop passes around it, passes it made, visible Iterations and Evaluations when it returned)
    lruns: Vec<String>,
    n_lruns: u64,
}
fn iters_of<P: HProblem>(state: &State<P>) -> i64 {
    state.try_get_value::<mahf::state::common::Iterations>().map(|v| v as i64).unwrap_or(-1)
}
fn evals_of<P: HProblem>(state: &State<P>) -> i64 {
    state.try_get_value::<mahf::state::common::Evaluations>().map(|v| v as i64).unwrap_or(-1)
}
fn hs<P: HProblem>(state: &State<P>) -> (i64, i64) {
    match state.try_borrow::<Populations<P>>() {
        Ok(p) => (p.len() as i64, p.get_current().map(|c| c.len() as i64).unwrap_or(-1)),
        Err(_) => (-1, -1),
    }
}
/// Sizes of the three top-most populations (top first), -1 where the stack is shallower.
fn top3<P: HProblem>(state: &State<P>) -> [i64; 3] {
    let mut r = [-1i64; 3];
    if let Ok(p) = state.try_borrow::<Populations<P>>() {
        for d in 0..3.min(p.len()) {
            r[d] = p.peek(d).len() as i64;
        }
    }
    r
}
impl Visitor for Rec {
    fn step<P: HProblem>(&mut self, phase: Phase, name: &'static str, index: usize, state: &State<P>, _p: &P) {
        let (h, sz) = hs(state);
        let n = short(name);
        if n == "LoopPass" {
            match phase {
                Phase::Before => {
                    if self.pass_open.is_empty() && self.evals_before.len() < 400 {
                        self.evals_before.push(evals_of(state));
                    }
                    self.pass_open.push(h)
                }
                Phase::After => {
                    let hb = self.pass_open.pop().unwrap_or(-9);
                    let depth = self.pass_open.len();
                    if self.pcount.len() <= depth { self.pcount.resize(depth + 1, 0); }
                    self.pcount[depth] += 1;
                    if let Some(top) = self.loop_open.last_mut() { top.1 += 1; }
                    if self.passes.len() < 400 {
                        self.passes.push(format!("({} {} {} {})", depth, hb, h, sz));
                    }
                }
            }
            return;
        }
        match phase {
            Phase::Before => {
                if n == "Loop" { self.loop_open.push((self.pass_open.len(), 0)); }
                self.open.push((n, index, h, top3(state), iters_of(state)))
            }
            Phase::After => {
                if let Some((bn, _bi, hb, b3, ib)) = self.open.pop() {
                    self.n_steps += 1;
                    if bn == "Loop" {
                        if let Some((d, p)) = self.loop_open.pop() {
                            self.n_lruns += 1;
                            if self.lruns.len() < 400 {
                                self.lruns.push(format!("({} {} {} {})", d, p, iters_of(state), evals_of(state)));
                            }
                        }
                    }
                    if !["Block", "Loop", "Branch", "Scope"].contains(&bn.as_str()) && ib != iters_of(state) {
                        self.itouch += 1;
                    }
                    if self.steps.len() < 600 {
                        self.steps.push(format!("({} {} {} {} {} {})", bn, h - hb, sz, b3[0], b3[1], b3[2]));
                    }
                }
            }
        }
    }
    fn done<P: HProblem>(&mut self, _o: &Outcome, state: Option<&State<P>>, _p: &P) {
        self.failed_in = self.open.iter().rev().map(|(n, _, _, _, _)| n.clone()).find(|n| !["Block", "Loop", "Branch", "Scope"].contains(&n.as_str()))
            .or_else(|| self.open.last().map(|(n, _, _, _, _)| n.clone()));
        if let Some(s) = state {
            self.iters = s.try_get_value::<mahf::state::common::Iterations>().ok();
            self.evals_final = evals_of(s);
            let (h, sz) = hs(s);
            self.final_height = Some(h as usize);
            self.final_size = Some(sz as usize);
        }
    }
}

impl Rec {
    /// What one `Configuration::run` was observed to do; clears the per-run part of the record (the step and pass
    /// logs go on).
    fn take_run(&mut self) -> Vec<String> {
        let v = vec![
            format!("(iters {})", self.iters.map(|i| i.to_string()).unwrap_or("none".into())),
            format!("(height {})", self.final_height.map(|i| i.to_string()).unwrap_or("none".into())),
            format!("(size {})", self.final_size.map(|i| i.to_string()).unwrap_or("none".into())),
            tagged("pcount", self.pcount.iter().map(|c| c.to_string())),
            tagged("evals", self.evals_before.iter().map(|c| c.to_string())),
            format!("(evals-final {})", self.evals_final),
            format!("(nlruns {})", self.n_lruns),
            tagged("lruns", std::mem::take(&mut self.lruns)),
        ];
        self.iters = None;
        self.final_height = None;
        self.final_size = None;
        self.pcount.clear();
        self.evals_before.clear();
        self.evals_final = -1;
        self.n_lruns = 0;
        self.loop_open.clear();
        self.pass_open.clear();
        self.open.clear();
        v
    }
}

/// Audit of the component classes used by the C06/C07 template analyses (`Tpl.callsObjective`,
/// `Tpl.eclass`): per executed leaf, how many objective calls it made, by how much the visible
/// evaluation counter moved, whether any population changed (solutions / objective flags) and
/// whether the best-so-far record changed.
#[derive(Default)]
struct Audit {
    open: Vec<(String, u64, i64, u64, u64, Option<u64>)>,
    steps: Vec<String>,
}
fn digest<P: HProblem>(state: &State<P>) -> (u64, u64) {
    // (digest of all solutions in stack order, digest of solutions + objective bits)
    let mut a: u64 = 0xcbf29ce484222325;
    let mut b: u64 = 0x84222325cbf29ce4;
    let mut mix = |h: &mut u64, s: &str| { for c in s.bytes() { *h ^= c as u64; *h = h.wrapping_mul(0x100000001b3); } };
    if let Ok(p) = state.try_borrow::<Populations<P>>() {
        for d in 0..p.len() {
            mix(&mut a, "|"); mix(&mut b, "|");
            for i in p.peek(d) {
                let e = P::enc(i.solution());
                mix(&mut a, &e); mix(&mut b, &e);
                match i.get_objective() { Some(o) => mix(&mut b, &fx(mahf::SingleObjective::value(o))), None => mix(&mut b, "u") }
            }
        }
    }
    (a, b)
}
impl Visitor for Audit {
    fn step<P: HProblem>(&mut self, phase: Phase, name: &'static str, _index: usize, state: &State<P>, p: &P) {
        let n = short(name);
        if n == "LoopPass" { return; }
        let calls = p.probe().count();
        let evals = state.try_get_value::<mahf::state::common::Evaluations>().map(|v| v as i64).unwrap_or(-1);
        let (ds, df) = digest(state);
        let best = state.best_objective_value().map(|o| o.value().to_bits());
        match phase {
            Phase::Before => self.open.push((n, calls, evals, ds, df, best)),
            Phase::After => {
                if let Some((bn, c0, e0, s0, f0, b0)) = self.open.pop() {
                    if ["Block", "Loop", "Branch", "Scope"].contains(&bn.as_str()) { return; }
                    if self.steps.len() < 500 {
                        self.steps.push(format!("({} {} {} {} {} {})", bn, calls - c0, evals - e0, b(ds != s0), b(df != f0), b(best != b0)));
                    }
                }
            }
        }
    }
    fn done<P: HProblem>(&mut self, _o: &Outcome, _s: Option<&State<P>>, _p: &P) {}
}


// ---------------------------------------------------------------------------------------------
// Size probes: K-validation of the size transformers (`Tpl.opOf`) at component level. Each case runs
// ONE real component on a prepared stack of evaluated populations of the given sizes (odd sizes,
// empty populations, unequal operands — combinations the template runs rarely produce) and reports
// the sizes afterwards. The component travels as its own serialised form, so the driver extracts the
// size parameters with the same translator that reads the template trees.
//   input  `(sizeprobe COMPONENT seed (sizes top second third))`
//   output `((res ok|err|panic) (sizes …))`
// ---------------------------------------------------------------------------------------------
use hcommon::problems::Sphere;
use mahf::components::{mutation, recombination, replacement, selection, utils};
use mahf::{Component, Individual, Random, SingleObjective};

type BC = Box<dyn Component<Sphere>>;

/// The probed components, by index (the index is not part of the case: the serialised form is).
fn probe_components() -> Vec<BC> {
    let mut v: Vec<BC> = Vec::new();
    v.push(selection::All::new());
    v.push(selection::None::new());
    for k in [0u32, 1, 3, 4] {
        v.push(selection::CloneSingle::new(k));
        v.push(selection::FullyRandom::new(k));
        v.push(selection::RandomWithoutRepetition::new(k));
        v.push(selection::RouletteWheel::new(k, 1.0));
        v.push(selection::StochasticUniversalSampling::new(k, 1.0));
        v.push(selection::Tournament::new(k, 2));
        v.push(selection::LinearRank::new(k));
        if let Ok(c) = selection::ExponentialRank::new(k, 0.5) { v.push(c); }
        v.push(replacement::MuPlusLambda::new(k));
        v.push(replacement::Generational::new(k));
        v.push(replacement::RandomReplacement::new(k));
    }
    for y in [1u32, 2] {
        if let Ok(c) = selection::de::DERand::new(y) { v.push(c); }
        if let Ok(c) = selection::de::DEBest::new(y) { v.push(c); }
        if let Ok(c) = selection::de::DECurrentToBest::new(y) { v.push(c); }
        if let Ok(c) = mutation::de::DEMutation::new(y, 0.5) { v.push(c); }
    }
    for (mn, mx) in [(0u32, 3u32), (1, 1), (2, 5), (0, 0)] {
        v.push(selection::iwo::DeterministicFitnessProportional::new(mn, mx));
    }
    v.push(replacement::DiscardOffspring::new());
    v.push(replacement::Merge::new());
    v.push(replacement::KeepBetterAtIndex::new());
    v.push(replacement::sa::ExponentialAnnealingAcceptance::new(1.0));
    for pc in [0.0f64, 0.5, 1.0] {
        for both in [true, false] {
            v.push(recombination::UniformCrossover::new(pc, both));
            v.push(recombination::NPointCrossover::new(1, pc, both));
            v.push(recombination::ArithmeticCrossover::new(pc, both));
        }
    }
    v.push(recombination::de::DEBinomialCrossover::new(0.5));
    v.push(recombination::de::DEExponentialCrossover::new(0.5));
    v.push(utils::populations::DuplicatePopulation::new());
    v.push(utils::populations::ClearPopulation::new());
    v.push(utils::populations::InterleavePopulations::new());
    v.push(mutation::NormalMutation::new(0.1, 0.5));
    v
}

fn probe_pop(rng: &mut Sm, n: usize, problem: &Sphere) -> Vec<Individual<Sphere>> {
    (0..n).map(|_| {
        let x: Vec<f64> = (0..problem.dim).map(|_| problem.lo + (rng.next() % 10_000) as f64 / 10_000.0 * (problem.hi - problem.lo)).collect();
        let o = problem.f(&x) + 0.25;
        Individual::new(x, SingleObjective::try_from(o).unwrap())
    }).collect()
}

fn run_probe(c: &BC, seed: u64, sizes: &[usize]) -> String {
    let problem = Sphere::new(3, -2.0, 2.0, 0.0);
    let mut rng = Sm::new(seed ^ 0x517E);
    let mut state: State<Sphere> = State::new();
    state.insert(Populations::<Sphere>::new());
    state.insert(Random::new(seed));
    for &n in sizes.iter().rev() {
        let pop = probe_pop(&mut rng, n, &problem);
        state.populations_mut().push(pop);
    }
    let res = match catch(|| c.init(&problem, &mut state).and_then(|_| c.execute(&problem, &mut state))) {
        Some(Ok(())) => "ok",
        Some(Err(_)) => "err",
        None => "panic",
    };
    let after: Vec<String> = match (res, state.try_borrow::<Populations<Sphere>>()) {
        ("ok", Ok(p)) => (0..p.len()).map(|d| p.peek(d).len().to_string()).collect(),
        _ => vec![],
    };
    list([format!("(res {})", res), tagged("sizes", after)])
}

fn probe_case(input: &Sx) -> String {
    // the component is looked up by its serialised form
    let (_, a) = input.head().unwrap();
    let want = a[0].render();
    let seed = a[1].nat().unwrap();
    let sizes: Vec<usize> = a[2].head().unwrap().1.iter().map(|x| x.nat().unwrap() as usize).collect();
    for c in probe_components() {
        if sertree::to_sexp(c.as_ref()).map(|s| Sx::parse(&s).map(|x| x.render()) == Some(want.clone())).unwrap_or(false) {
            return run_probe(&c, seed, &sizes);
        }
    }
    "((res unknown-component) (sizes))".to_string()
}

fn emit_probes(out: &mut Out, seed: u64, thorough: bool) {
    let mut rng = Sm::new(seed ^ 0x51AE);
    let stacks: Vec<Vec<usize>> = {
        let mut v: Vec<Vec<usize>> = vec![vec![], vec![0], vec![1], vec![2], vec![3], vec![5], vec![6], vec![7], vec![9], vec![15]];
        for a in [0usize, 1, 2, 3, 4, 5, 6, 9] {
            for b in [0usize, 1, 3, 4, 6] {
                v.push(vec![a, b]);
            }
            v.push(vec![a, a, 2]);
        }
        v
    };
    let reps = if thorough { 4 } else { 1 };
    for c in probe_components() {
        let ser = match sertree::to_sexp(c.as_ref()) { Ok(s) => s, Err(_) => continue };
        let site = format!("size:{}", ser.split(|ch: char| ch == ' ' || ch == ')').nth(1).unwrap_or("?"));
        for st in &stacks {
            for _ in 0..reps {
                let s = rng.next() % 1_000_000;
                let input = format!("(sizeprobe {} {} (sizes {}))", ser, s, st.iter().map(|n| n.to_string()).collect::<Vec<_>>().join(" "));
                let sx = Sx::parse(&input).unwrap();
                out.case(&site, &input, &probe_case(&sx));
            }
        }
    }
}

struct Tree;
impl ConfigUser for Tree {
    type Out = String;
    fn use_config<P: HProblem>(self, config: &Configuration<P>, _p: &P) -> String {
        sertree::to_sexp(config.heuristic()).unwrap_or_else(|e| format!("(ser-error {})", e.to_string().replace(' ', "_")))
    }
}

fn run_case(input: &Sx) -> String {
    // (run NAME variant instance iters seed (tree …)) — the tree is informational for the model
    let (head, a) = input.head().unwrap();
    if head == "sizeprobe" {
        return probe_case(input);
    }
    if head == "prun" {
        return prun_case(a);
    }
    if head == "ctor" {
        return ctor_case(a);
    }
    if head == "audit" {
        let name = a[0].atom().unwrap();
        let (variant, instance, iters, seed) = (a[1].nat().unwrap() as u32, a[2].nat().unwrap() as u32, a[3].nat().unwrap() as u32, a[4].nat().unwrap());
        return match run_template(name, variant, instance, iters, seed, EvalKind::Sequential, Audit::default()) {
            Err(_) => "((res ctor-err) (steps))".to_string(),
            Ok((au, outcome)) => list([format!("(res {})", outcome.tag()), tagged("steps", au.steps)]),
        };
    }
    let name = a[0].atom().unwrap();
    let (variant, instance, iters, seed) = (a[1].nat().unwrap() as u32, a[2].nat().unwrap() as u32, a[3].nat().unwrap() as u32, a[4].nat().unwrap());
    let r = run_template(name, variant, instance, iters, seed, EvalKind::Sequential, Rec::default());
    match r {
        Err(e) => format!("((res ctor-err) (msg {}))", e.replace(|c: char| c.is_whitespace() || c == '(' || c == ')', "_")),
        Ok((rec, outcome)) => {
            let (lo, hi) = prescribed_size(name, variant);
            list([
                format!("(res {})", outcome.tag()),
                format!("(msg {})", match &outcome { Outcome::Err(e) => e.replace(|c: char| c.is_whitespace() || c == '(' || c == ')', "_"), _ => "-".into() }),
                format!("(failed-in {})", rec.failed_in.clone().unwrap_or("-".into())),
                format!("(iters {})", rec.iters.map(|i| i.to_string()).unwrap_or("none".into())),
                format!("(height {})", rec.final_height.map(|i| i.to_string()).unwrap_or("none".into())),
                format!("(size {})", rec.final_size.map(|i| i.to_string()).unwrap_or("none".into())),
                format!("(prescribed {} {})", lo, if hi == usize::MAX { "inf".to_string() } else { hi.to_string() }),
                format!("(nsteps {})", rec.n_steps),
                tagged("pcount", rec.pcount.iter().map(|c| c.to_string())),
                format!("(itouch {})", rec.itouch),
                tagged("passes", rec.passes),
                tagged("steps", rec.steps),
            ])
        }
    }
}


// ---------------------------------------------------------------------------------------------
// Explicit-parameter runs. The parameter point is part of the INPUT, so the Lean side can compute
// from it what the template should look like (its size-relevant components with their arguments),
// the prescribed population-size bound and the expected pass counts, instead of trusting a table in
// the harness:
//   `(prun NAME (ps p…) INSTANCE SEED (term KIND K N) [(inner KIND K N)] [(runs R)])`   KIND ∈ iters | evals | both | either
//        inner: condition of the scoped local search of the ILS templates; runs: `Configuration::run` R times on one state
//   `(ctor NAME (ps p…))`                                       constructor outcome only
// Natural parameters travel as decimals, floats as `x` + 16 hex digits, in the order of `param_spec`.
// ---------------------------------------------------------------------------------------------
use hcommon::problems::{OneMax, Tsp};
use mahf::conditions::LessThanN;
use mahf::heuristics::*;
use mahf::problems::Sequential;
use mahf::verif::StepObserver;
use std::sync::{Arc, Mutex};

#[derive(Clone, Copy, PartialEq)]
enum PK { N, F }
use PK::{F as PF, N as PN};

fn param_spec(name: &str) -> &'static [PK] {
    match name {
        "real_ga" | "binary_ga" => &[PN, PN, PF, PF, PF],
        "real_es" => &[PN, PN, PF],
        "real_de" => &[PN, PN, PF, PF],
        "real_pso" => &[PN, PF, PF, PF, PF, PF],
        "real_sa" => &[PF, PF, PF],
        "permutation_sa" => &[PF, PF, PN],
        "real_ls" => &[PN, PF],
        "permutation_ls" => &[PN, PN],
        "real_ils" => &[PN, PF, PN],
        "permutation_ils" => &[PN, PN, PN],
        "real_rs" | "permutation_rs" => &[],
        "real_rw" => &[PF],
        "permutation_rw" => &[PN],
        "real_iwo" => &[PN, PN, PN, PN, PF, PF, PN],
        "real_fa" => &[PN, PF, PF, PF, PF],
        "real_bh" => &[PN],
        "real_cro" => &[PN, PF, PF, PN, PF, PF, PF, PF, PF],
        "ant_system" => &[PN, PF, PF, PF, PF, PF],
        "max_min_ant_system" => &[PN, PF, PF, PF, PF, PF, PF],
        _ => &[],
    }
}

#[derive(Clone, Copy, Debug)]
enum Term { Iters(u32), Evals(u32), Both(u32, u32), Either(u32, u32) }
impl Term {
    fn cond<P: mahf::Problem>(self) -> Box<dyn mahf::Condition<P>> {
        match self {
            Term::Iters(k) => LessThanN::iterations(k),
            Term::Evals(n) => LessThanN::evaluations(n),
            Term::Both(k, n) => LessThanN::iterations(k) & LessThanN::evaluations(n),
            Term::Either(k, n) => LessThanN::iterations(k) | LessThanN::evaluations(n),
        }
    }
    fn render(self) -> String { self.render_tagged("term") }
    fn render_tagged(self, tag: &str) -> String {
        match self {
            Term::Iters(k) => format!("({} iters {} 0)", tag, k),
            Term::Evals(n) => format!("({} evals 0 {})", tag, n),
            Term::Both(k, n) => format!("({} both {} {})", tag, k, n),
            Term::Either(k, n) => format!("({} either {} {})", tag, k, n),
        }
    }
    fn parse(x: &Sx) -> Option<Term> { Term::parse_tagged(x, "term") }
    fn parse_tagged(x: &Sx, tag: &str) -> Option<Term> {
        let (h, a) = x.head()?;
        if h != tag { return None; }
        let (k, n) = (a.get(1)?.nat()? as u32, a.get(2)?.nat()? as u32);
        Some(match a.first()?.atom()? { "iters" => Term::Iters(k), "evals" => Term::Evals(n), "both" => Term::Both(k, n), "either" => Term::Either(k, n), _ => return None })
    }
}

fn p_sphere(i: u32) -> Sphere {
    match i {
        0..=3 => sphere_instance(i),
        4 => Sphere::new(1, 0.0, 1.0, 0.5),
        _ => Sphere::new(4, -1.0e3, 1.0e3, 0.0),
    }
}
fn p_onemax(i: u32) -> OneMax {
    match i { 0..=3 => onemax_instance(i), 4 => OneMax::new(1), _ => OneMax::new(2) }
}
/// 4: two cities; 5: four cities, two of them at the same place (distance 0 between distinct cities); 6: three cities.
fn p_tsp(i: u32) -> Tsp {
    match i {
        0..=3 => tsp_instance(i),
        4 => Tsp::new(vec![vec![0.0, 2.5], vec![2.5, 0.0]]),
        5 => Tsp::new(vec![
            vec![0.0, 3.0, 3.0, 4.0],
            vec![3.0, 0.0, 0.0, 5.0],
            vec![3.0, 0.0, 0.0, 5.0],
            vec![4.0, 5.0, 5.0, 0.0],
        ]),
        _ => Tsp::random(3, 15, 4.0),
    }
}
const P_INSTANCES: u32 = 7;
fn p_dim(kind: &str, i: u32) -> usize {
    match kind { "binary" => p_onemax(i).dim, "perm" => p_tsp(i).dist.len(), _ => p_sphere(i).dim }
}

#[derive(Clone, Copy)]
enum Pv { N(u64), F(f64) }
fn parse_ps(name: &str, x: &Sx) -> Option<Vec<Pv>> {
    let (h, a) = x.head()?;
    if h != "ps" { return None; }
    let spec = param_spec(name);
    if a.len() != spec.len() { return None; }
    spec.iter().zip(a).map(|(k, v)| match k { PK::N => v.nat().map(Pv::N), PK::F => v.float().map(Pv::F) }).collect()
}

/// Builds template `name` from the real constructor at the explicit parameter point `ps`.
fn pbuild<U: ConfigUser>(name: &str, ps: &[Pv], inst: u32, term: Term, inner: Option<Term>, user: U) -> Result<U::Out, String> {
    let n = |i: usize| match ps[i] { Pv::N(v) => v as u32, Pv::F(v) => v as u32 };
    let f = |i: usize| match ps[i] { Pv::F(v) => v, Pv::N(v) => v as f64 };
    macro_rules! go {
        ($problem:expr, $cfg:expr) => {{
            let problem = $problem;
            let cfg = $cfg.map_err(|e| format!("{e}"))?;
            Ok(user.use_config(&cfg, &problem))
        }};
    }
    match name {
        "real_ga" => go!(p_sphere(inst), ga::real_ga::<Sphere>(
            ga::RealProblemParameters { population_size: n(0), tournament_size: n(1), pm: f(2), deviation: f(3), pc: f(4) }, term.cond())),
        "binary_ga" => go!(p_onemax(inst), ga::binary_ga::<OneMax>(
            ga::BinaryProblemParameters { population_size: n(0), tournament_size: n(1), rm: f(2), pc: f(3), pm: f(4) }, term.cond())),
        "real_es" => go!(p_sphere(inst), es::real_mu_plus_lambda_es::<Sphere, ()>(
            es::RealProblemParameters { population_size: n(0), lambda: n(1), deviation: f(2) }, term.cond())),
        "real_de" => go!(p_sphere(inst), de::real_de::<Sphere>(
            de::RealProblemParameters { population_size: n(0), y: n(1), f: f(2), pc: f(3) }, term.cond())),
        "real_pso" => go!(p_sphere(inst), pso::real_pso::<Sphere>(
            pso::RealProblemParameters { num_particles: n(0), start_weight: f(1), end_weight: f(2), c_one: f(3), c_two: f(4), v_max: f(5) }, term.cond())),
        "real_sa" => go!(p_sphere(inst), sa::real_sa::<Sphere>(
            sa::RealProblemParameters { t_0: f(0), alpha: f(1), deviation: f(2) }, term.cond())),
        "permutation_sa" => go!(p_tsp(inst), sa::permutation_sa::<Tsp>(
            sa::PermutationProblemParameters { t_0: f(0), alpha: f(1), num_swap: n(2) }, term.cond())),
        "real_ls" => go!(p_sphere(inst), ls::real_ls::<Sphere>(
            ls::RealProblemParameters { n_neighbors: n(0), deviation: f(1) }, term.cond())),
        "permutation_ls" => go!(p_tsp(inst), ls::permutation_ls::<Tsp>(
            ls::PermutationProblemParameters { num_neighbors: n(0), num_swap: n(1) }, term.cond())),
        "real_ils" => go!(p_sphere(inst), ils::real_ils::<Sphere>(
            ils::RealProblemParameters {
                ls_params: ls::RealProblemParameters { n_neighbors: n(0), deviation: f(1) },
                ls_condition: inner.map(|t| t.cond()).unwrap_or_else(|| LessThanN::iterations(n(2))),
            }, term.cond())),
        "permutation_ils" => go!(p_tsp(inst), ils::permutation_ils::<Tsp>(
            ils::PermutationProblemParameters {
                ls_params: ls::PermutationProblemParameters { num_neighbors: n(0), num_swap: n(1) },
                ls_condition: inner.map(|t| t.cond()).unwrap_or_else(|| LessThanN::iterations(n(2))),
            }, term.cond())),
        "real_rs" => go!(p_sphere(inst), rs::real_rs::<Sphere>(term.cond())),
        "permutation_rs" => go!(p_tsp(inst), rs::permutation_rs::<Tsp>(term.cond())),
        "real_rw" => go!(p_sphere(inst), rw::real_rw::<Sphere>(rw::RealProblemParameters { deviation: f(0) }, term.cond())),
        "permutation_rw" => go!(p_tsp(inst), rw::permutation_random_walk::<Tsp>(rw::PermutationProblemParameters { num_swap: n(0) }, term.cond())),
        "real_iwo" => go!(p_sphere(inst), iwo::real_iwo::<Sphere>(
            iwo::RealProblemParameters {
                initial_population_size: n(0), max_population_size: n(1), min_number_of_seeds: n(2), max_number_of_seeds: n(3),
                initial_deviation: f(4), final_deviation: f(5), modulation_index: n(6),
            }, term.cond())),
        "real_fa" => go!(p_sphere(inst), fa::real_fa::<Sphere>(
            fa::RealProblemParameters { pop_size: n(0), alpha: f(1), beta: f(2), gamma: f(3), delta: f(4) }, term.cond())),
        "real_bh" => go!(p_sphere(inst), bh::real_bh::<Sphere>(bh::RealProblemParameters { num_particles: n(0) }, term.cond())),
        "real_cro" => go!(p_sphere(inst), cro::real_cro::<Sphere>(
            cro::RealProblemParameters {
                initial_population_size: n(0), mole_coll: f(1), kinetic_energy_lr: f(2), alpha: n(3), beta: f(4),
                initial_kinetic_energy: f(5), buffer: f(6), on_wall_deviation: f(7), decomposition_deviation: f(8),
            }, term.cond())),
        "ant_system" => go!(p_tsp(inst), aco::ant_system::<Tsp>(
            aco::ASParameters::verif_new(n(0) as usize, f(1), f(2), f(3), f(4), f(5)), term.cond())),
        "max_min_ant_system" => go!(p_tsp(inst), aco::max_min_ant_system::<Tsp>(
            aco::MMASParameters::verif_new(n(0) as usize, f(1), f(2), f(3), f(4), f(5), f(6)), term.cond())),
        other => Err(format!("unknown template {other}")),
    }
}

struct PRunner { seed: u64, runs: u32 }
impl ConfigUser for PRunner {
    /// (record, outcome, tree, observations of the runs after the first)
    type Out = (Rec, Outcome, String, Vec<String>, Vec<String>);
    fn use_config<P: HProblem>(self, config: &Configuration<P>, problem: &P) -> Self::Out {
        let tree = sertree::to_sexp(config.heuristic()).unwrap_or_else(|e| format!("(ser-error {})", e.to_string().replace(' ', "_")));
        let shared = Arc::new(Mutex::new(Rec::default()));
        let seed = self.seed;
        let mut outcome = Outcome::Ok;
        let mut first: Vec<String> = vec![];
        let mut again: Vec<String> = vec![];
        let obs_v = shared.clone();
        let obs_p = problem.clone();
        let init = move |state: &mut State<P>| {
            state.insert(Random::new(seed));
            state.insert_evaluator(Sequential::<P>::new());
            state.insert(StepObserver::<P>(Box::new(move |ph, name, idx, st| {
                obs_v.lock().unwrap().step(ph, name, idx, st, &obs_p);
            })));
            Ok(())
        };
        if self.runs <= 1 {
            // the usual entry point
            let r = catch(|| config.optimize_with(problem, init));
            match r {
                None => {
                    outcome = Outcome::Panic;
                    shared.lock().unwrap_or_else(|e| e.into_inner()).done::<P>(&outcome, None, problem);
                }
                Some(Err(e)) => {
                    outcome = Outcome::Err(format!("{e}"));
                    shared.lock().unwrap_or_else(|e| e.into_inner()).done::<P>(&outcome, None, problem);
                }
                Some(Ok(state)) => {
                    shared.lock().unwrap_or_else(|e| e.into_inner()).done(&outcome, Some(&state), problem);
                    drop(state);
                }
            }
            first = shared.lock().unwrap_or_else(|e| e.into_inner()).take_run();
        } else {
            // `Configuration::run` called `runs` times on ONE state prepared the way `optimize_with` prepares it; before
            // every later run the caller puts an empty population stack in place (everything else stays)
            let mut state: State<P> = State::new();
            state.insert(mahf::logging::Log::new());
            state.insert(Populations::<P>::new());
            let _ = init(&mut state);
            for r in 0..self.runs {
                if r > 0 {
                    state.insert(Populations::<P>::new());
                }
                let res = catch(std::panic::AssertUnwindSafe(|| config.run(problem, &mut state)));
                let this = match res {
                    None => Outcome::Panic,
                    Some(Err(e)) => Outcome::Err(format!("{e}")),
                    Some(Ok(())) => Outcome::Ok,
                };
                let failed = !matches!(this, Outcome::Ok);
                {
                    let mut rec = shared.lock().unwrap_or_else(|e| e.into_inner());
                    if failed { rec.done::<P>(&this, None, problem); } else { rec.done(&this, Some(&state), problem); }
                    let obs = rec.take_run();
                    if r == 0 { first = obs; } else { again.push(list(obs)); }
                }
                if failed { outcome = this; break; }
            }
            drop(state);
        }
        let rec = std::mem::take(&mut *shared.lock().unwrap_or_else(|e| e.into_inner()));
        (rec, outcome, tree, first, again)
    }
}

fn clean(e: &str) -> String { e.replace(|c: char| c.is_whitespace() || c == '(' || c == ')', "_") }

/// `(prun NAME (ps …) INSTANCE SEED (term …) [(inner KIND K N)] [(runs R)])` — the run happens in a worker thread under a
/// watchdog.  `inner`: the termination condition of the scoped local search of the ILS templates (default:
/// `LessThanN::iterations(last parameter)`); `runs`: `Configuration::run` that many times on the same state.
fn prun_case(a: &[Sx]) -> String {
    let name = a[0].atom().unwrap().to_string();
    let ps = match parse_ps(&name, &a[1]) { Some(p) => p, None => return "((res bad-input))".into() };
    let (inst, seed) = (a[2].nat().unwrap() as u32, a[3].nat().unwrap());
    let term = match Term::parse(&a[4]) { Some(t) => t, None => return "((res bad-input))".into() };
    let inner = a[5..].iter().find_map(|x| Term::parse_tagged(x, "inner"));
    let runs = a[5..].iter().find_map(|x| x.head().filter(|(h, _)| *h == "runs").and_then(|(_, v)| v.first().and_then(|n| n.nat()))).unwrap_or(1).clamp(1, 4) as u32;
    // features of the instance the run really used (the Lean side's predictions depend on them)
    let zero_dist = kind_of(&name) == "perm" && {
        let t = p_tsp(inst);
        (0..t.dist.len()).any(|i| (0..t.dist.len()).any(|j| i != j && t.dist[i][j] == 0.0))
    };
    let dim = p_dim(kind_of(&name), inst);
    let (tx, rx) = std::sync::mpsc::channel();
    std::thread::spawn(move || {
        let r = catch(|| pbuild(&name, &ps, inst, term, inner, PRunner { seed, runs }));
        let _ = tx.send(r);
    });
    match rx.recv_timeout(std::time::Duration::from_secs(60)) {
        Err(_) => "((res timeout) (msg -) (failed-in -))".into(),
        Ok(None) => "((res ctor-panic) (msg -) (failed-in -))".into(),
        Ok(Some(Err(e))) => format!("((res ctor-err) (msg {}))", clean(&e)),
        Ok(Some(Ok((rec, outcome, tree, first, again)))) => {
            let mut v = vec![
                format!("(res {})", outcome.tag()),
                format!("(msg {})", match &outcome { Outcome::Err(e) => clean(e), _ => "-".into() }),
                format!("(failed-in {})", rec.failed_in.clone().unwrap_or("-".into())),
            ];
            v.extend(first);
            v.extend([
                format!("(nsteps {})", rec.n_steps),
                format!("(itouch {})", rec.itouch),
                format!("(inst-dim {})", dim),
                format!("(inst-zero-dist {})", b(zero_dist)),
                tagged("again", again),
                tagged("passes", rec.passes),
                tagged("steps", rec.steps),
                format!("(tree {})", tree),
            ]);
            list(v)
        }
    }
}

/// `(ctor NAME (ps …))` — only the constructor.
fn ctor_case(a: &[Sx]) -> String {
    let name = a[0].atom().unwrap();
    let ps = match parse_ps(name, &a[1]) { Some(p) => p, None => return "((res bad-input))".into() };
    match catch(|| pbuild(name, &ps, 0, Term::Iters(1), None, Tree)) {
        None => "((res ctor-panic))".into(),
        Some(Err(_)) => "((res ctor-err))".into(),
        Some(Ok(_)) => "((res ok))".into(),
    }
}

fn fxs(v: f64) -> String { fx(v) }

/// A parameter point inside the documented domain of template `name` (for a problem of dimension `dim`),
/// biased towards the boundaries: smallest populations, tournament = population, zero offspring, y with
/// the smallest admissible population, num_swap at both ends, equal deviations / seeds, rates 0 and 1.
fn gen_valid(name: &str, r: &mut Sm, dim: usize) -> Vec<String> {
    let pop = |r: &mut Sm| *r.pick(&[1u64, 1, 2, 2, 3, 4, 5, 7, 8, 12]);
    let rate = |r: &mut Sm| fxs(*r.pick(&[0.0, 0.0, 0.25, 0.5, 0.9, 1.0, 1.0]));
    let dev = |r: &mut Sm| fxs(*r.pick(&[1e-9, 0.01, 0.1, 0.5, 1.0, 3.0]));
    let nonneg = |r: &mut Sm| fxs(*r.pick(&[0.0, 0.0, 0.1, 0.5, 1.0, 2.0, 10.0]));
    let swap = |r: &mut Sm| { let d = dim.max(2) as u64; let m = r.range(2, d); *r.pick(&[2, 2, d, d, m]) };
    match name {
        "real_ga" | "binary_ga" => {
            let n = pop(r);
            let m = r.range(1, n);
            let ts = *r.pick(&[1, n, n, m]);
            if name == "real_ga" { vec![n.to_string(), ts.to_string(), rate(r), dev(r), rate(r)] }
            else { vec![n.to_string(), ts.to_string(), rate(r), rate(r), rate(r)] }
        }
        "real_es" => { let mu = pop(r); vec![mu.to_string(), r.pick(&[0u64, 1, 1, 2, mu, 2 * mu + 1, 15]).to_string(), dev(r)] }
        "real_de" => {
            let y = *r.pick(&[1u64, 2]);
            let n = *r.pick(&[2 * y, 2 * y, 2 * y + 1, 2 * y + 2, 7, 10]);
            vec![n.to_string(), y.to_string(), fxs(*r.pick(&[1e-3, 0.5, 1.0, 2.0])), rate(r)]
        }
        "real_pso" => vec![pop(r).to_string(), nonneg(r), nonneg(r), nonneg(r), nonneg(r), fxs(*r.pick(&[1e-6, 0.5, 1.0, 100.0]))],
        "real_sa" => vec![fxs(*r.pick(&[1e-6, 1.0, 100.0, 1e9])), fxs(*r.pick(&[0.0, 0.5, 0.9, 0.999999])), dev(r)],
        "permutation_sa" => vec![fxs(*r.pick(&[1e-6, 1.0, 100.0, 1e9])), fxs(*r.pick(&[0.0, 0.5, 0.9, 0.999999])), swap(r).to_string()],
        "real_ls" => vec![r.pick(&[0u64, 1, 1, 2, 5, 9]).to_string(), dev(r)],
        "permutation_ls" => vec![r.pick(&[0u64, 1, 1, 2, 5, 9]).to_string(), swap(r).to_string()],
        "real_ils" => vec![r.pick(&[0u64, 1, 2, 5]).to_string(), dev(r), r.pick(&[0u64, 1, 2, 2, 3, 5]).to_string()],
        "permutation_ils" => vec![r.pick(&[0u64, 1, 2, 5]).to_string(), swap(r).to_string(), r.pick(&[0u64, 1, 2, 2, 3, 5]).to_string()],
        "real_rs" | "permutation_rs" => vec![],
        "real_rw" => vec![dev(r)],
        "permutation_rw" => vec![swap(r).to_string()],
        "real_iwo" => {
            let init = pop(r);
            let max = *r.pick(&[init, init, init + 1, init + 4, 2 * init + 3]);
            let mx = *r.pick(&[0u64, 1, 1, 2, 3, 5]);
            let m = r.range(0, mx);
            let mn = *r.pick(&[0, mx, m]);
            let d0 = *r.pick(&[0.01, 0.5, 1.0]);
            let d1 = *r.pick(&[d0, d0, 0.0, d0 / 10.0]);
            vec![init.to_string(), max.to_string(), mn.to_string(), mx.to_string(), fxs(d0), fxs(d1), r.pick(&[0u64, 1, 2, 3]).to_string()]
        }
        "real_fa" => vec![pop(r).to_string(), nonneg(r), nonneg(r), nonneg(r), fxs(*r.pick(&[0.0, 0.5, 0.97, 0.999999]))],
        "real_bh" => vec![pop(r).to_string()],
        "real_cro" => vec![pop(r).to_string(), rate(r), fxs(*r.pick(&[0.0, 0.2, 0.5, 0.9, 0.999999])), r.pick(&[0u64, 1, 3, 10, 1000]).to_string(), nonneg(r), nonneg(r), nonneg(r), dev(r), dev(r)],
        "ant_system" => vec![r.pick(&[0u64, 0, 1, 2, 4, 7]).to_string(), nonneg(r), nonneg(r), fxs(*r.pick(&[1e-3, 0.5, 1.0, 2.0])), rate(r), nonneg(r)],
        "max_min_ant_system" => {
            let mn = *r.pick(&[1e-6, 0.1, 1.0]);
            let mx = mn * *r.pick(&[1.0000001, 2.0, 100.0]);
            vec![r.pick(&[0u64, 0, 1, 2, 4, 7]).to_string(), nonneg(r), nonneg(r), fxs(*r.pick(&[1e-3, 0.5, 1.0, 2.0])), rate(r), fxs(mx), fxs(mn)]
        }
        _ => vec![],
    }
}

/// Does every pass of the (outermost) loop of `name` at point `ps` evaluate at least one solution?  Only then is
/// a pure evaluation budget a termination condition that can be met.
fn makes_progress(name: &str, ps: &[String]) -> bool {
    let n = |i: usize| ps[i].parse::<u64>().unwrap_or(0);
    match name {
        "real_es" => n(1) >= 1,
        "real_ls" | "permutation_ls" => n(0) >= 1,
        "real_iwo" => n(2) >= 1,
        _ => true,
    }
}

/// A parameter point anywhere around the documented domain (inside, on and beyond its borders), for the
/// constructor stream.
fn gen_any(name: &str, r: &mut Sm) -> Vec<String> {
    let spec = param_spec(name);
    if r.chance(1, 3) {
        return gen_valid(name, r, 6);
    }
    let mut v = gen_valid(name, r, 6);
    // disturb one to three parameters
    for _ in 0..r.range(1, 3) {
        if spec.is_empty() { break; }
        let i = r.below(spec.len() as u64) as usize;
        v[i] = match spec[i] {
            PK::N => r.pick(&[0u64, 0, 1, 2, 3, 4, 9, 1000]).to_string(),
            PK::F => fxs(*r.pick(&[-1.0, -1e-9, 0.0, 1e-12, 0.5, 1.0, 1.0 + 1e-9, 2.0, 2.5, 1e9, f64::INFINITY, f64::NAN])),
        };
    }
    v
}

/// Fixed explicit-parameter cases, run on every check: the recorded findings' witnesses and the corners of the
/// documented parameter domains.
const FIXED_PRUNS: [&str; 34] = [
    "(prun real_pso (ps 2 x3fe0000000000000 x0000000000000000 x4024000000000000 x3fe0000000000000 x3eb0c6f7a0b5ed8d) 0 800767 (term evals 0 5))",
    "(prun real_iwo (ps 2 7 5 5 x3ff0000000000000 x0000000000000000 2) 3 142452 (term evals 0 40))",
    "(prun ant_system (ps 2 x3fe0000000000000 x3ff0000000000000 x3f50624dd2f1a9fc x3ff0000000000000 x3fe0000000000000) 5 144435 (term evals 0 5))",
    "(prun max_min_ant_system (ps 1 x3fe0000000000000 x3ff0000000000000 x3f50624dd2f1a9fc x3feccccccccccccd x4000000000000000 x3ff0000000000000) 5 323257 (term either 1 17))",
    // one individual, tournament of one; tournament = population
    "(prun real_ga (ps 1 1 x3ff0000000000000 x3fb999999999999a x3ff0000000000000) 4 11 (term iters 5 0))",
    "(prun binary_ga (ps 7 7 x3fe0000000000000 x3fe0000000000000 x3ff0000000000000) 4 12 (term iters 5 0))",
    "(prun real_ga (ps 3 3 x0000000000000000 x3fb999999999999a x0000000000000000) 1 13 (term both 9 17))",
    // no offspring; many more offspring than parents
    "(prun real_es (ps 1 0 x3fb999999999999a) 0 14 (term iters 4 0))",
    "(prun real_es (ps 2 15 x3fb999999999999a) 2 15 (term evals 0 40))",
    // smallest population DEBest accepts, both y
    "(prun real_de (ps 2 1 x3fe0000000000000 x3fe0000000000000) 0 16 (term iters 5 0))",
    "(prun real_de (ps 4 2 x4000000000000000 x0000000000000000) 4 17 (term iters 5 0))",
    // num_swap = 2 on two cities, num_swap = dimension
    "(prun permutation_sa (ps x3ff0000000000000 x0000000000000000 2) 4 18 (term iters 5 0))",
    "(prun permutation_rw (ps 8) 1 19 (term iters 5 0))",
    "(prun permutation_ls (ps 0 2) 6 20 (term iters 3 0))",
    // local search never entered / entered more often than the outer loop
    "(prun real_ils (ps 2 x3fb999999999999a 0) 0 21 (term iters 4 0))",
    "(prun permutation_ils (ps 1 3 5) 6 22 (term iters 2 0))",
    "(prun permutation_ils (ps 2 2 3) 4 23 (term either 2 9))",
    // equal seeds, equal deviations, full initial population
    "(prun real_iwo (ps 4 4 0 0 x3fe0000000000000 x3fe0000000000000 0) 0 24 (term iters 4 0))",
    "(prun real_iwo (ps 1 5 2 2 x3fe0000000000000 x0000000000000000 3) 4 25 (term both 6 40))",
    // no sampled ants; two cities
    "(prun ant_system (ps 0 x3ff0000000000000 x3ff0000000000000 x3ff0000000000000 x3fe0000000000000 x3ff0000000000000) 5 26 (term iters 3 0))",
    "(prun max_min_ant_system (ps 3 x3ff0000000000000 x3ff0000000000000 x3ff0000000000000 x3fe0000000000000 x4000000000000000 x3fe0000000000000) 4 27 (term iters 3 0))",
    "(prun real_cro (ps 1 x3fe0000000000000 x3fc999999999999a 3 x3fe0000000000000 x4024000000000000 x0000000000000000 x3fb999999999999a x3fb999999999999a) 4 28 (term either 6 20))",
    // the scoped local search under an evaluation budget of its own (3 passes of 2 / 3 passes of 4 in EVERY outer pass),
    // under composite conditions, together with an evaluation budget on the outer loop
    "(prun real_ils (ps 2 x3fc999999999999a 0) 1 31 (term iters 5 0) (inner evals 0 6))",
    "(prun permutation_ils (ps 4 2 0) 1 32 (term iters 7 0) (inner evals 0 10))",
    "(prun real_ils (ps 3 x3fb999999999999a 4) 2 33 (term iters 3 0) (inner both 4 7))",
    "(prun permutation_ils (ps 1 2 2) 0 34 (term both 6 5) (inner either 2 5))",
    "(prun real_ils (ps 5 x3fe0000000000000 0) 3 35 (term evals 0 4) (inner evals 0 11))",
    "(prun real_ils (ps 0 x3fe0000000000000 3) 0 36 (term either 2 4) (inner both 3 5))",
    // `Configuration::run` again on the state of the previous run: every run starts its counters from zero
    "(prun real_ga (ps 6 2 x3fe0000000000000 x3fb999999999999a x3fe0000000000000) 1 37 (term evals 0 40) (runs 2))",
    "(prun real_sa (ps x3ff0000000000000 x3fe0000000000000 x3fb999999999999a) 0 38 (term either 3 9) (runs 3))",
    "(prun permutation_ils (ps 2 2 0) 2 39 (term evals 0 5) (inner evals 0 5) (runs 2))",
    "(prun real_de (ps 4 2 x3fe0000000000000 x3fe0000000000000) 2 40 (term both 5 17) (runs 2))",
    "(prun ant_system (ps 2 x3ff0000000000000 x3ff0000000000000 x3ff0000000000000 x3fe0000000000000 x3ff0000000000000) 1 41 (term evals 0 7) (runs 2))",
    "(prun real_bh (ps 3) 1 42 (term iters 4 0) (runs 3))",
];

fn emit_pruns(out: &mut Out, seed: u64, thorough: bool) {
    for input in FIXED_PRUNS {
        let sx = Sx::parse(input).unwrap();
        let name = sx.head().unwrap().1[0].atom().unwrap().to_string();
        out.case(&format!("p:{}", name), input, &run_case(&sx));
    }
    let mut r = Sm::new(seed ^ 0x9A7A);
    let per = if thorough { 160 } else { 60 };
    for name in TEMPLATES {
        let kind = kind_of(name);
        for k in 0..per {
            let inst = if k < P_INSTANCES as usize { k as u32 } else { r.below(P_INSTANCES as u64) as u32 };
            let ps = gen_valid(name, &mut r, p_dim(kind, inst));
            let progress = makes_progress(name, &ps);
            let it = *r.pick(&[0u32, 1, 1, 2, 3, 5, 9]);
            let ev = *r.pick(&[1u32, 5, 17, 40, 90]);
            let term = match r.below(10) {
                0..=4 => Term::Iters(it),
                5 | 6 if progress => Term::Evals(ev),
                7 => Term::Both(it, ev),
                // (an iteration bound of 0 inside an OR makes `Progress = x / 0`; not a meaningful condition)
                8 if progress && it >= 1 => Term::Either(it, ev),
                _ => Term::Iters(it),
            };
            let s = r.next() % 1_000_000;
            // the scoped local search of the ILS templates: every kind of condition the outer loop gets (an evaluation
            // budget alone or in an OR needs at least one neighbour per pass to be reachable)
            let mut extra = String::new();
            if name.ends_with("_ils") && r.chance(3, 5) {
                let nb = ps[0].parse::<u64>().unwrap_or(0);
                let m = *r.pick(&[0u32, 1, 2, 3, 5]);
                let bud = *r.pick(&[1u32, 2, 5, 6, 10, 17, 31]);
                let inner = match r.below(6) {
                    0 => Term::Iters(m),
                    1 | 2 if nb >= 1 => Term::Evals(bud),
                    3 => Term::Both(m, bud),
                    4 if nb >= 1 && m >= 1 => Term::Either(m, bud),
                    _ => if nb >= 1 { Term::Evals(bud) } else { Term::Both(m, bud) },
                };
                extra.push_str(&format!(" {}", inner.render_tagged("inner")));
            }
            // a quarter of the points: the configuration is run again on the state of its first run
            if r.chance(1, 4) {
                extra.push_str(&format!(" (runs {})", r.pick(&[2u32, 2, 2, 3])));
            }
            let input = format!("(prun {} (ps {}) {} {} {}{})", name, ps.join(" "), inst, s, term.render(), extra);
            let sx = Sx::parse(&input).unwrap();
            out.case(&format!("p:{}", name), &input, &run_case(&sx));
        }
        let nc = if thorough { 200 } else { 50 };
        if param_spec(name).is_empty() { continue; }
        for _ in 0..nc {
            let ps = gen_any(name, &mut r);
            let input = format!("(ctor {} (ps {}))", name, ps.join(" "));
            let sx = Sx::parse(&input).unwrap();
            out.case(&format!("ctor:{}", name), &input, &run_case(&sx));
        }
    }
}

fn main() {
    quiet_panics();
    let a = args();
    let mut out = Out::new();
    if let Some(r) = a.replay {
        let sx = Sx::parse(&r).expect("bad replay input");
        let site = sx.head().and_then(|(_, a)| a.first().and_then(|x| x.atom().map(|s| s.to_string()))).unwrap_or("replay".into());
        out.case(&site, &r, &run_case(&sx));
        out.finish();
        return;
    }
    if std::env::args().any(|x| x == "--trees") {
        // regenerated layer: one line per template × variant: `(tree NAME variant TREE)`
        for name in TEMPLATES {
            for v in 0..N_VARIANTS {
                match with_template(name, v, 0, 3, Tree) {
                    Ok(t) => println!("(tree {} {} {})", name, v, t),
                    Err(e) => println!("(tree {} {} (ctor-err {}))", name, v, e.replace(|c: char| c.is_whitespace() || c == '(' || c == ')', "_")),
                }
            }
        }
        return;
    }
    if std::env::args().any(|x| x == "--prescribed") {
        // the bounds the per-template size theorems are stated with: `(prescribed NAME variant lo hi|inf)`
        for name in TEMPLATES {
            for v in 0..N_VARIANTS {
                let (lo, hi) = prescribed_size(name, v);
                println!("(prescribed {} {} {} {})", name, v, lo, if hi == usize::MAX { "inf".to_string() } else { hi.to_string() });
            }
        }
        return;
    }
    if std::env::args().any(|x| x == "--audit") {
        // K-only stream for the C06/C07 template analyses
        let mut rng = Sm::new(a.seed ^ 0xA0D17);
        let reps = if a.thorough { 6 } else { 1 };
        for name in TEMPLATES {
            for v in 0..N_VARIANTS {
                for inst in 0..N_INSTANCES {
                    for _ in 0..reps {
                        let seed = rng.next() % 1_000_000;
                        let input = format!("(audit {} {} {} {} {})", name, v, inst, if a.thorough { 6 } else { 3 }, seed);
                        let sx = Sx::parse(&input).unwrap();
                        out.case(&format!("audit:{}", name), &input, &run_case(&sx));
                    }
                }
            }
        }
        out.finish();
        return;
    }
    let mut rng = Sm::new(a.seed);
    let seeds: u64 = if a.thorough { 40 } else { 2 };
    let iters_list: &[u32] = if a.thorough { &[0, 1, 2, 7, 25, 60] } else { &[0, 1, 7] };
    for name in TEMPLATES {
        for v in 0..N_VARIANTS {
            let tree = with_template(name, v, 0, 3, Tree).unwrap_or_else(|e| format!("(ctor-err {})", e.replace(|c: char| c.is_whitespace() || c == '(' || c == ')', "_")));
            for inst in 0..N_INSTANCES {
                if !a.thorough && inst >= 2 && v != (inst % N_VARIANTS) { continue; }
                for &iters in iters_list {
                    for _ in 0..seeds {
                        let seed = rng.next() % 1_000_000;
                        let input = format!("(run {} {} {} {} {} {})", name, v, inst, iters, seed, tree);
                        let sx = Sx::parse(&input).unwrap();
                        out.case(name, &input, &run_case(&sx));
                    }
                }
            }
        }
    }
    emit_pruns(&mut out, a.seed, a.thorough);
    emit_probes(&mut out, a.seed, a.thorough);
    out.finish();
}
