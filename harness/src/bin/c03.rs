//! C03 — configurations execute with structured-program semantics and a fixed lifecycle.
//! Builds REAL `Block`/`Loop`/`Branch`/`Scope` trees (through `ConfigurationBuilder` wherever the
//! builder can express the shape, through the public constructors otherwise) whose leaves are the
//! tracing components below, runs `Configuration::run` on a prepared `State` and prints the trace,
//! the result, the scope depth and a dump of every scope.
//! `scopew` nodes are `Scope::new_with` with scripted, tracing `state_init` / `states_merge` hooks;
//! `(via alt)` builds the same tree through the other public construction paths (`do_many_`,
//! `do_if_some_`, `Block::new`, `From<Vec<_>>`, the `& | !` operators, `Configuration::from`,
//! `into_inner`) and runs a clone; `(via opt)` runs it through `Configuration::optimize_with`.
//! `(rtree …)` cases (c03_real.rs): the SHIPPED conditions (`LessThanN`, `EveryN`, `RandomChance`, composites) as
//! loop / branch conditions at their boundary parameters, `HoldLeaf`s (work inside `State::holding`) and the real
//! `Logger` at scope depth 0..3, every state type at every level of the caller's state compared afterwards.
use std::collections::{HashMap, HashSet};
use std::sync::{Arc, Mutex};

use better_any::{Tid, TidAble};
use derive_more::{Deref, DerefMut};
use eyre::eyre;
use hcommon::problems::TagProblem;
use hcommon::*;
use mahf::components::{Block, Branch, Loop, Scope};
use mahf::conditions::{And, EveryN, LessThanN, Not, Or, RandomChance};
use mahf::configuration::ConfigurationBuilder;
use mahf::state::common::{Evaluations, Iterations};
use mahf::state::StateReq;
use mahf::{Component, Condition, Configuration, CustomState, ExecResult, State, StateError, StateRegistry};
use serde::Serialize;

type P = TagProblem;

/// Cases over shipped conditions and `State::holding` leaves (`(rtree …)` inputs).
#[path = "../c03_real.rs"]
mod real;

// ---------------------------------------------------------------- state types (key 0 = Iterations)
#[derive(Clone, Deref, DerefMut, Tid)]
struct K1(u64);
impl CustomState<'_> for K1 {}
#[derive(Clone, Deref, DerefMut, Tid)]
struct K2(u64);
impl CustomState<'_> for K2 {}
#[derive(Clone, Deref, DerefMut, Tid)]
struct K3(u64);
impl CustomState<'_> for K3 {}

const PH: [&str; 6] = ["init", "req", "exec", "cinit", "creq", "ceval"];
fn ph_of(s: &str) -> u8 {
    PH.iter().position(|p| *p == s).expect("phase") as u8
}

// ---------------------------------------------------------------- shared script + trace
#[derive(Default)]
struct Shared {
    trace: Vec<(u8, u64)>,
    counts: HashMap<(u8, u64), u64>,
    conds: HashMap<u64, (bool, Vec<bool>)>,
    fails: HashSet<(u8, u64, u64)>,
}
impl Shared {
    /// Records the event; returns (occurrence index, scripted fault?).
    fn hit(&mut self, ph: u8, id: u64) -> (u64, bool) {
        self.trace.push((ph, id));
        let c = self.counts.entry((ph, id)).or_insert(0);
        let occ = *c;
        *c += 1;
        (occ, self.fails.contains(&(ph, id, occ)))
    }
}
type Sh = Arc<Mutex<Shared>>;

#[derive(Clone, Debug)]
enum Act {
    Ins(u8, u64, u64),
    Set(u8, u64, u64),
    Rem(u8, u64),
    Need(u64),
}

fn fail(ph: u8, id: u64) -> eyre::Report {
    eyre!("L {} {}", PH[ph as usize], id)
}

#[derive(Clone, Serialize)]
struct TraceLeaf {
    id: u64,
    #[serde(skip)]
    acts: Vec<Act>,
    #[serde(skip)]
    sh: Sh,
}
fn apply_acts(acts: &[Act], ph: u8, state: &mut State<P>) {
    {
        for a in acts {
            match *a {
                Act::Ins(p, k, v) if p == ph => match k {
                    0 => { state.insert(Iterations(v as u32)); }
                    1 => { state.insert(K1(v)); }
                    2 => { state.insert(K2(v)); }
                    4 => { state.insert(Evaluations(v as u32)); }
                    _ => { state.insert(K3(v)); }
                },
                Act::Set(p, k, v) if p == ph => match k {
                    0 => { state.set_value::<Iterations>(v as u32); }
                    1 => { state.set_value::<K1>(v); }
                    2 => { state.set_value::<K2>(v); }
                    4 => { state.set_value::<Evaluations>(v as u32); }
                    _ => { state.set_value::<K3>(v); }
                },
                Act::Rem(p, k) if p == ph => match k {
                    0 => { let _ = state.remove::<Iterations>(); }
                    1 => { let _ = state.remove::<K1>(); }
                    2 => { let _ = state.remove::<K2>(); }
                    4 => { let _ = state.remove::<Evaluations>(); }
                    _ => { let _ = state.remove::<K3>(); }
                },
                _ => {}
            }
        }
    }
}
impl Component<P> for TraceLeaf {
    fn init(&self, _: &P, state: &mut State<P>) -> ExecResult<()> {
        if self.sh.lock().unwrap().hit(0, self.id).1 { return Err(fail(0, self.id)); }
        apply_acts(&self.acts, 0, state);
        Ok(())
    }
    fn require(&self, _: &P, req: &StateReq<P>) -> ExecResult<()> {
        if self.sh.lock().unwrap().hit(1, self.id).1 { return Err(fail(1, self.id)); }
        for a in &self.acts {
            if let Act::Need(k) = *a {
                let r = match k {
                    0 => req.require::<Self, Iterations>(),
                    1 => req.require::<Self, K1>(),
                    2 => req.require::<Self, K2>(),
                    4 => req.require::<Self, Evaluations>(),
                    _ => req.require::<Self, K3>(),
                };
                r.map_err(|_| fail(1, self.id))?;
            }
        }
        Ok(())
    }
    fn execute(&self, _: &P, state: &mut State<P>) -> ExecResult<()> {
        if self.sh.lock().unwrap().hit(2, self.id).1 { return Err(fail(2, self.id)); }
        apply_acts(&self.acts, 2, state);
        Ok(())
    }
}

/// A leaf whose `execute` works on a state of the caller that it takes out of the registry with
/// `State::holding::<Kk>`: inside the closure it records `(exec, id)`, adds one to the held value, performs
/// its `exec` actions on the rest of the state and then fails if scripted. `init` / `require` as `TraceLeaf`.
#[derive(Clone, Serialize)]
struct HoldLeaf {
    id: u64,
    k: u64,
    #[serde(skip)]
    acts: Vec<Act>,
    #[serde(skip)]
    sh: Sh,
}
impl HoldLeaf {
    fn held<'a, T>(&self, state: &mut State<'a, P>) -> ExecResult<()>
    where
        T: CustomState<'a> + TidAble<'a> + std::ops::DerefMut<Target = u64>,
    {
        state.holding::<T>(|t, st| {
            let faulty = self.sh.lock().unwrap().hit(2, self.id).1;
            **t += 1;
            apply_acts(&self.acts, 2, st);
            if faulty { Err(fail(2, self.id)) } else { Ok(()) }
        })
    }
}
impl Component<P> for HoldLeaf {
    fn init(&self, _: &P, state: &mut State<P>) -> ExecResult<()> {
        if self.sh.lock().unwrap().hit(0, self.id).1 { return Err(fail(0, self.id)); }
        apply_acts(&self.acts, 0, state);
        Ok(())
    }
    fn require(&self, _: &P, req: &StateReq<P>) -> ExecResult<()> {
        if self.sh.lock().unwrap().hit(1, self.id).1 { return Err(fail(1, self.id)); }
        for a in &self.acts {
            if let Act::Need(k) = *a {
                let r = match k {
                    0 => req.require::<Self, Iterations>(),
                    1 => req.require::<Self, K1>(),
                    2 => req.require::<Self, K2>(),
                    4 => req.require::<Self, Evaluations>(),
                    _ => req.require::<Self, K3>(),
                };
                r.map_err(|_| fail(1, self.id))?;
            }
        }
        Ok(())
    }
    fn execute(&self, _: &P, state: &mut State<P>) -> ExecResult<()> {
        match self.k {
            1 => self.held::<K1>(state),
            2 => self.held::<K2>(state),
            _ => self.held::<K3>(state),
        }
    }
}

#[derive(Clone, Serialize)]
struct ScriptCond {
    id: u64,
    #[serde(skip)]
    sh: Sh,
}
impl Condition<P> for ScriptCond {
    fn init(&self, _: &P, _: &mut State<P>) -> ExecResult<()> {
        if self.sh.lock().unwrap().hit(3, self.id).1 { return Err(fail(3, self.id)); }
        Ok(())
    }
    fn require(&self, _: &P, _: &StateReq<P>) -> ExecResult<()> {
        if self.sh.lock().unwrap().hit(4, self.id).1 { return Err(fail(4, self.id)); }
        Ok(())
    }
    fn evaluate(&self, _: &P, _: &mut State<P>) -> ExecResult<bool> {
        let mut g = self.sh.lock().unwrap();
        let (occ, f) = g.hit(5, self.id);
        if f { return Err(fail(5, self.id)); }
        Ok(match g.conds.get(&self.id) {
            Some((d, vs)) => vs.get(occ as usize).copied().unwrap_or(*d),
            None => false,
        })
    }
}

// ---------------------------------------------------------------- scripted hooks of `Scope::new_with`
// `Scope` takes plain `fn` pointers, so the hooks cannot capture anything: every hooked scope of the
// tree being built gets one of `SLOTS` monomorphic functions, which look their script up in `HOOKS`.
#[derive(Clone)]
struct Hook { id: u64, si: Vec<Act>, mg: Vec<(u64, u64)>, sh: Sh }
const SLOTS: usize = 12;
static HOOKS: Mutex<Vec<Hook>> = Mutex::new(Vec::new());

fn hook(slot: usize) -> Hook {
    HOOKS.lock().unwrap()[slot].clone()
}
/// `state_init`: records `(init, id)`, may fail, otherwise performs the `init` actions on the child state.
fn state_init<const S: usize>(state: &mut State<P>) -> ExecResult<()> {
    let h = hook(S);
    if h.sh.lock().unwrap().hit(0, h.id).1 { return Err(fail(0, h.id)); }
    apply_acts(&h.si, 0, state);
    Ok(())
}
/// `states_merge`: records `(exec, id)`, may fail, otherwise `parent.insert(Kb(child.Ka))` for every
/// `(a, b)` whose `Ka` the (detached) child holds.
fn states_merge<const S: usize>(parent: &mut State<P>, child: State<P>) -> ExecResult<()> {
    let h = hook(S);
    if h.sh.lock().unwrap().hit(2, h.id).1 { return Err(fail(2, h.id)); }
    for (a, b) in &h.mg {
        let v: Option<u64> = match a {
            0 => child.try_get_value::<Iterations>().ok().map(|v| v as u64),
            1 => child.try_get_value::<K1>().ok(),
            2 => child.try_get_value::<K2>().ok(),
            _ => child.try_get_value::<K3>().ok(),
        };
        if let Some(v) = v {
            match b {
                0 => { parent.insert(Iterations(v as u32)); }
                1 => { parent.insert(K1(v)); }
                2 => { parent.insert(K2(v)); }
                _ => { parent.insert(K3(v)); }
            }
        }
    }
    Ok(())
}
type InitFn = fn(&mut State<P>) -> ExecResult<()>;
type MergeFn = fn(&mut State<P>, State<P>) -> ExecResult<()>;
const INITS: [InitFn; SLOTS] = [state_init::<0>, state_init::<1>, state_init::<2>, state_init::<3>, state_init::<4>,
    state_init::<5>, state_init::<6>, state_init::<7>, state_init::<8>, state_init::<9>, state_init::<10>, state_init::<11>];
const MERGES: [MergeFn; SLOTS] = [states_merge::<0>, states_merge::<1>, states_merge::<2>, states_merge::<3>,
    states_merge::<4>, states_merge::<5>, states_merge::<6>, states_merge::<7>, states_merge::<8>, states_merge::<9>,
    states_merge::<10>, states_merge::<11>];

fn parse_act(t: &Sx) -> Act {
    let (k, v) = t.head().unwrap();
    match k {
        "ins" => Act::Ins(ph_of(v[0].atom().unwrap()), v[1].nat().unwrap(), v[2].nat().unwrap()),
        "set" => Act::Set(ph_of(v[0].atom().unwrap()), v[1].nat().unwrap(), v[2].nat().unwrap()),
        "rem" => Act::Rem(ph_of(v[0].atom().unwrap()), v[1].nat().unwrap()),
        "need" => Act::Need(v[0].nat().unwrap()),
        _ => panic!("bad act"),
    }
}
/// `(scopew id (sinit act*) (merge (mv a b)*) T)` → the real hooked scope.
fn hooked_scope(a: &[Sx], sh: &Sh, alt: bool) -> Box<dyn Component<P>> {
    let id = a[0].nat().unwrap();
    let si = a[1].head().unwrap().1.iter().map(parse_act).collect();
    let mg = a[2].head().unwrap().1.iter().map(|m| {
        let v = m.head().unwrap().1;
        (v[0].nat().unwrap(), v[1].nat().unwrap())
    }).collect();
    let slot = {
        let mut g = HOOKS.lock().unwrap();
        g.push(Hook { id, si, mg, sh: sh.clone() });
        g.len() - 1
    };
    assert!(slot < SLOTS, "too many hooked scopes in one tree");
    if is_blk(&a[3]) {
        let body: Vec<Box<dyn Component<P>>> = kids(&a[3]).iter().map(|k| comp_how(k, sh, alt)).collect();
        Scope::new_with(INITS[slot], body, MERGES[slot])
    } else {
        Scope::new_with(INITS[slot], comp_how(&a[3], sh, alt), MERGES[slot])
    }
}

// ---------------------------------------------------------------- building real trees
fn cond(x: &Sx, sh: &Sh) -> Box<dyn Condition<P>> {
    let (h, a) = x.head().expect("cond");
    match h {
        "c" => Box::new(ScriptCond { id: a[0].nat().unwrap(), sh: sh.clone() }),
        "and" => And::new(a.iter().map(|c| cond(c, sh)).collect::<Vec<_>>()),
        "or" => Or::new(a.iter().map(|c| cond(c, sh)).collect::<Vec<_>>()),
        "not" => Not::new(cond(&a[0], sh)),
        // the shipped conditions (cases of c03_real.rs)
        "lt" => {
            let n = a[1].nat().unwrap() as u32;
            if a[0].nat().unwrap() == 0 { LessThanN::iterations(n) } else { LessThanN::evaluations(n) }
        }
        "every" => EveryN::iterations(a[0].nat().unwrap() as u32),
        "chance" => RandomChance::new(if a[0].atom() == Some("t") { 1.0 } else { 0.0 }),
        _ => panic!("bad cond {h}"),
    }
}
fn is_blk(x: &Sx) -> bool {
    matches!(x.head(), Some(("blk", _)))
}
fn kids(x: &Sx) -> &[Sx] {
    x.head().unwrap().1
}
fn fill(mut b: ConfigurationBuilder<P>, xs: &[Sx], sh: &Sh) -> ConfigurationBuilder<P> {
    for x in xs { b = add(b, x, sh); }
    b
}
/// Appends one node through the builder method that corresponds to it (`do_`, `while_`, `if_`,
/// `if_else_`, `scope_`); shapes the builder cannot express use the public constructors.
fn add(b: ConfigurationBuilder<P>, x: &Sx, sh: &Sh) -> ConfigurationBuilder<P> {
    let (h, a) = x.head().expect("node");
    match h {
        "while" if is_blk(&a[1]) => b.while_(cond(&a[0], sh), |bb| fill(bb, kids(&a[1]), sh)),
        "if" if is_blk(&a[1]) => b.if_(cond(&a[0], sh), |bb| fill(bb, kids(&a[1]), sh)),
        "ifelse" if is_blk(&a[1]) && is_blk(&a[2]) =>
            b.if_else_(cond(&a[0], sh), |bb| fill(bb, kids(&a[1]), sh), |bb| fill(bb, kids(&a[2]), sh)),
        "scope" if is_blk(&a[0]) => b.scope_(|bb| fill(bb, kids(&a[0]), sh)),
        _ => b.do_(comp(x, sh)),
    }
}
fn comp(x: &Sx, sh: &Sh) -> Box<dyn Component<P>> {
    let (h, a) = x.head().expect("node");
    match h {
        "leaf" => {
            let acts = a[1..].iter().map(parse_act).collect();
            Box::new(TraceLeaf { id: a[0].nat().unwrap(), acts, sh: sh.clone() })
        }
        "blk" => fill(Configuration::builder(), a, sh).build_component(),
        "while" => Loop::new(cond(&a[0], sh), comp(&a[1], sh)),
        "if" => Branch::new(cond(&a[0], sh), comp(&a[1], sh)),
        "ifelse" => Branch::new_with_else(cond(&a[0], sh), comp(&a[1], sh), comp(&a[2], sh)),
        "scope" => {
            if is_blk(&a[0]) {
                Scope::new(kids(&a[0]).iter().map(|k| comp(k, sh)).collect())
            } else {
                Scope::new_with(|_| Ok(()), comp(&a[0], sh), |_, _| Ok(()))
            }
        }
        "scopew" => hooked_scope(a, sh, false),
        "hold" => {
            let acts = a[2..].iter().map(parse_act).collect();
            Box::new(HoldLeaf { id: a[0].nat().unwrap(), k: a[1].nat().unwrap(), acts, sh: sh.clone() })
        }
        "logger" => mahf::logging::Logger::new(),
        _ => panic!("bad node {h}"),
    }
}

// ---------------------------------------------------------------- the other public construction paths
fn comp_how(x: &Sx, sh: &Sh, alt: bool) -> Box<dyn Component<P>> {
    if alt { comp_alt(x, sh) } else { comp(x, sh) }
}
/// Conditions through the `&`, `|`, `!` operators where the arity allows it.
fn cond_alt(x: &Sx, sh: &Sh) -> Box<dyn Condition<P>> {
    let (h, a) = x.head().expect("cond");
    match h {
        "and" if a.len() == 2 => cond_alt(&a[0], sh) & cond_alt(&a[1], sh),
        "or" if a.len() == 2 => cond_alt(&a[0], sh) | cond_alt(&a[1], sh),
        "and" => And::new(a.iter().map(|c| cond_alt(c, sh)).collect::<Vec<_>>()),
        "or" => Or::new(a.iter().map(|c| cond_alt(c, sh)).collect::<Vec<_>>()),
        "not" => !cond_alt(&a[0], sh),
        _ => cond(x, sh),
    }
}
/// A block's children through `do_many_` / `do_if_some_` (with `None`s in between) / `Block::new`.
fn block_alt(xs: &[Sx], sh: &Sh) -> Box<dyn Component<P>> {
    match xs.len() % 3 {
        0 => Block::new(xs.iter().map(|k| comp_alt(k, sh))),
        1 => Configuration::builder().do_many_(xs.iter().map(|k| comp_alt(k, sh)).collect::<Vec<_>>()).build_component(),
        _ => {
            let mut b = Configuration::builder().do_if_some_(None);
            for k in xs { b = b.do_if_some_(Some(comp_alt(k, sh))).do_if_some_(None); }
            b.build_component()
        }
    }
}
fn body_alt(x: &Sx, sh: &Sh) -> Box<dyn Component<P>> {
    // a `Vec` body goes through `From<IntoIterator> for Box<dyn Component>`
    if is_blk(x) { kids(x).iter().map(|k| comp_alt(k, sh)).collect::<Vec<_>>().into() } else { comp_alt(x, sh) }
}
fn comp_alt(x: &Sx, sh: &Sh) -> Box<dyn Component<P>> {
    let (h, a) = x.head().expect("node");
    match h {
        "blk" => block_alt(a, sh),
        "while" => Loop::new(cond_alt(&a[0], sh), body_alt(&a[1], sh)),
        "if" => Branch::new(cond_alt(&a[0], sh), body_alt(&a[1], sh)),
        "ifelse" => Branch::new_with_else(cond_alt(&a[0], sh), body_alt(&a[1], sh), body_alt(&a[2], sh)),
        "scope" => Scope::new_with(|_| Ok(()), body_alt(&a[0], sh), |_, _| Ok(())),
        "scopew" => hooked_scope(a, sh, true),
        _ => comp(x, sh),
    }
}

// ---------------------------------------------------------------- reading the built tree back
/// Name-preserving serialisation (hcommon::sertree) of a component → wire form without leaf actions.
fn built_node(x: &Sx) -> String {
    let field = |x: &Sx, name: &str| -> Option<Sx> {
        x.items()?.iter().find(|f| matches!(f.head(), Some((n, _)) if n == name)).and_then(|f| f.items().map(|v| v[1].clone()))
    };
    match x.head() {
        Some(("seq", kids)) => tagged("blk", kids.iter().map(built_node)),
        Some(("S", a)) => match a[0].atom() {
            Some("TraceLeaf") => format!("(leaf {})", field(x, "id").map(|v| v.render()).unwrap_or("?".into())),
            Some("Loop") => format!("(while {} {})", built_cond(&field(x, "while").unwrap()), built_node(&field(x, "do").unwrap())),
            Some("Branch") => {
                let c = built_cond(&field(x, "condition").unwrap());
                let t = built_node(&field(x, "if_body").unwrap());
                match field(x, "else_body") {
                    Some(Sx::A(_)) | None => format!("(if {c} {t})"),
                    Some(e) => format!("(ifelse {c} {t} {})", built_node(&e.items().unwrap()[1])),
                }
            }
            Some("Scope") => format!("(scope {})", built_node(&field(x, "body").unwrap())),
            _ => "(unknown)".into(),
        },
        _ => "(unknown)".into(),
    }
}
fn built_cond(x: &Sx) -> String {
    match x.head() {
        Some(("S", a)) if a[0].atom() == Some("ScriptCond") => format!("(c {})", a[1].items().unwrap()[1].render()),
        Some(("N", a)) => match a[0].atom() {
            Some("And") => tagged("and", a[1].head().unwrap().1.iter().map(built_cond)),
            Some("Or") => tagged("or", a[1].head().unwrap().1.iter().map(built_cond)),
            Some("Not") => format!("(not {})", built_cond(&a[1])),
            _ => "(unknown)".into(),
        },
        _ => "(unknown)".into(),
    }
}

// ---------------------------------------------------------------- well-formedness (all loops stop)
fn cond_default(x: &Sx, conds: &HashMap<u64, (bool, Vec<bool>)>) -> bool {
    let (h, a) = x.head().expect("cond");
    match h {
        "c" => conds.get(&a[0].nat().unwrap()).map(|e| e.0).unwrap_or(false),
        "and" => a.iter().all(|c| cond_default(c, conds)),
        "or" => a.iter().any(|c| cond_default(c, conds)),
        _ => !cond_default(&a[0], conds),
    }
}
fn loops_stop(x: &Sx, conds: &HashMap<u64, (bool, Vec<bool>)>) -> bool {
    let (h, a) = x.head().expect("node");
    match h {
        "leaf" => true,
        "blk" => a.iter().all(|k| loops_stop(k, conds)),
        "while" => !cond_default(&a[0], conds) && loops_stop(&a[1], conds),
        "if" => loops_stop(&a[1], conds),
        "ifelse" => loops_stop(&a[1], conds) && loops_stop(&a[2], conds),
        "scopew" => loops_stop(&a[3], conds),
        _ => loops_stop(&a[0], conds),
    }
}

// ---------------------------------------------------------------- one case
struct Ran { out: String, trace: Vec<(u8, u64)> }

fn run_case(input: &Sx) -> Ran {
    let parts = input.items().expect("case");
    let tree = &parts[0].head().unwrap().1[0];
    let mut shared = Shared::default();
    for e in parts[1].head().unwrap().1 {
        let (h, a) = e.head().unwrap();
        match h {
            "cond" => {
                let vals = a[2..].iter().map(|v| v.atom() == Some("t")).collect();
                shared.conds.insert(a[0].nat().unwrap(), (a[1].atom() == Some("t"), vals));
            }
            "fail" => { shared.fails.insert((ph_of(a[0].atom().unwrap()), a[1].nat().unwrap(), a[2].nat().unwrap())); }
            _ => panic!("bad script entry"),
        }
    }
    if !loops_stop(tree, &shared.conds) {
        return Ran { out: "((res illformed))".into(), trace: vec![] };
    }
    let sh: Sh = Arc::new(Mutex::new(shared));
    HOOKS.lock().unwrap().clear();
    let via = parts.get(3).and_then(|v| v.head()).and_then(|(_, a)| a.first()).and_then(|v| v.atom()).unwrap_or("run");
    // the prepared caller state
    fn prepare<'a>(mut state: State<'a, P>, ops: &[Sx]) -> State<'a, P> {
        for op in ops {
            let (h, a) = op.head().unwrap();
            match h {
                "ins" => {
                    let v = a[1].nat().unwrap();
                    match a[0].nat().unwrap() {
                        0 => { state.insert(Iterations(v as u32)); }
                        1 => { state.insert(K1(v)); }
                        2 => { state.insert(K2(v)); }
                        _ => { state.insert(K3(v)); }
                    }
                }
                "push" => { state = State::from(StateRegistry::from(state).into_child()); }
                _ => panic!("bad pre op"),
            }
        }
        state
    }
    let pre_ops = parts[2].head().unwrap().1;
    let mut state: State<P> = if via == "opt" { State::new() } else { prepare(State::new(), pre_ops) };
    let config: Configuration<P> = if via == "alt" {
        // the other construction paths; then `into_inner` / `From<Box<dyn Component>>`, and a clone is what runs
        let original = Configuration::new(comp_alt(tree, &sh)).into_inner();
        let copy = original.clone();   // `dyn_clone` of the whole tree (`Configuration: Clone` would need `P: Clone`)
        drop(original);
        Configuration::from(copy)
    } else if is_blk(tree) {
        fill(Configuration::builder(), kids(tree), &sh).build()
    } else {
        Configuration::new(comp(tree, &sh))
    };
    // what the builder / constructors actually built, read back through the code's own `Serialize`
    let built = hcommon::sertree::to_sexp(config.heuristic()).ok().and_then(|t| Sx::parse(&t)).map(|t| built_node(&t))
        .unwrap_or_else(|| "unserialisable".to_string());
    let problem = TagProblem;
    let mut lost = false;
    let outcome = if via == "opt" {
        // `optimize_with` creates the state itself; the prepared caller state goes in through `init_state`
        assert!(!pre_ops.iter().any(|o| matches!(o.head(), Some(("push", _)))), "(via opt) cannot pre-push scopes");
        match catch(|| config.optimize_with(&problem, |st| {
            let taken = std::mem::take(st);
            *st = prepare(taken, pre_ops);
            Ok(())
        })) {
            None => None,
            Some(Ok(st)) => { state = st; Some(Ok(())) }
            Some(Err(e)) => { lost = true; Some(Err(e)) }
        }
    } else {
        catch(|| config.run(&problem, &mut state))
    };
    let res = classify(outcome);
    let trace = sh.lock().unwrap().trace.clone();
    let mut scopes = vec![];
    let mut cur: Option<&StateRegistry> = Some(&state);
    while let Some(r) = cur {
        let mut kv = vec![];
        if r.contains_at_top::<Iterations>() { kv.push(format!("(0 {})", r.try_get_value::<Iterations>().map(|v| v as i64).unwrap_or(-1))); }
        if r.contains_at_top::<K1>() { kv.push(format!("(1 {})", r.try_get_value::<K1>().map(|v| v as i64).unwrap_or(-1))); }
        if r.contains_at_top::<K2>() { kv.push(format!("(2 {})", r.try_get_value::<K2>().map(|v| v as i64).unwrap_or(-1))); }
        if r.contains_at_top::<K3>() { kv.push(format!("(3 {})", r.try_get_value::<K3>().map(|v| v as i64).unwrap_or(-1))); }
        scopes.push(list(kv));
        cur = r.parent();
    }
    let out = list([
        tagged("trace", trace.iter().map(|(p, i)| format!("({} {})", PH[*p as usize], i))),
        format!("(res {res})"),
        if lost { "(depth -)".to_string() } else { format!("(depth {})", scopes.len()) },
        if lost { "(dump -)".to_string() } else { tagged("dump", scopes) },
        format!("(built {built})"),
    ]);
    Ran { out, trace }
}

/// Result of a run in wire form: which leaf failed in which phase / a `StateError` / something else.
fn classify(outcome: Option<ExecResult<()>>) -> String {
    match outcome {
        None => "panic".to_string(),
        Some(Ok(())) => "ok".to_string(),
        Some(Err(e)) => {
            // which leaf failed in which phase: the scripted error may have been given context on its
            // way up, so every link of the chain is looked at (error messages themselves are not compared)
            let mut found = None;
            let mut state_error = e.downcast_ref::<StateError>().is_some();
            for cause in e.chain() {
                let m = cause.to_string();
                let w: Vec<&str> = m.split(' ').collect();
                if w.len() == 3 && w[0] == "L" && PH.contains(&w[1]) && w[2].parse::<u64>().is_ok() {
                    found = Some(format!("(err {} {})", w[1], w[2]));
                }
                if cause.downcast_ref::<StateError>().is_some() { state_error = true; }
            }
            match found {
                Some(f) => f,
                None if state_error => "counter".to_string(),
                None => "(err other)".to_string(),
            }
        }
    }
}

// ---------------------------------------------------------------- generators
#[derive(Clone, Debug)]
enum Shape {
    Leaf,
    Blk(Vec<Shape>),
    While(Box<Shape>),
    If(Box<Shape>),
    IfElse(Box<Shape>, Box<Shape>),
    Scope(Box<Shape>),
}

/// All shapes with exactly `n` nodes (conditions are not counted).
fn shapes(n: usize, memo: &mut Vec<Option<Vec<Shape>>>) -> Vec<Shape> {
    if let Some(v) = &memo[n] { return v.clone(); }
    let mut out = vec![];
    if n == 1 { out.push(Shape::Leaf); }
    if n >= 1 {
        for seq in seqs(n - 1, memo) { out.push(Shape::Blk(seq)); }
    }
    if n >= 2 {
        for s in shapes(n - 1, memo) {
            out.push(Shape::While(Box::new(s.clone())));
            out.push(Shape::If(Box::new(s.clone())));
            out.push(Shape::Scope(Box::new(s)));
        }
    }
    if n >= 3 {
        for i in 1..n - 1 {
            for a in shapes(i, memo) {
                for b in shapes(n - 1 - i, memo) {
                    out.push(Shape::IfElse(Box::new(a.clone()), Box::new(b)));
                }
            }
        }
    }
    memo[n] = Some(out.clone());
    out
}
/// All sequences of shapes whose sizes add up to `total`.
fn seqs(total: usize, memo: &mut Vec<Option<Vec<Shape>>>) -> Vec<Vec<Shape>> {
    if total == 0 { return vec![vec![]]; }
    let mut out = vec![];
    for first in 1..=total {
        for f in shapes(first, memo) {
            for rest in seqs(total - first, memo) {
                let mut v = vec![f.clone()];
                v.extend(rest);
                out.push(v);
            }
        }
    }
    out
}

/// A condition occurrence in a rendered tree: its leaves with their defaults; the first is primary.
struct CondInfo { leaves: Vec<(u64, bool)> }

struct Ren<'a> { rng: &'a mut Sm, next_leaf: u64, next_cond: u64, conds: Vec<CondInfo>, rich_conds: bool, calm: bool,
    /// probability (num, den) that a scope gets scripted hooks (`scopew`); at most `SLOTS` per tree
    hook_p: (u64, u64), n_hooks: usize }
impl<'a> Ren<'a> {
    fn new(rng: &'a mut Sm, rich_conds: bool, calm: bool, hook_p: (u64, u64)) -> Ren<'a> {
        Ren { rng, next_leaf: 1, next_cond: 101, conds: vec![], rich_conds, calm, hook_p, n_hooks: 0 }
    }
    /// Scripts of the two hooks of a `scopew` node.
    fn hooks(&mut self, id: u64) -> (String, String) {
        let v = 3 * id;
        let k = self.rng.range(1, 3);
        let k2 = self.rng.range(1, 3);
        let si = match self.rng.below(7) {
            0 => String::new(),
            1 | 2 => format!(" (ins init {k} {v})"),
            3 => format!(" (ins init {k} {v}) (ins init 0 3)"),
            4 => format!(" (set init {k} {v})"),
            5 => format!(" (rem init {k})"),
            _ => format!(" (ins init 1 {v}) (ins init 2 {})", v + 1),
        };
        let mg = match self.rng.below(8) {
            0 => String::new(),
            1 | 2 => format!(" (mv {k} {k})"),
            3 => format!(" (mv {k} {k2})"),
            4 => " (mv 0 3)".to_string(),
            5 => " (mv 1 1) (mv 2 1)".to_string(),
            6 => " (mv 0 0)".to_string(),
            _ => " (mv 3 3) (mv 1 2)".to_string(),
        };
        (si, mg)
    }
    fn acts(&mut self, id: u64) -> String {
        let v = 10 * id;
        let k = self.rng.range(1, 3);
        // large random trees: fewer leaves that make the whole run stop early
        let pick = if self.calm && self.rng.chance(2, 3) { self.rng.pick(&[0u64, 2, 3, 7, 8, 9, 13, 4]).clone() } else { self.rng.below(21) };
        match pick {
            0 | 1 => String::new(),
            2 => format!(" (ins exec {k} {v})"),
            3 => format!(" (set exec {k} {v})"),
            4 => format!(" (rem exec {k})"),
            5 => format!(" (ins init {k} {v}) (need {k})"),
            6 => format!(" (need {k})"),
            7 => format!(" (ins exec 2 {v}) (set exec 1 {})", v + 1),
            8 => format!(" (ins init {k} {v})"),
            9 => format!(" (set init {k} {v})"),
            10 => format!(" (set exec 0 {v})"),
            11 => " (rem exec 0)".to_string(),
            12 => format!(" (ins exec 3 {v}) (rem exec 2) (need 1)"),
            13 => format!(" (ins exec 1 {v}) (set exec 1 {}) (ins exec 1 {})", v + 1, v + 2),
            14 => format!(" (rem init {k}) (set exec {k} {v})"),
            15 => format!(" (ins exec 0 {v})"),
            // the loop counter touched during `init` / required (order of `Loop::init`'s insert vs the body's init)
            16 => format!(" (set init 0 {v})"),
            17 => format!(" (ins init 0 {v})"),
            18 => " (rem init 0)".to_string(),
            19 => " (need 0)".to_string(),
            _ => format!(" (need 0) (set exec 0 {v})"),
        }
    }
    /// `neg` = the loop/branch value is the negation of what the leaves below must deliver.
    fn cond(&mut self) -> String {
        let id = self.next_cond;
        self.next_cond += 3;
        let form = if self.rich_conds { self.rng.below(14) } else { 0 };
        let (s, leaves) = match form {
            0..=4 => (format!("(c {id})"), vec![(id, false)]),
            5 => (format!("(not (c {id}))"), vec![(id, true)]),
            6 => (format!("(and (c {id}) (c {}))", id + 1), vec![(id, false), (id + 1, false)]),
            7 => (format!("(or (c {id}) (c {}))", id + 1), vec![(id, false), (id + 1, false)]),
            8 => (format!("(and (c {id}) (not (c {})))", id + 1), vec![(id, false), (id + 1, true)]),
            9 => (format!("(not (or (not (c {id})) (c {})))", id + 1), vec![(id, false), (id + 1, true)]),
            // three operands, empty `And` (= true), one-operand `Or`, empty `Or` (= false)
            10 => (format!("(and (c {id}) (c {}) (c {}))", id + 1, id + 2), vec![(id, false), (id + 1, false), (id + 2, false)]),
            11 => (format!("(or (c {id}) (not (c {})) (c {}))", id + 1, id + 2), vec![(id, false), (id + 1, true), (id + 2, false)]),
            12 => (format!("(and (c {id}) (or (and)))"), vec![(id, false)]),
            _ => (format!("(or (or) (c {id}))"), vec![(id, false)]),
        };
        self.conds.push(CondInfo { leaves });
        s
    }
    fn node(&mut self, s: &Shape) -> String {
        match s {
            Shape::Leaf => {
                let id = self.next_leaf;
                self.next_leaf += 1;
                format!("(leaf {id}{})", self.acts(id))
            }
            Shape::Blk(v) => tagged("blk", v.iter().map(|k| self.node(k)).collect::<Vec<_>>()),
            Shape::While(b) => { let c = self.cond(); format!("(while {c} {})", self.node(b)) }
            Shape::If(b) => { let c = self.cond(); format!("(if {c} {})", self.node(b)) }
            Shape::IfElse(a, b) => { let c = self.cond(); format!("(ifelse {c} {} {})", self.node(a), self.node(b)) }
            Shape::Scope(b) => {
                if self.n_hooks < SLOTS && self.hook_p.0 > 0 && self.rng.chance(self.hook_p.0, self.hook_p.1) {
                    let id = 900 + self.n_hooks as u64;
                    self.n_hooks += 1;
                    let (si, mg) = self.hooks(id);
                    format!("(scopew {id} (sinit{si}) (merge{mg}) {})", self.node(b))
                } else {
                    format!("(scope {})", self.node(b))
                }
            }
        }
    }
}

fn has_scope(s: &Shape) -> bool {
    match s {
        Shape::Leaf => false,
        Shape::Blk(v) => v.iter().any(has_scope),
        Shape::While(b) | Shape::If(b) => has_scope(b),
        Shape::IfElse(a, b) => has_scope(a) || has_scope(b),
        Shape::Scope(_) => true,
    }
}

fn pre(rng: &mut Sm) -> String {
    match rng.below(7) {
        0 => "(pre)".into(),
        1 => "(pre (ins 1 100))".into(),
        2 => "(pre (ins 1 100) (ins 2 200))".into(),
        3 => "(pre (ins 1 100) (push) (ins 2 200))".into(),
        4 => "(pre (ins 0 7) (ins 1 100) (ins 3 300))".into(),
        // a loop counter of the caller that is only visible through a lower scope
        5 => "(pre (ins 0 7) (ins 2 200) (push) (ins 1 100))".into(),
        _ => "(pre (ins 2 200) (push) (ins 1 100) (ins 2 201) (push))".into(),
    }
}

/// The truth sequences of length <= 3 that differ in behaviour when the default is `false`.
const SEQS: [&[bool]; 8] = [&[], &[true], &[true, true], &[false, true], &[true, true, true],
    &[true, false, true], &[false, true, true], &[false, false, true]];

fn script_entry(id: u64, default: bool, vals: &[bool]) -> String {
    format!("(cond {id} {}{})", b(default), vals.iter().map(|v| format!(" {}", b(*v))).collect::<String>())
}

fn case_str(tree: &str, script: &[String], pre: &str, via: &str) -> String {
    if via == "run" {
        format!("((tree {tree}) {} {pre})", tagged("script", script.iter().cloned()))
    } else {
        format!("((tree {tree}) {} {pre} (via {via}))", tagged("script", script.iter().cloned()))
    }
}
/// Site suffix of a fault: the phase, `h`-prefixed for the hooks of a `scopew` node (ids from 900).
fn fault_site(fam: &str, p: u8, id: u64) -> String {
    if id >= 900 && p != 3 && p != 4 && p != 5 { format!("{fam}-h{}", PH[p as usize]) } else { format!("{fam}-{}", PH[p as usize]) }
}

struct Emit { out: Out, budget: u64 }
impl Emit {
    /// Emits the fault-free case and one case per fault point (distinct (phase, id, occurrence) of the
    /// fault-free trace); `max_faults` caps the latter by sampling.
    fn with_faults(&mut self, fam: &str, tree: &str, script: &[String], pre: &str, rng: &mut Sm, max_faults: usize) {
        self.with_faults_via(fam, "run", tree, script, pre, rng, max_faults)
    }
    /// The same tree / script / caller state built and run the other ways (`alt`; `opt` if the caller
    /// state has a single scope), fault-free and with a few of the fault points.
    fn other_ways(&mut self, fam: &str, tree: &str, script: &[String], pre: &str, rng: &mut Sm, max_faults: usize) {
        self.with_faults_via(&format!("{fam}/alt"), "alt", tree, script, pre, rng, max_faults);
        if !pre.contains("(push)") {
            self.with_faults_via(&format!("{fam}/opt"), "opt", tree, script, pre, rng, max_faults);
        }
    }
    fn with_faults_via(&mut self, fam: &str, via: &str, tree: &str, script: &[String], pre: &str, rng: &mut Sm, max_faults: usize) {
        let input = case_str(tree, script, pre, via);
        let r = run_case(&Sx::parse(&input).unwrap());
        self.out.case(fam, &input, &r.out);
        let mut seen: HashMap<(u8, u64), u64> = HashMap::new();
        let mut points = vec![];
        for (p, i) in &r.trace {
            let c = seen.entry((*p, *i)).or_insert(0);
            points.push((*p, *i, *c));
            *c += 1;
        }
        while points.len() > max_faults {
            let k = rng.below(points.len() as u64) as usize;
            points.swap_remove(k);
        }
        for (p, i, o) in points {
            let mut sc = script.to_vec();
            sc.push(format!("(fail {} {i} {o})", PH[p as usize]));
            let input = case_str(tree, &sc, pre, via);
            let r = run_case(&Sx::parse(&input).unwrap());
            self.out.case(&fault_site(fam, p, i), &input, &r.out);
        }
        self.budget = self.budget.saturating_sub(1);
    }
}

/// Random large tree with nested loop-in-scope-in-branch shapes.
fn rand_shape(rng: &mut Sm, budget: &mut i64, depth: u32) -> Shape {
    *budget -= 1;
    if *budget <= 0 || depth > 7 { return Shape::Leaf; }
    match rng.below(100) {
        0..=27 => Shape::Leaf,
        28..=49 => {
            let n = rng.range(0, 4);
            Shape::Blk((0..n).map(|_| rand_shape(rng, budget, depth + 1)).collect())
        }
        50..=63 => Shape::While(Box::new(rand_shape(rng, budget, depth + 1))),
        64..=72 => Shape::If(Box::new(rand_shape(rng, budget, depth + 1))),
        73..=82 => Shape::IfElse(Box::new(rand_shape(rng, budget, depth + 1)), Box::new(rand_shape(rng, budget, depth + 1))),
        83..=92 => Shape::Scope(Box::new(rand_shape(rng, budget, depth + 1))),
        // the nesting the property talks about: if { scope { while { … } } }
        _ => Shape::If(Box::new(Shape::Blk(vec![
            rand_shape(rng, budget, depth + 2),
            Shape::Scope(Box::new(Shape::Blk(vec![
                Shape::While(Box::new(rand_shape(rng, budget, depth + 3))),
                rand_shape(rng, budget, depth + 3)]))),
        ]))),
    }
}
fn size(s: &Shape) -> usize {
    match s {
        Shape::Leaf => 1,
        Shape::Blk(v) => 1 + v.iter().map(size).sum::<usize>(),
        Shape::While(b) | Shape::If(b) | Shape::Scope(b) => 1 + size(b),
        Shape::IfElse(a, b) => 1 + size(a) + size(b),
    }
}

fn main() {
    quiet_panics();
    let a = args();
    if let Some(r) = a.replay {
        let mut out = Out::new();
        let sx = Sx::parse(&r).expect("bad replay input");
        if real::is_real(&sx) {
            out.case("replay", &r, &real::run_case_real(&sx).out);
        } else {
            out.case("replay", &r, &run_case(&sx).out);
        }
        out.finish();
        return;
    }
    let mut em = Emit { out: Out::new(), budget: 0 };
    let mut rng = Sm::new(a.seed ^ 0xC03);

    // 1. exhaustive small trees x condition scripts x every single fault point
    let max_nodes = if a.thorough { 5 } else { 4 };
    let script_cap = if a.thorough { 128 } else { 24 };
    let mut memo = vec![None; 8];
    for n in 1..=max_nodes {
        let all = shapes(n, &mut memo);
        for (ti, shape) in all.iter().enumerate() {
            let variants = if n <= 3 { 3 } else { 1 };
            for var in 0..variants {
                let mut r = Ren::new(&mut rng, var == 2 || ti % 5 == 4, false, (0, 1));
                let tree = r.node(shape);
                let conds = r.conds;
                let pre_s = pre(&mut rng);
                let mut first = true;
                // every combination of canonical sequences for the primary leaf of each condition
                let nc = conds.len();
                let total: u64 = 8u64.pow(nc as u32);
                let idxs: Vec<u64> = if total <= script_cap { (0..total).collect() } else { (0..script_cap).map(|_| rng.below(total)).collect() };
                for mut ix in idxs {
                    let mut script = vec![];
                    for c in &conds {
                        let seq = SEQS[(ix % 8) as usize];
                        ix /= 8;
                        let (id, d) = c.leaves[0];
                        let vals: Vec<bool> = seq.iter().map(|v| *v != d).collect();
                        script.push(script_entry(id, d, &vals));
                        for (id2, d2) in &c.leaves[1..] {
                            let l = rng.below(4) as usize;
                            let vals: Vec<bool> = (0..l).map(|_| rng.chance(1, 2)).collect();
                            script.push(script_entry(*id2, *d2, &vals));
                        }
                    }
                    em.with_faults("exh", &tree, &script, &pre_s, &mut rng, if a.thorough { 40 } else { 24 });
                    if first || rng.chance(1, 8) {
                        em.other_ways("exh", &tree, &script, &pre_s, &mut rng, 6);
                        first = false;
                    }
                }
            }
        }
    }
    // 1a. hooked scopes (`Scope::new_with`): every small shape that contains a scope, the hooks scripted
    for n in 2..=max_nodes {
        let all = shapes(n, &mut memo);
        for (ti, shape) in all.iter().enumerate() {
            if !has_scope(shape) { continue; }
            let variants = if n <= 3 { 6 } else if a.thorough { 3 } else { 2 };
            for var in 0..variants {
                let mut r = Ren::new(&mut rng, var % 3 == 2 || ti % 5 == 4, false, (7, 8));
                let tree = r.node(shape);
                if r.n_hooks == 0 { continue; }
                let conds = r.conds;
                let pre_s = pre(&mut rng);
                let nc = conds.len();
                let total: u64 = 8u64.pow(nc as u32);
                let cap = if a.thorough { 32 } else { 8 };
                let idxs: Vec<u64> = if total <= cap { (0..total).collect() } else { (0..cap).map(|_| rng.below(total)).collect() };
                for mut ix in idxs {
                    let mut script = vec![];
                    for c in &conds {
                        let seq = SEQS[(ix % 8) as usize];
                        ix /= 8;
                        let (id, d) = c.leaves[0];
                        let vals: Vec<bool> = seq.iter().map(|v| *v != d).collect();
                        script.push(script_entry(id, d, &vals));
                        for (id2, d2) in &c.leaves[1..] {
                            let l = rng.below(4) as usize;
                            let vals: Vec<bool> = (0..l).map(|_| rng.chance(1, 2)).collect();
                            script.push(script_entry(*id2, *d2, &vals));
                        }
                    }
                    em.with_faults("hook", &tree, &script, &pre_s, &mut rng, if a.thorough { 40 } else { 24 });
                    if rng.chance(1, 6) { em.other_ways("hook", &tree, &script, &pre_s, &mut rng, 6); }
                }
            }
        }
    }
    // 1b. thorough: 6-node trees, sampled
    if a.thorough {
        let all = shapes(6, &mut memo);
        for _ in 0..6000 {
            let shape = rng.pick(&all).clone();
            let mut r = Ren::new(&mut rng, true, false, (1, 3));
            let tree = r.node(&shape);
            let conds = r.conds;
            let mut script = vec![];
            for c in &conds {
                for (k, (id, d)) in c.leaves.iter().enumerate() {
                    let seq = SEQS[rng.below(8) as usize];
                    let vals: Vec<bool> = if k == 0 { seq.iter().map(|v| *v != *d).collect() } else { (0..rng.below(4)).map(|_| rng.chance(1, 2)).collect() };
                    script.push(script_entry(*id, *d, &vals));
                }
            }
            let pre_s = pre(&mut rng);
            em.with_faults("exh6", &tree, &script, &pre_s, &mut rng, 12);
        }
    }
    // 2. seeded random large trees
    let n_rand = if a.thorough { 4000 } else { 250 };
    let mut made = 0;
    while made < n_rand {
        let mut budget = rng.range(20, 60) as i64;
        let shape = Shape::Blk((0..rng.range(2, 5)).map(|_| rand_shape(&mut rng, &mut budget, 1)).collect());
        let sz = size(&shape);
        if !(20..=70).contains(&sz) { continue; }
        made += 1;
        let mut r = Ren::new(&mut rng, true, true, if made % 2 == 0 { (1, 2) } else { (0, 1) });
        let tree = r.node(&shape);
        let conds = r.conds;
        let mut script = vec![];
        for c in &conds {
            for (id, d) in &c.leaves {
                let l = rng.range(1, 6) as usize;
                // biased towards the non-default value so that loops make passes and branches are taken
                let vals: Vec<bool> = (0..l).map(|_| if rng.chance(3, 4) { !*d } else { *d }).collect();
                script.push(script_entry(*id, *d, &vals));
            }
        }
        let pre_s = pre(&mut rng);
        em.with_faults("rand", &tree, &script, &pre_s, &mut rng, if a.thorough { 10 } else { 8 });
        if made % 2 == 0 { em.other_ways("rand", &tree, &script, &pre_s, &mut rng, 3); }
    }
    // 3. shipped conditions at their boundary parameters and faults inside `State::holding` closures
    real::generate(&mut em, &mut rng, a.thorough);
    em.out.finish();
}
