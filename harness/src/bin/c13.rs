//! C13 — variation operators. Part 1: the functional helpers, exhaustively in a small scope.
//! Part 2: the mutation / recombination components on seeded populations with witness recovery.
use hcommon::*;
use mahf::components::mutation::functional as mf;
use mahf::components::recombination::functional as rf;

#[path = "../c13_comp.rs"]
mod comp;

fn us(x: &Sx) -> Vec<usize> {
    x.items().unwrap().iter().map(|t| t.nat().unwrap() as usize).collect()
}
fn fl(x: &Sx) -> Vec<f64> {
    x.items().unwrap().iter().map(|t| t.float().unwrap()).collect()
}
fn bools(x: &Sx) -> Vec<bool> {
    x.items().unwrap().iter().map(|t| t.atom().unwrap() == "t").collect()
}
fn vs(v: &[usize]) -> String {
    nats(v.iter().map(|&x| x as u64))
}
fn fs(v: &[f64]) -> String {
    list(v.iter().map(|&x| fx(x)))
}
fn bs(v: &[bool]) -> String {
    list(v.iter().map(|&x| b(x)))
}
fn opt(r: Option<String>) -> String {
    r.unwrap_or_else(|| "panic".into())
}

/// Executes one helper case on the real functions.
fn run_helper(name: &str, a: &[Sx]) -> Option<String> {
    Some(match name {
        "cswap" => {
            let (l, idx) = (us(&a[0]), us(&a[1]));
            let r1 = catch(|| { let mut p = l.clone(); mf::circular_swap(&mut p, &idx); vs(&p) });
            let r2 = catch(|| { let mut p = l.clone(); mf::circular_swap2(&mut p, &idx); vs(&p) });
            list([opt(r1), opt(r2)])
        }
        "transl" => {
            let l = us(&a[0]);
            let (s, e, i) = (a[1].nat().unwrap() as usize, a[2].nat().unwrap() as usize, a[3].nat().unwrap() as usize);
            let r1 = catch(|| { let mut p = l.clone(); mf::translocate_slice(&mut p, s..e, i); vs(&p) });
            let r2 = catch(|| { let mut p = l.clone(); mf::translocate_slice2(&mut p, s..e, i); vs(&p) });
            list([opt(r1), opt(r2)])
        }
        "mpx" => {
            let (p1, p2, idx) = (us(&a[0]), us(&a[1]), us(&a[2]));
            opt(catch(|| { let [c1, c2] = rf::multi_point_crossover(&p1, &p2, &idx); list([vs(&c1), vs(&c2)]) }))
        }
        "ux" => {
            let (p1, p2, m) = (us(&a[0]), us(&a[1]), bools(&a[2]));
            opt(catch(|| { let [c1, c2] = rf::uniform_crossover(&p1, &p2, &m); list([vs(&c1), vs(&c2)]) }))
        }
        "ax" => {
            let (p1, p2, al) = (fl(&a[0]), fl(&a[1]), fl(&a[2]));
            opt(catch(|| { let [c1, c2] = rf::arithmetic_crossover(&p1, &p2, &al); list([fs(&c1), fs(&c2)]) }))
        }
        "cx" => {
            let (p1, p2) = (us(&a[0]), us(&a[1]));
            opt(catch(|| { let [c1, c2] = rf::cycle_crossover(&p1, &p2); list([vs(&c1), vs(&c2)]) }))
        }
        _ => return None,
    })
}

fn run_case(input: &Sx) -> String {
    let (name, a) = input.head().expect("input must be a tagged list");
    if let Some(r) = run_helper(name, a) {
        return r;
    }
    comp::run_component(name, a)
}

/// Site of a helper case; inputs outside the helper's documented domain go to `<site>!malformed`.
fn helper_site(input: &Sx) -> String {
    let (name, a) = input.head().unwrap();
    let distinct = |v: &[usize]| { let mut s = v.to_vec(); s.sort(); s.dedup(); s.len() == v.len() };
    match name {
        "cswap" => {
            let (l, idx) = (us(&a[0]), us(&a[1]));
            let ok = idx.len() >= 2 && distinct(&idx) && idx.iter().all(|&i| i < l.len());
            format!("circular_swap{}", if ok { "" } else { "!malformed" })
        }
        "transl" => {
            let n = us(&a[0]).len() as u64;
            let (s, e, i) = (a[1].nat().unwrap(), a[2].nat().unwrap(), a[3].nat().unwrap());
            let ok = i < n && s < n && e <= n && s <= e && i + (e - s) <= n;
            format!("translocate_slice{}", if ok { "" } else { "!malformed" })
        }
        "mpx" => {
            let (p1, p2, idx) = (us(&a[0]), us(&a[1]), us(&a[2]));
            let ok = p1.len() == p2.len() && !idx.is_empty() && idx.len() < p1.len() && idx.iter().all(|&i| i <= p1.len());
            format!("multi_point_crossover{}", if ok { "" } else { "!malformed" })
        }
        "ux" => {
            let (p1, p2, m) = (us(&a[0]), us(&a[1]), bools(&a[2]));
            let ok = p1.len() == p2.len() && m.len() == p1.len();
            format!("uniform_crossover{}", if ok { "" } else { "!malformed" })
        }
        "ax" => {
            let (p1, p2, al) = (fl(&a[0]), fl(&a[1]), fl(&a[2]));
            let ok = p1.len() == p2.len() && al.len() == p1.len() && al.iter().all(|x| (0.0..=1.0).contains(x));
            format!("arithmetic_crossover{}", if ok { "" } else { "!malformed" })
        }
        "cx" => {
            let (p1, p2) = (us(&a[0]), us(&a[1]));
            let mut s1 = p1.clone(); s1.sort();
            let mut s2 = p2.clone(); s2.sort();
            let ok = distinct(&p1) && s1 == s2;
            format!("cycle_crossover{}", if ok { "" } else { "!malformed" })
        }
        _ => comp::site_of(name, a),
    }
}

/// All injective tuples of length `k` over `0..n`, in lexicographic order.
fn injective(n: usize, k: usize, cur: &mut Vec<usize>, out: &mut Vec<Vec<usize>>) {
    if cur.len() == k {
        out.push(cur.clone());
        return;
    }
    for i in 0..n {
        if !cur.contains(&i) {
            cur.push(i);
            injective(n, k, cur, out);
            cur.pop();
        }
    }
}

fn permutations(n: usize) -> Vec<Vec<usize>> {
    let mut out = vec![];
    injective(n, n, &mut vec![], &mut out);
    out
}

/// All subsets of `0..=n` given as bit masks, as vectors (ascending).
fn subset(mask: u32, n: usize) -> Vec<usize> {
    (0..=n).filter(|i| mask >> i & 1 == 1).collect()
}

fn main() {
    quiet_panics();
    let a = args();
    let mut out = Out::new();
    if let Some(r) = a.replay {
        let sx = Sx::parse(&r).expect("bad replay input");
        out.case(&helper_site(&sx), &r, &run_case(&sx));
        out.finish();
        return;
    }
    let mut emit = |input: String| {
        let sx = Sx::parse(&input).unwrap();
        out.case(&helper_site(&sx), &input, &run_case(&sx));
    };
    let mut rng = Sm::new(a.seed);

    // ---- 1. circular swaps: identity list of length n, every injective tuple of length 2..n
    let nmax = if a.thorough { 7 } else { 6 };
    for n in 2..=nmax {
        let l: Vec<usize> = (0..n).collect();
        for k in 2..=n {
            let mut tuples = vec![];
            injective(n, k, &mut vec![], &mut tuples);
            for t in tuples {
                emit(format!("(cswap {} {})", vs(&l), vs(&t)));
            }
        }
    }
    // malformed: too short, out of range, repeated indices (panic / defined-but-unspecified)
    for n in 0..=4usize {
        let l: Vec<usize> = (0..n).collect();
        emit(format!("(cswap {} ())", vs(&l)));
        for i in 0..=n { emit(format!("(cswap {} ({}))", vs(&l), i)); }
        for i in 0..=n { for j in 0..=n {
            if i == j || i == n || j == n { emit(format!("(cswap {} ({} {}))", vs(&l), i, j)); }
            for k in 0..=n {
                if i == j || j == k || i == k || i == n || j == n || k == n {
                    emit(format!("(cswap {} ({} {} {}))", vs(&l), i, j, k));
                }
            }
        } }
    }
    // non-identity content (tags), random injective tuples
    for _ in 0..(if a.thorough { 4000 } else { 400 }) {
        let n = rng.range(2, 9) as usize;
        let l: Vec<usize> = (0..n).map(|i| 100 + 7 * i + rng.below(5) as usize).collect();
        let k = rng.range(2, n as u64) as usize;
        let mut pool: Vec<usize> = (0..n).collect();
        let mut t = vec![];
        for _ in 0..k { t.push(pool.remove(rng.below(pool.len() as u64) as usize)); }
        emit(format!("(cswap {} {})", vs(&l), vs(&t)));
    }

    // ---- 2. translocation: every (range, index) satisfying or just violating the contracts
    for n in 0..=nmax {
        let l: Vec<usize> = (0..n).collect();
        for s in 0..=n + 1 { for e in 0..=n + 1 { for i in 0..=n + 1 {
            emit(format!("(transl {} {} {} {})", vs(&l), s, e, i));
        } } }
    }

    // ---- 3. multi-point / uniform crossover: every parent pair over {0,1}, every cut set / mask
    let lmax = 5usize;
    for n in 1..=lmax {
        for b1 in 0..(1u32 << n) { for b2 in 0..(1u32 << n) {
            let p1: Vec<usize> = (0..n).map(|i| (b1 >> i & 1) as usize).collect();
            let p2: Vec<usize> = (0..n).map(|i| (b2 >> i & 1) as usize).collect();
            // thin out in the quick tier: all pairs for n ≤ 3, every 5th pair above (plus the complementary pairs)
            let keep = a.thorough || n <= 3 || (b1 * 31 + b2) % 5 == 0 || b1 ^ b2 == (1 << n) - 1;
            if !keep { continue; }
            for cuts in 0..(1u32 << (n + 1)) {
                let c = subset(cuts, n);
                emit(format!("(mpx {} {} {})", vs(&p1), vs(&p2), vs(&c)));
            }
            for m in 0..(1u32 << n) {
                let mask: Vec<bool> = (0..n).map(|i| m >> i & 1 == 1).collect();
                emit(format!("(ux {} {} {})", vs(&p1), vs(&p2), bs(&mask)));
            }
        } }
    }
    // tagged parents (all genes distinct): every cut set in every order for n ≤ 4, masks incl. wrong lengths
    for n in 1..=5usize {
        let p1: Vec<usize> = (0..n).map(|i| 10 + i).collect();
        let p2: Vec<usize> = (0..n).map(|i| 20 + i).collect();
        for k in 1..=n.min(4) {
            let mut tuples = vec![];
            injective(n + 1, k, &mut vec![], &mut tuples);
            for t in tuples { emit(format!("(mpx {} {} {})", vs(&p1), vs(&p2), vs(&t))); }
        }
        emit(format!("(mpx {} {} ({}))", vs(&p1), vs(&p2), n + 1));
        emit(format!("(mpx {} {} ({} {}))", vs(&p1), vs(&p2), 0, n + 2));
        emit(format!("(mpx {} {} (1 1))", vs(&p1), vs(&p2)));
        for ml in 0..=n + 2 { for m in 0..(1u32 << ml) {
            if ml == n { continue; }
            let mask: Vec<bool> = (0..ml).map(|i| m >> i & 1 == 1).collect();
            emit(format!("(ux {} {} {})", vs(&p1), vs(&p2), bs(&mask)));
        } }
    }
    // parents of different lengths (outside the property; the code has a separate branch for them)
    for n1 in 0..=4usize { for n2 in 0..=4usize {
        if n1 == n2 { continue; }
        let p1: Vec<usize> = (0..n1).map(|i| 10 + i).collect();
        let p2: Vec<usize> = (0..n2).map(|i| 20 + i).collect();
        let m = n1.max(n2);
        for k in 0..=2usize {
            let mut tuples = vec![];
            injective(m + 2, k, &mut vec![], &mut tuples);
            for t in tuples { emit(format!("(mpx {} {} {})", vs(&p1), vs(&p2), vs(&t))); }
        }
        for ml in 0..=m + 1 { for mm in 0..(1u32 << ml) {
            let mask: Vec<bool> = (0..ml).map(|i| mm >> i & 1 == 1).collect();
            emit(format!("(ux {} {} {})", vs(&p1), vs(&p2), bs(&mask)));
        } }
    } }

    // ---- 4. cycle crossover: all pairs of permutations of 0..n, n ≤ 5; plus non-permutations
    for n in 0..=5usize {
        let perms = permutations(n);
        for p1 in &perms { for p2 in &perms {
            emit(format!("(cx {} {})", vs(p1), vs(p2)));
        } }
    }
    for n in 1..=3usize {
        // every pair of words over {0,1,2} of length n (mostly not permutations: contract panics / unwrap)
        let words = 3usize.pow(n as u32);
        for w1 in 0..words { for w2 in 0..words {
            let p1: Vec<usize> = (0..n).map(|i| w1 / 3usize.pow(i as u32) % 3).collect();
            let p2: Vec<usize> = (0..n).map(|i| w2 / 3usize.pow(i as u32) % 3).collect();
            emit(format!("(cx {} {})", vs(&p1), vs(&p2)));
        } }
    }
    emit("(cx (0 1 2) (0 1))".into());
    emit("(cx (0 1 2) (3 4 5))".into());
    for _ in 0..(if a.thorough { 3000 } else { 300 }) {
        let n = rng.range(6, 10) as usize;
        let mut p1: Vec<usize> = (0..n).map(|i| 50 + 3 * i).collect();
        let mut p2 = p1.clone();
        for i in (1..n).rev() { p1.swap(i, rng.below(i as u64 + 1) as usize); p2.swap(i, rng.below(i as u64 + 1) as usize); }
        emit(format!("(cx {} {})", vs(&p1), vs(&p2)));
    }

    // ---- 5. arithmetic crossover: grid of alphas incl. 0, 1, and seeded random parents
    let alphas = [0.0, 1.0, 0.5, 0.25, 0.3, 1.0 / 3.0, 0.9999999999999999, 5e-324, 0.7];
    for n in 0..=4usize {
        for _ in 0..(if a.thorough { 400 } else { 60 }) {
            let p1: Vec<f64> = (0..n).map(|_| (rng.unit() - 0.5) * 10f64.powi(rng.range(0, 6) as i32 - 2)).collect();
            let p2: Vec<f64> = (0..n).map(|_| (rng.unit() - 0.5) * 10f64.powi(rng.range(0, 6) as i32 - 2)).collect();
            let al: Vec<f64> = (0..n).map(|_| if rng.chance(1, 2) { *rng.pick(&alphas) } else { rng.unit() }).collect();
            emit(format!("(ax {} {} {})", fs(&p1), fs(&p2), fs(&al)));
        }
    }
    emit(format!("(ax {} {} {})", fs(&[1.0, 2.0]), fs(&[3.0, 4.0]), fs(&[0.5])));          // alphas too short
    emit(format!("(ax {} {} {})", fs(&[1.0, 2.0]), fs(&[3.0]), fs(&[0.5, 0.5])));          // unequal parents
    emit(format!("(ax {} {} {})", fs(&[1.0, 2.0]), fs(&[3.0, 4.0]), fs(&[1.5, -0.5])));    // alpha outside [0,1]

    // ---- 5b. large inputs for every helper (a size-dependent path must not go unnoticed): lengths 8..64
    let big = if a.thorough { 1500 } else { 150 };
    for _ in 0..big {
        let n = *rng.pick(&[8usize, 9, 12, 15, 16, 17, 24, 31, 32, 33, 48, 64]);
        let l: Vec<usize> = (0..n).map(|i| 1000 + i).collect();
        // circular swaps: tuple lengths from 2 up to n (all positions)
        let k = match rng.below(4) { 0 => 2, 1 => n, 2 => n - 1, _ => rng.range(2, n as u64) as usize };
        let mut pool: Vec<usize> = (0..n).collect();
        let mut t = vec![];
        for _ in 0..k { t.push(pool.remove(rng.below(pool.len() as u64) as usize)); }
        emit(format!("(cswap {} {})", vs(&l), vs(&t)));
        // translocation: valid triples incl. the boundaries (slice at the very start / very end, empty, whole)
        let s = match rng.below(4) { 0 => 0, 1 => n - 1, _ => rng.below(n as u64) as usize };
        let e = match rng.below(4) { 0 => n, 1 => s, _ => rng.range(s as u64, n as u64) as usize };
        let room = n - (e - s);
        let i = match rng.below(4) { 0 => 0, 1 => room.min(n - 1), _ => rng.range(0, room.min(n - 1) as u64) as usize };
        emit(format!("(transl {} {} {} {})", vs(&l), s, e, i));
        emit(format!("(transl {} {} {} {})", vs(&l), s, e, room + 1));      // just violating the assertion
        // multi-point / uniform crossover on tagged parents
        let p1: Vec<usize> = (0..n).map(|i| 1000 + i).collect();
        let p2: Vec<usize> = (0..n).map(|i| 2000 + i).collect();
        let kc = match rng.below(3) { 0 => 1, 1 => n - 1, _ => rng.range(1, n as u64 - 1) as usize };
        let mut pool: Vec<usize> = (0..=n).collect();
        let mut cuts = vec![];
        for _ in 0..kc { cuts.push(pool.remove(rng.below(pool.len() as u64) as usize)); }
        emit(format!("(mpx {} {} {})", vs(&p1), vs(&p2), vs(&cuts)));
        let mask: Vec<bool> = (0..n).map(|_| rng.chance(1, 2)).collect();
        emit(format!("(ux {} {} {})", vs(&p1), vs(&p2), bs(&mask)));
        // cycle crossover: few long cycles and many short ones
        let mut q1: Vec<usize> = (0..n).map(|i| 50 + 3 * i).collect();
        let mut q2 = q1.clone();
        for i in (1..n).rev() { q1.swap(i, rng.below(i as u64 + 1) as usize); }
        if rng.chance(1, 2) { for i in (1..n).rev() { q2.swap(i, rng.below(i as u64 + 1) as usize); } }
        else { q2 = q1.clone(); for _ in 0..rng.range(1, 4) { let (x, y) = (rng.below(n as u64) as usize, rng.below(n as u64) as usize); q2.swap(x, y); } }
        emit(format!("(cx {} {})", vs(&q1), vs(&q2)));
        // arithmetic crossover
        let f1: Vec<f64> = (0..n).map(|_| (rng.unit() - 0.5) * 20.0).collect();
        let f2: Vec<f64> = (0..n).map(|_| (rng.unit() - 0.5) * 20.0).collect();
        let al: Vec<f64> = (0..n).map(|_| if rng.chance(1, 4) { *rng.pick(&alphas) } else { rng.unit() }).collect();
        emit(format!("(ax {} {} {})", fs(&f1), fs(&f2), fs(&al)));
    }

    // ---- 6. components
    comp::generate(&a, &mut rng, &mut emit);
    out.finish();
}
