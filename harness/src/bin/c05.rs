//! C05 — objective values are never stale.
//! (a) random operation sequences on REAL `Individual`s of Sphere / OneMax / Tsp (every public method of
//!     `Individual` and every collection helper of `population.rs`); the objective table is recomputed
//!     with `raw_f`, cached values are never trusted;
//! (b) run level: after every step of runs of all 21 templates, every individual reachable from the
//!     state (all populations, best-so-far, elitist archive, PSO personal/global bests, CRO molecule
//!     bests) is re-evaluated with `raw_f` and compared bit-exactly; every leaf component's effect on
//!     the evaluated flags is recorded;
//! (d) a `State` that is used again: consecutive runs (`Configuration::run`) of every template on ONE state with
//!     different instances of the problem, each audited as in (b) against the objective function of its own
//!     instance; component level: init + execute on one instance, then init + execute again for another one;
//! (e) objective functions that tell apart what `==` identifies (`Steps`: sensitive to the sign of zero): every
//!     evaluation path (PopulationEvaluator with Sequential / Parallel, `Evaluate::evaluate` itself, the firefly's
//!     self-evaluation) and every copying / comparing component on populations with identical, `==`-equal and
//!     near-duplicate members; solutions interned by bit pattern.
use std::collections::BTreeSet;

use hcommon::problems::{OneMax, Sphere, Tsp};
use hcommon::templates::*;
use hcommon::*;
use mahf::components::archive::ElitistArchive;
use mahf::components::misc::cro::ChemicalReaction;
use mahf::components::swarm::pso::{BestParticle, BestParticles};
use mahf::identifier::Global;
use mahf::population::{AsSolutions, AsSolutionsMut, BestIndividual, IntoIndividuals, IntoSingle, IntoSingleRef, IntoSolutions, SingleIndividualError};
use mahf::verif::Phase;
use mahf::{Individual, SingleObjective, State};

/// A problem with a deterministic pool of pairwise distinct solutions.
trait Pool: HProblem {
    fn candidate(&self, r: &mut Sm) -> Self::Encoding;
}
impl Pool for Sphere {
    fn candidate(&self, r: &mut Sm) -> Vec<f64> {
        (0..self.dim).map(|_| self.lo + (self.hi - self.lo) * (r.below(9) as f64 / 8.0)).collect()
    }
}
impl Pool for OneMax {
    fn candidate(&self, r: &mut Sm) -> Vec<bool> { (0..self.dim).map(|_| r.chance(1, 2)).collect() }
}
impl Pool for Tsp {
    fn candidate(&self, r: &mut Sm) -> Vec<usize> {
        let n = self.dist.len();
        let mut p: Vec<usize> = (0..n).collect();
        for i in (1..n).rev() { p.swap(i, r.below(i as u64 + 1) as usize); }
        p
    }
}
fn make_pool<Q: Pool>(problem: &Q, n: usize, seed: u64) -> Vec<Q::Encoding> {
    let mut r = Sm::new(seed ^ 0x9001);
    let mut pool: Vec<Q::Encoding> = vec![];
    let mut tries = 0;
    while pool.len() < n && tries < 10_000 {
        let c = problem.candidate(&mut r);
        if !pool.contains(&c) { pool.push(c); }
        tries += 1;
    }
    pool
}

fn sid<Q: Pool>(pool: &[Q::Encoding], s: &Q::Encoding) -> u64 {
    pool.iter().position(|p| p == s).map(|i| i as u64).unwrap_or(9999)
}
fn ind_s<Q: Pool>(pool: &[Q::Encoding], i: &Individual<Q>) -> String {
    match i.get_objective() {
        None => format!("({})", sid::<Q>(pool, i.solution())),
        Some(o) => format!("({} {})", sid::<Q>(pool, i.solution()), fx(o.value())),
    }
}
fn so(v: f64) -> SingleObjective { SingleObjective::try_from(v).unwrap() }

fn mk_src<Q: Pool>(pool: &[Q::Encoding], a: &[Sx]) -> Vec<Individual<Q>> {
    a.iter()
        .map(|x| {
            let it = x.items().unwrap();
            let sol = pool[it[0].nat().unwrap() as usize].clone();
            if it.len() > 1 { Individual::new(sol, so(it[1].float().unwrap())) } else { Individual::new_unevaluated(sol) }
        })
        .collect()
}

fn api_ops<Q: Pool>(problem: Q, npool: usize, ops: &[Sx]) -> String {
    let pool = make_pool(&problem, npool, 7);
    let ftab = tagged("f", pool.iter().map(|s| fx(problem.raw_f(s))));
    let mut v: Vec<Individual<Q>> = vec![];
    let mut steps = vec![];
    for op in ops {
        let (name, a) = op.head().unwrap();
        let n = |k: usize| a[k].nat().unwrap() as usize;
        let in_range = |k: usize, v: &Vec<Individual<Q>>| (a[k].nat().unwrap() as usize) < v.len();
        let ret: String = match name {
            "new" => { v.push(Individual::new(pool[n(0)].clone(), so(a[1].float().unwrap()))); "u".into() }
            "newu" => { v.push(Individual::new_unevaluated(pool[n(0)].clone())); "u".into() }
            "eval" if in_range(0, &v) => { v[n(0)].evaluate_with(|s| problem.objective(s)); "u".into() }
            "evalw" if in_range(0, &v) => { let o = so(a[1].float().unwrap()); v[n(0)].evaluate_with(|_| o); "u".into() }
            "setobj" if in_range(0, &v) => b(v[n(0)].set_objective(so(a[1].float().unwrap()))),
            "sol" if in_range(0, &v) => format!("(n {})", sid::<Q>(&pool, v[n(0)].solution())),
            "solmut" if in_range(0, &v) => {
                let r = v[n(0)].solution_mut();
                if let Some(s) = a[1].nat() { *r = pool[s as usize].clone(); }
                "u".into()
            }
            "intosol" if in_range(0, &v) => { let i = v.remove(n(0)); format!("(n {})", sid::<Q>(&pool, &i.into_solution())) }
            "clone" if in_range(0, &v) => { let c = v[n(0)].clone(); v.push(c); "u".into() }
            "clonefrom" if in_range(0, &v) && in_range(1, &v) => {
                let src = v[n(1)].clone();
                v[n(0)].clone_from(&src);
                "u".into()
            }
            "vclonefrom" => { let src = mk_src::<Q>(&pool, a); v.clone_from(&src); "u".into() }
            "sclonefrom" => {
                let src = mk_src::<Q>(&pool, a);
                catch(|| v.clone_from_slice(&src)).map(|_| "u".to_string()).unwrap_or("panic".into())
            }
            "iseval" if in_range(0, &v) => b(v[n(0)].is_evaluated()),
            "getobj" if in_range(0, &v) => format!("(o {})", v[n(0)].get_objective().map(|o| fx(o.value())).unwrap_or("none".into())),
            "obj" if in_range(0, &v) => catch(|| format!("(o {})", fx(v[n(0)].objective().value()))).unwrap_or("panic".into()),
            "eq" if in_range(0, &v) && in_range(1, &v) => b(v[n(0)] == v[n(1)]),
            "assols" => tagged("ns", v.as_solutions().into_iter().map(|s| sid::<Q>(&pool, s).to_string())),
            "assolsmut" => {
                let sols = v.as_solutions_mut();
                for (x, w) in sols.into_iter().zip(a.iter()) {
                    if let Some(s) = w.nat() { *x = pool[s as usize].clone(); }
                }
                "u".into()
            }
            "intosols" => tagged("ns", std::mem::take(&mut v).into_solutions().iter().map(|s| sid::<Q>(&pool, s).to_string())),
            "intoinds" => {
                let sols: Vec<Q::Encoding> = a.iter().map(|s| pool[s.nat().unwrap() as usize].clone()).collect();
                v.extend(sols.into_individuals::<Q>());
                "u".into()
            }
            "single" => match v.clone().into_single() {
                Ok(i) => format!("(i {})", ind_s::<Q>(&pool, &i)),
                Err(SingleIndividualError::EmptyPopulation) => "(e empty)".into(),
                Err(SingleIndividualError::TooManyIndividuals(k)) => format!("(e many {k})"),
            },
            "singleref" => match v.iter().into_single_ref() {
                Ok(i) => format!("(i {})", ind_s::<Q>(&pool, i)),
                Err(SingleIndividualError::EmptyPopulation) => "(e empty)".into(),
                Err(SingleIndividualError::TooManyIndividuals(k)) => format!("(e many {k})"),
            },
            "best" => catch(|| match v.best_individual() {
                None => "(i none)".to_string(),
                Some(i) => format!("(i {})", ind_s::<Q>(&pool, i)),
            })
            .unwrap_or("panic".into()),
            "eval" | "evalw" | "setobj" | "sol" | "solmut" | "intosol" | "clone" | "clonefrom" | "iseval" | "getobj" | "obj" | "eq" => "skip".into(),
            other => panic!("unknown op {other}"),
        };
        steps.push(list([ret, list(v.iter().map(|i| ind_s::<Q>(&pool, i)))]));
    }
    list([ftab, tagged("steps", steps)])
}

/// `(api (prob KIND INST NPOOL) (ops …))`
fn run_api(a: &[Sx]) -> String {
    let (_, p) = a[0].head().unwrap();
    let (kind, inst, npool) = (p[0].atom().unwrap(), p[1].nat().unwrap() as u32, p[2].nat().unwrap() as usize);
    let ops = a[1].head().unwrap().1;
    match kind {
        "real" => api_ops(sphere_instance(inst), npool, ops),
        "binary" => api_ops(onemax_instance(inst), npool, ops),
        _ => api_ops(tsp_instance(inst), npool, ops),
    }
}

/// Objective table of the pool, for the generator (honest raw writes need f(sol)).
fn pool_f(kind: &str, inst: u32, npool: usize) -> Vec<f64> {
    fn go<Q: Pool>(p: Q, n: usize) -> Vec<f64> { make_pool(&p, n, 7).iter().map(|s| p.raw_f(s)).collect() }
    match kind {
        "real" => go(sphere_instance(inst), npool),
        "binary" => go(onemax_instance(inst), npool),
        _ => go(tsp_instance(inst), npool),
    }
}


// ------------------------------------------------------------------ snapshots of the whole state
use mahf::components::evaluation::{BestIndividualUpdate, PopulationEvaluator};
use mahf::components::swarm::pso::ParticleVelocities;
use mahf::components::{archive, boundary, misc::cro, mutation, recombination, replacement, selection, swarm, utils};
use mahf::problems::Sequential;
use mahf::state::common::{Evaluations, Populations};
use mahf::{Component, Random};

/// Solutions of one case are interned; the objective table `(f …)` is recomputed with `raw_f` per id. The interning
/// key must never identify two solutions the objective function tells apart ("the value the objective function assigns
/// to ITS solution" is looked up per id):
/// * `Steps` (sign-sensitive): by IDENTITY, i.e. the canonical encoding `HProblem::enc` (IEEE bit patterns) — `==` on
///   `Vec<f64>` is coarser (`0.0 == -0.0`);
/// * Sphere / OneMax / Tsp: by `==` on the encoding (what `Individual::eq`, `contains` and `position` use, so that the
///   model's member look-ups agree with the code's); their `raw_f` gives bit-identical values on `==`-equal solutions
///   (for bit strings and permutations `==` is identity; the sphere only adds squares of differences).
struct Intern<Q: HProblem> {
    sols: Vec<Q::Encoding>,
    keys: Vec<String>,
    by_bits: bool,
}
impl<Q: HProblem> Intern<Q> {
    fn new() -> Self { Intern { sols: vec![], keys: vec![], by_bits: std::any::TypeId::of::<Q>() == std::any::TypeId::of::<Steps>() } }
    fn id(&mut self, s: &Q::Encoding) -> usize {
        let key = Q::enc(s);
        if !self.by_bits {
            if let Some(k) = self.sols.iter().position(|x| x == s) { return k; }
        } else if let Some(k) = self.keys.iter().position(|x| *x == key) { return k; }
        self.sols.push(s.clone());
        self.keys.push(key);
        self.sols.len() - 1
    }
    fn ind(&mut self, i: &Individual<Q>) -> String {
        let k = self.id(i.solution());
        match i.get_objective() {
            None => format!("({k})"),
            Some(o) => format!("({k} {})", fx(o.value())),
        }
    }
    fn ftab(&self, problem: &Q) -> String {
        tagged("f", self.sols.iter().map(|s| match catch(|| problem.raw_f(s)) { Some(w) => fx(if w.is_nan() { f64::INFINITY } else { w }), None => fx(f64::NAN) }))
    }
}
/// `(snap (stack POP*) (best IND*) (arch IND*) (pbest IND*) (gbest IND*) (mols IND*))`, head of `stack` = top.
fn snapshot<Q: HProblem>(state: &State<Q>, it: &mut Intern<Q>) -> String {
    let mut stack = vec![];
    if let Ok(pops) = state.try_borrow::<Populations<Q>>() {
        for d in 0..pops.len() { stack.push(list(pops.peek(d).iter().map(|i| it.ind(i)))); }
    }
    let mut best = vec![];
    if let Some(bi) = state.best_individual() { best.push(it.ind(&bi)); }
    let mut arch = vec![];
    if let Ok(a) = state.try_borrow::<ElitistArchive<Q>>() { for i in a.elitists() { arch.push(it.ind(i)); } }
    let mut pbest = vec![];
    if let Ok(bp) = state.try_borrow::<BestParticles<Q, Global>>() { for i in bp.iter() { pbest.push(it.ind(i)); } }
    let mut gbest = vec![];
    if let Ok(bp) = state.try_borrow::<BestParticle<Q, Global>>() { if let Some(i) = bp.as_ref() { gbest.push(it.ind(i)); } }
    let mut mols = vec![];
    if let Ok(cr) = state.try_borrow::<ChemicalReaction<Q>>() { for m in cr.iter() { mols.push(it.ind(&m.best)); } }
    tagged("snap", [tagged("stack", stack), tagged("best", best), tagged("arch", arch), tagged("pbest", pbest), tagged("gbest", gbest), tagged("mols", mols)])
}

// ------------------------------------------------------------------ an objective function that sees bit patterns
/// `f(x) = sum_k 2^(k mod 8) * signum(x_k) + (x_k - shift)^2`: a step at the origin in every coordinate whose side is
/// given by the SIGN BIT (`signum(0.0) = 1`, `signum(-0.0) = -1`). `==` on `Vec<f64>` identifies `0.0` and `-0.0`,
/// this function does not: anything that treats `==`-equal solutions as "the same solution" (a cache of objective
/// values keyed on `PartialEq`, a "nothing changed" fast path that compares with `==`) reports a value that does not
/// belong to the solution. Same search space and parameters as `Sphere`.
#[derive(Clone)]
pub struct Steps {
    pub dim: usize,
    pub lo: f64,
    pub hi: f64,
    pub shift: f64,
    pub probe: hcommon::problems::Probe,
}
impl Steps {
    pub fn f(&self, x: &[f64]) -> f64 {
        x.iter().enumerate().map(|(k, v)| (1u64 << (k % 8)) as f64 * v.signum() + (v - self.shift) * (v - self.shift)).sum()
    }
}
impl mahf::Problem for Steps {
    type Encoding = Vec<f64>;
    type Objective = SingleObjective;
    fn name(&self) -> &str { "steps" }
}
impl mahf::problems::VectorProblem for Steps {
    type Element = f64;
    fn dimension(&self) -> usize { self.dim }
}
impl mahf::problems::LimitedVectorProblem for Steps {
    fn domain(&self) -> Vec<std::ops::Range<f64>> { vec![self.lo..self.hi; self.dim] }
}
impl mahf::problems::ObjectiveFunction for Steps {
    fn objective(&self, s: &Vec<f64>) -> SingleObjective {
        let v = self.f(s);
        self.probe.record(v);
        SingleObjective::try_from(v).unwrap_or(SingleObjective::try_from(f64::INFINITY).unwrap())
    }
}
impl HProblem for Steps {
    fn raw_f(&self, s: &Vec<f64>) -> f64 { self.f(s) }
    fn probe(&self) -> &hcommon::problems::Probe { &self.probe }
    fn enc(s: &Vec<f64>) -> String { list(s.iter().map(|v| fx(*v))) }
    fn kind(&self) -> &'static str { "steps" }
}
/// The real-valued test problems (`(prob real|steps DIM LO HI SHIFT)`).
trait RealP: HProblem<Encoding = Vec<f64>> + mahf::problems::LimitedVectorProblem<Element = f64> {
    fn make(dim: usize, lo: f64, hi: f64, shift: f64) -> Self;
}
impl RealP for Sphere {
    fn make(dim: usize, lo: f64, hi: f64, shift: f64) -> Self { Sphere::new(dim, lo, hi, shift) }
}
impl RealP for Steps {
    fn make(dim: usize, lo: f64, hi: f64, shift: f64) -> Self { Steps { dim, lo, hi, shift, probe: hcommon::problems::Probe::new(true) } }
}

// ------------------------------------------------------------------ component level
fn evaluated<Q: HProblem>(problem: &Q, sol: Q::Encoding) -> Individual<Q> {
    let v = problem.raw_f(&sol);
    Individual::new(sol, SingleObjective::try_from(v).unwrap_or(so(f64::INFINITY)))
}

/// Components that exist for every problem type.
fn make_generic<Q: HProblem>(name: &str, pr: &[f64]) -> Option<Box<dyn Component<Q>>> {
    let u = |k: usize| pr.get(k).copied().unwrap_or(0.0) as u32;
    Some(match name {
        "PopulationEvaluator" => PopulationEvaluator::new(),
        "BestIndividualUpdate" => BestIndividualUpdate::new(),
        "All" => selection::All::new(),
        "CloneSingle" => selection::CloneSingle::new(u(0)),
        "FullyRandom" => selection::FullyRandom::new(u(0)),
        "RandomWithoutRepetition" => selection::RandomWithoutRepetition::new(u(0)),
        "Tournament" => selection::Tournament::new(u(0), u(1)),
        "LinearRank" => selection::LinearRank::new(u(0)),
        "RouletteWheel" => selection::RouletteWheel::new(u(0), pr.get(1).copied().unwrap_or(0.0)),
        "DiscardOffspring" => replacement::DiscardOffspring::new(),
        "Merge" => replacement::Merge::new(),
        "MuPlusLambda" => replacement::MuPlusLambda::new(u(0)),
        "Generational" => replacement::Generational::new(u(0)),
        "RandomReplacement" => replacement::RandomReplacement::new(u(0)),
        "KeepBetterAtIndex" => replacement::KeepBetterAtIndex::new(),
        "ElitistArchiveUpdate" => archive::ElitistArchiveUpdate::new(u(0) as usize),
        "ElitistArchiveIntoPopulation" => archive::ElitistArchiveIntoPopulation::new(),
        "ChemicalReactionInit" => cro::ChemicalReactionInit::new(pr.first().copied().unwrap_or(0.0), pr.get(1).copied().unwrap_or(0.0)),
        "OnWallIneffectiveCollisionUpdate" => cro::OnWallIneffectiveCollisionUpdate::new(pr.first().copied().unwrap_or(0.0)),
        "DecompositionUpdate" => cro::DecompositionUpdate::new(),
        "IntermolecularIneffectiveCollisionUpdate" => cro::IntermolecularIneffectiveCollisionUpdate::new(),
        "SynthesisUpdate" => cro::SynthesisUpdate::new(),
        "DuplicatePopulation" => utils::populations::DuplicatePopulation::new(),
        _ => return None,
    })
}
fn make_real<Q: RealP>(name: &str, pr: &[f64]) -> Option<Box<dyn Component<Q>>> {
    let both = |v: f64| v != 0.0;
    Some(match name {
        "Saturation" => boundary::Saturation::new(),
        "Toroidal" => boundary::Toroidal::new(),
        "Mirror" => boundary::Mirror::new(),
        "CompleteOneTailedNormalCorrection" => boundary::CompleteOneTailedNormalCorrection::new(),
        "NormalMutation" => mutation::NormalMutation::new(pr[0], pr[1]),
        "UniformMutation" => mutation::UniformMutation::new(pr[0], pr[1]),
        "PartialRandomSpread" => mutation::PartialRandomSpread::new(pr[0]),
        "ParticleVelocitiesUpdate" => swarm::pso::ParticleVelocitiesUpdate::new(pr[0], pr[1], pr[2], pr[3]).ok()?,
        "PersonalBestParticlesInit" => swarm::pso::PersonalBestParticlesInit::<Global>::new(),
        "PersonalBestParticlesUpdate" => swarm::pso::PersonalBestParticlesUpdate::<Global>::new(),
        "GlobalBestParticleUpdate" => swarm::pso::GlobalBestParticleUpdate::<Global>::new(),
        "BlackHoleParticlesUpdate" => swarm::bh::BlackHoleParticlesUpdate::new(),
        "FireflyPositionsUpdate" => swarm::fa::FireflyPositionsUpdate::new(pr[0], pr[1], pr[2]),
        "EventHorizon" => replacement::bh::EventHorizon::new(),
        "DEMutation" => mutation::de::DEMutation::new(pr[0] as u32, pr[1]).ok()?,
        "DEBinomialCrossover" => recombination::de::DEBinomialCrossover::new(pr[0]),
        "DEExponentialCrossover" => recombination::de::DEExponentialCrossover::new(pr[0]),
        "ArithmeticCrossover" => recombination::ArithmeticCrossover::new(pr[0], both(pr[1])),
        "UniformCrossover" => recombination::UniformCrossover::new::<Q, f64>(pr[0], both(pr[1])),
        "NPointCrossover" => recombination::NPointCrossover::new::<Q, f64>(pr[0] as usize, pr[1], both(pr[2])),
        other => return make_generic(other, pr),
    })
}
fn make_binary(name: &str, pr: &[f64]) -> Option<Box<dyn Component<OneMax>>> {
    type Q = OneMax;
    let both = |v: f64| v != 0.0;
    Some(match name {
        "BitFlipMutation" => mutation::BitFlipMutation::new(pr[0]),
        "PartialRandomBitstring" => mutation::PartialRandomBitstring::new(pr[0], pr[1]),
        "UniformCrossover" => recombination::UniformCrossover::new::<Q, bool>(pr[0], both(pr[1])),
        "NPointCrossover" => recombination::NPointCrossover::new::<Q, bool>(pr[0] as usize, pr[1], both(pr[2])),
        other => return make_generic(other, pr),
    })
}
fn make_perm(name: &str, pr: &[f64]) -> Option<Box<dyn Component<Tsp>>> {
    type Q = Tsp;
    let both = |v: f64| v != 0.0;
    Some(match name {
        "SwapMutation" => mutation::SwapMutation::new(pr[0] as u32).ok()?,
        "ScrambleMutation" => mutation::ScrambleMutation::new(pr[0]),
        "InversionMutation" => mutation::InversionMutation::new::<Q, usize>(),
        "InsertionMutation" => mutation::common::InsertionMutation::new(),
        "TranslocationMutation" => mutation::TranslocationMutation::new(),
        "CycleCrossover" => recombination::CycleCrossover::new::<Q, usize>(pr[0], both(pr[1])),
        other => return make_generic(other, pr),
    })
}

/// How the evaluation is reached: `(evaluator seq|par)` = the evaluator the state holds (default `seq`);
/// `(via direct)` = instead of executing the component, the evaluator's own `Evaluate::evaluate` is called on the top
/// population (the entry point a user-written component has).
#[derive(Default, Clone)]
struct How {
    par: bool,
    direct: bool,
}
impl How {
    fn parse(a: &[Sx]) -> How {
        let find = |tag: &str| a.iter().find_map(|x| x.head().filter(|(t, _)| *t == tag).map(|(_, r)| r.to_vec()));
        How {
            par: find("evaluator").map(|e| e[0].atom() == Some("par")).unwrap_or(false),
            direct: find("via").map(|e| e[0].atom() == Some("direct")).unwrap_or(false),
        }
    }
    fn suffix(&self) -> String { format!("{}{}", if self.par { "@par" } else { "" }, if self.direct { "@direct" } else { "" }) }
}

/// Runs one component on a prepared state and reports `((res R) (f …) (before SNAP) (after SNAP))`.
/// `pops` are listed top first, each member with its evaluated flag. `pre = (component, depth)`: before the
/// `before` snapshot the top `depth` populations are set aside, the setup component is initialised and
/// executed, and the populations are put back (this seeds a memory from a DIFFERENT population).
///
/// `reinit = (problem2, pops2)`: the execution above is only the FIRST PHASE (it fills the component's memory with
/// individuals of `problem`); then the state is reused for ANOTHER INSTANCE as `Configuration::run` would do it: the
/// caller replaces the population stack (`pops2`, evaluated with `problem2`), the components' `init` run again, the
/// setup component is executed again, and the component is executed on `problem2`. Reported are the snapshots around
/// the re-initialisation `(reinit BEFORE-INIT AFTER-INIT)` and around the second execution, all against `problem2`.
fn exec<Q: HProblem>(
    problem: &Q, comp: Box<dyn Component<Q>>, pops: Vec<Vec<(bool, Q::Encoding)>>, seed: u64,
    pre: Option<(Box<dyn Component<Q>>, usize)>, prep: impl FnOnce(&mut State<Q>, &Q),
    reinit: Option<(Q, Vec<Vec<(bool, Q::Encoding)>>)>, how: &How,
) -> String {
    let mut state: State<Q> = State::new();
    state.insert(Populations::<Q>::new());
    state.insert(Random::new(seed));
    if how.par { state.insert_evaluator(mahf::problems::Parallel::<Q>::new()); } else { state.insert_evaluator(Sequential::<Q>::new()); }
    // the component under test; with `(via direct)` the evaluator itself is the entry point
    let run_comp_on = |problem: &Q, state: &mut State<Q>| -> Result<(), eyre::Report> {
        if !how.direct { return comp.execute(problem, state); }
        use mahf::problems::Evaluate;
        let popped = state.populations_mut().try_pop();
        if let Some(mut population) = popped {
            if how.par { mahf::problems::Parallel::<Q>::new().evaluate(problem, state, &mut population); }
            else { Sequential::<Q>::new().evaluate(problem, state, &mut population); }
            state.populations_mut().push(population);
        }
        Ok(())
    };
    for p in pops.into_iter().rev() {
        state.populations_mut().push(p.into_iter().map(|(ev, s)| if ev { evaluated(problem, s) } else { Individual::new_unevaluated(s) }).collect());
    }
    let setup = catch(|| -> Result<(), eyre::Report> {
        comp.init(problem, &mut state)?;
        if state.try_borrow::<Evaluations>().is_err() { state.insert(Evaluations(0)); }
        if let Some((pc, depth)) = &pre {
            let mut aside = vec![];
            for _ in 0..*depth { aside.push(state.populations_mut().pop()); }
            pc.init(problem, &mut state)?;
            pc.execute(problem, &mut state)?;
            while let Some(p) = aside.pop() { state.populations_mut().push(p); }
        }
        prep(&mut state, problem);
        Ok(())
    });
    if !matches!(setup, Some(Ok(()))) { return "((res setup))".into(); }
    let mut it = Intern::<Q>::new();
    let mut reinit_s = None;
    let mut problem = problem;
    if let Some((p2, pops2)) = &reinit {
        if !matches!(catch(|| run_comp_on(problem, &mut state)), Some(Ok(()))) { return "((res setup))".into(); }
        // the caller's part of initialising the state for the next run
        state.insert(Populations::<Q>::new());
        for p in pops2.iter().rev() {
            state.populations_mut().push(p.iter().map(|(ev, s)| if *ev { evaluated(p2, s.clone()) } else { Individual::new_unevaluated(s.clone()) }).collect());
        }
        let s0 = snapshot(&state, &mut it);
        // the components' part (`Block::init` calls `init` of every child in order)
        let inits = catch(|| -> Result<(), eyre::Report> {
            if let Some((pc, _)) = &pre { pc.init(p2, &mut state)?; }
            comp.init(p2, &mut state)
        });
        if !matches!(inits, Some(Ok(()))) { return "((res setup))".into(); }
        let si = snapshot(&state, &mut it);
        let again = catch(|| -> Result<(), eyre::Report> {
            if let Some((pc, depth)) = &pre {
                let mut aside = vec![];
                for _ in 0..*depth { aside.push(state.populations_mut().pop()); }
                pc.execute(p2, &mut state)?;
                while let Some(p) = aside.pop() { state.populations_mut().push(p); }
            }
            Ok(())
        });
        if !matches!(again, Some(Ok(()))) { return "((res setup))".into(); }
        reinit_s = Some(format!("(reinit {s0} {si})"));
        problem = p2;
    }
    let before = snapshot(&state, &mut it);
    let res = match catch(|| run_comp_on(problem, &mut state)) {
        None => "panic",
        Some(Err(_)) => "err",
        Some(Ok(())) => "ok",
    };
    let after = catch(|| snapshot(&state, &mut it)).unwrap_or_else(|| "(snap)".into());
    let mut out = vec![format!("(res {res})"), it.ftab(problem), format!("(before {before})"), format!("(after {after})")];
    if let Some(r) = reinit_s { out.push(r); }
    list(out)
}

/// Generic part of a component case: parses `(pops …)`, `(pre NAME depth p…)`, builds and runs.
fn comp_case<Q: HProblem>(
    problem: &Q, name: &str, a: &[Sx], parse_sol: &dyn Fn(&[Sx]) -> Q::Encoding,
    make: &dyn Fn(&str, &[f64]) -> Option<Box<dyn Component<Q>>>, special: impl FnOnce(&mut State<Q>, &Q), problem2: Option<Q>,
) -> String {
    let find = |tag: &str| a.iter().find_map(|x| x.head().filter(|(t, _)| *t == tag).map(|(_, r)| r.to_vec()));
    let seed = find("seed").unwrap()[0].nat().unwrap();
    let pr: Vec<f64> = find("params").unwrap_or_default().iter().map(|x| x.float().unwrap()).collect();
    let pops: Vec<Vec<(bool, Q::Encoding)>> = find("pops").unwrap().iter().map(|p| {
        p.items().unwrap().iter().map(|s| {
            let it = s.items().unwrap();
            if it.first().and_then(|x| x.atom()) == Some("u") { (false, parse_sol(&it[1..])) } else { (true, parse_sol(it)) }
        }).collect()
    }).collect();
    let Some(comp) = make(name, &pr) else { return "((res setup))".into() };
    let pre = match find("pre") {
        None => None,
        Some(p) => {
            let pn = p[0].atom().unwrap();
            let depth = p[1].nat().unwrap() as usize;
            let ppr: Vec<f64> = p[2..].iter().map(|x| x.float().unwrap()).collect();
            match make(pn, &ppr) { Some(c) => Some((c, depth)), None => return "((res setup))".into() }
        }
    };
    let parse_pops = |ps: &[Sx]| -> Vec<Vec<(bool, Q::Encoding)>> {
        ps.iter().map(|p| {
            p.items().unwrap().iter().map(|s| {
                let it = s.items().unwrap();
                if it.first().and_then(|x| x.atom()) == Some("u") { (false, parse_sol(&it[1..])) } else { (true, parse_sol(it)) }
            }).collect()
        }).collect()
    };
    let reinit = match (find("reinit"), problem2) {
        (Some(r), Some(p2)) => {
            let ps = r.iter().find_map(|x| x.head().filter(|(t, _)| *t == "pops").map(|(_, r)| r.to_vec())).unwrap();
            Some((p2, parse_pops(&ps)))
        }
        _ => None,
    };
    exec(problem, comp, pops, seed, pre, special, reinit, &How::parse(a))
}

fn real_case<Q: RealP>(name: &str, a: &[Sx], prob: &[Sx], prob2: Option<Vec<Sx>>) -> String {
    let find = |tag: &str| a.iter().find_map(|x| x.head().filter(|(t, _)| *t == tag).map(|(_, r)| r.to_vec()));
    let problem = Q::make(prob[1].nat().unwrap() as usize, prob[2].float().unwrap(), prob[3].float().unwrap(), prob[4].float().unwrap());
    let problem2 = prob2.map(|q| Q::make(q[1].nat().unwrap() as usize, q[2].float().unwrap(), q[3].float().unwrap(), q[4].float().unwrap()));
    let vel: Vec<Vec<f64>> = find("vel").unwrap_or_default().iter().map(|s| s.items().unwrap().iter().map(|x| x.float().unwrap()).collect()).collect();
    let is_pso = name == "ParticleVelocitiesUpdate";
    let is_eh = name == "EventHorizon";
    comp_case::<Q>(&problem, name, a, &|s| s.iter().map(|x| x.float().unwrap()).collect(), &make_real::<Q>, move |state, problem| {
        if is_pso {
            let top: Vec<Individual<Q>> = state.populations().current().to_vec();
            state.insert(ParticleVelocities::<Global>::new(vel));
            state.insert(BestParticle::<Q, Global>::new(top.first().cloned()));
            state.insert(BestParticles::<Q, Global>::new(top));
        } else if is_eh {
            let bu = BestIndividualUpdate::new::<Q>();
            let _ = bu.init(problem, state);
            let _ = catch(|| bu.execute(problem, state));
        }
    }, problem2)
}

/// `(comp NAME (prob …) (seed N) (params x…) (pops POP+) [(vel V+)] [(pre NAME depth x…)] [(evaluator seq|par)] [(via direct)])`;
/// a member of a POP is `(c…)` (evaluated with raw_f) or `(u c…)` (unevaluated).
fn run_comp(a: &[Sx]) -> String {
    let name = a[0].atom().unwrap();
    let find = |tag: &str| a.iter().find_map(|x| x.head().filter(|(t, _)| *t == tag).map(|(_, r)| r.to_vec()));
    let prob = find("prob").unwrap();
    // `(reinit (prob …) (pops …))`: the instance of the second phase
    let prob2: Option<Vec<Sx>> = find("reinit").and_then(|r| r.iter().find_map(|x| x.head().filter(|(t, _)| *t == "prob").map(|(_, r)| r.to_vec())));
    match prob[0].atom().unwrap() {
        "real" => real_case::<Sphere>(name, a, &prob, prob2),
        "steps" => real_case::<Steps>(name, a, &prob, prob2),
        "binary" => {
            let problem = OneMax::new(prob[1].nat().unwrap() as usize);
            let problem2 = prob2.map(|q| OneMax::new(q[1].nat().unwrap() as usize));
            comp_case::<OneMax>(&problem, name, a, &|s| s.iter().map(|x| x.atom() == Some("t")).collect(), &make_binary, |_, _| {}, problem2)
        }
        _ => {
            let problem = Tsp::random(prob[1].nat().unwrap() as usize, prob[2].nat().unwrap(), 9.0);
            let problem2 = prob2.map(|q| Tsp::random(q[1].nat().unwrap() as usize, q[2].nat().unwrap(), 9.0));
            comp_case::<Tsp>(&problem, name, a, &|s| s.iter().map(|x| x.nat().unwrap() as usize).collect(), &make_perm, |_, _| {}, problem2)
        }
    }
}

fn fl(v: &[f64]) -> String { list(v.iter().map(|x| fx(*x))) }
fn flu(v: &[f64], ev: bool) -> String { if ev { fl(v) } else { format!("(u {})", v.iter().map(|x| fx(*x)).collect::<Vec<_>>().join(" ")) } }
fn pstr(params: &[f64]) -> String { params.iter().map(|v| fx(*v)).collect::<Vec<_>>().join(" ") }

/// Population flavours for the shape cases.
#[derive(Clone, Copy, PartialEq)]
enum Flavour { Plain, Mixed, Ties, Dups }

/// A population of `n` real solutions in `[-1, 1)^dim`: `Ties` contains mirror images (equal sphere value, different
/// solution), `Dups` contains the same solution twice, `Mixed` marks some members unevaluated.
fn real_pop(r: &mut Sm, n: usize, dim: usize, fl_: Flavour, outside: bool) -> Vec<(Vec<f64>, bool)> {
    let mut p: Vec<(Vec<f64>, bool)> = vec![];
    for k in 0..n {
        let mut s: Vec<f64> = (0..dim).map(|_| {
            let v = (r.below(15) as f64 - 7.0) / 8.0; // grid in [-0.875, 0.875]
            if outside && r.chance(1, 3) { v + if r.chance(1, 2) { 1.5 } else { -1.5 } } else { v }
        }).collect();
        if k > 0 && fl_ == Flavour::Ties && r.chance(2, 3) { s = p[r.below(k as u64) as usize].0.iter().map(|v| -*v).collect(); }
        if k > 0 && fl_ == Flavour::Dups && r.chance(1, 2) { s = p[r.below(k as u64) as usize].0.clone(); }
        let ev = !(fl_ == Flavour::Mixed && r.chance(1, 2));
        p.push((s, ev));
    }
    p
}
fn real_pop_s(p: &[(Vec<f64>, bool)]) -> String { list(p.iter().map(|(s, e)| flu(s, *e))) }

/// Generates the component-level cases.
fn gen_comp(r: &mut Sm, thorough: bool, emit: &mut dyn FnMut(String)) {
    let reps = if thorough { 6 } else { 1 };
    let coord = |r: &mut Sm, lo: f64, hi: f64, outside: bool| -> f64 {
        if !outside { lo + r.unit() * (hi - lo) * 0.999 }
        else if r.chance(1, 2) { lo - 0.1 - r.unit() * (hi - lo) } else { hi + 0.1 + r.unit() * (hi - lo) }
    };
    let sol = |r: &mut Sm, dim: usize, lo: f64, hi: f64, mask: u32| -> Vec<f64> { (0..dim).map(|k| coord(r, lo, hi, mask >> k & 1 == 1)).collect() };
    // (name, params, number of populations, tolerates unevaluated members)
    let real_comps: [(&str, Vec<f64>, usize, bool); 19] = [
        ("Saturation", vec![], 1, true), ("Toroidal", vec![], 1, true), ("Mirror", vec![], 1, true), ("CompleteOneTailedNormalCorrection", vec![], 1, true),
        ("NormalMutation", vec![0.1, 0.5], 1, true), ("NormalMutation", vec![0.1, 0.0], 1, true), ("UniformMutation", vec![0.5, 1.0], 1, true),
        ("PartialRandomSpread", vec![0.0], 1, true), ("PartialRandomSpread", vec![0.5], 1, true),
        ("BlackHoleParticlesUpdate", vec![], 1, false), ("EventHorizon", vec![], 1, false), ("DEMutation", vec![1.0, 0.5], 1, true),
        ("DEBinomialCrossover", vec![0.5], 2, true), ("DEExponentialCrossover", vec![0.5], 2, true),
        ("ArithmeticCrossover", vec![1.0, 1.0], 1, true), ("UniformCrossover", vec![0.5, 0.0], 1, true), ("NPointCrossover", vec![1.0, 1.0, 1.0], 1, true),
        ("UniformCrossover", vec![0.5, 1.0], 1, true), ("ArithmeticCrossover", vec![0.0, 0.0], 1, true),
    ];
    for _ in 0..reps {
        for (name, params, npops, _) in real_comps.iter() {
            for dim in 1..=4usize {
                if *name == "NPointCrossover" && dim < 2 { continue; }
                for mask in 0..(1u32 << dim) {
                    for pos in 0..3usize {
                        let (lo, hi, shift) = *r.pick(&[(-1.0, 1.0, 0.0), (-2.0, 3.0, 1.0), (0.0, 1.0, 0.25)]);
                        let mut pops = vec![];
                        for _ in 0..*npops {
                            let mut p: Vec<Vec<f64>> = (0..3).map(|_| { let m = if r.chance(1, 2) { 0 } else { r.below(1 << dim) as u32 }; sol(r, dim, lo, hi, m) }).collect();
                            p[pos] = sol(r, dim, lo, hi, mask);
                            pops.push(list(p.iter().map(|s| fl(s))));
                        }
                        emit(format!("(comp {name} (prob real {dim} {} {} {}) (seed {}) (params {}) {})", fx(lo), fx(hi), fx(shift), r.below(1000),
                            pstr(params), tagged("pops", pops)));
                    }
                }
            }
        }
        // shapes: sizes 0 / 1 / 2 / 5 / 6, unevaluated members, equal objective values with different solutions, duplicates,
        // three populations on the stack (the lower ones must stay as they are)
        for (name, params, npops, tolerant) in real_comps.iter() {
            for size in [0usize, 1, 2, 5, 6] {
                for flv in [Flavour::Plain, Flavour::Mixed, Flavour::Ties, Flavour::Dups] {
                    if flv == Flavour::Mixed && !*tolerant { continue; }
                    if size == 0 && flv != Flavour::Plain { continue; }
                    if size == 1 && (flv == Flavour::Ties || flv == Flavour::Dups) { continue; }
                    // boundary sizes get more repetitions (a fast path for a population of one or two is a classic)
                    let nrep = match size { 0 => 1, 1 => 8, 2 => 4, _ => 2 };
                    for _ in 0..nrep {
                        let dim = 1 + r.below(4) as usize;
                        if *name == "NPointCrossover" && dim < 2 { continue; }
                        let outside = !name.contains("Crossover");
                        let mut pops: Vec<String> = (0..*npops).map(|_| real_pop_s(&real_pop(r, size, dim, flv, outside))).collect();
                        if r.chance(1, 2) { let extra = 1 + r.below(3) as usize; pops.push(real_pop_s(&real_pop(r, extra, dim, Flavour::Mixed, false))); }
                        emit(format!("(comp {name} (prob real {dim} {} {} {}) (seed {}) (params {}) {})", fx(-1.0), fx(1.0), fx(0.0), r.below(1000), pstr(params), tagged("pops", pops)));
                    }
                }
            }
        }
        // DE mutation with two difference pairs (y = 2): groups of five; sometimes the FIRST pair is equal, sometimes all pairs
        for _ in 0..12 {
            let dim = 1 + r.below(3) as usize;
            let groups = 1 + r.below(2) as usize;
            let mut p = real_pop(r, 5 * groups, dim, Flavour::Plain, false);
            for g in 0..groups {
                match r.below(3) { 0 => { p[5 * g + 2] = p[5 * g + 1].clone(); } 1 => { p[5 * g + 2] = p[5 * g + 1].clone(); p[5 * g + 4] = p[5 * g + 3].clone(); } _ => {} }
            }
            emit(format!("(comp DEMutation (prob real {dim} {} {} {}) (seed {}) (params {}) (pops {}))", fx(-1.0), fx(1.0), fx(0.0), r.below(1000), pstr(&[2.0, 0.5]), real_pop_s(&p)));
        }
        // evaluator, best update, selections, replacements, archive, swarm and molecule memories, firefly, duplication
        for size in [0usize, 1, 2, 3, 5] {
            for flv in [Flavour::Plain, Flavour::Mixed, Flavour::Ties, Flavour::Dups] {
                if size < 2 && (flv == Flavour::Ties || flv == Flavour::Dups) { continue; }
                let dim = 1 + r.below(3) as usize;
                let hdr = format!("(prob real {dim} {} {} {}) (seed {})", fx(-1.0), fx(1.0), fx(0.0), r.below(1000));
                let p0 = real_pop(r, size, dim, flv, false);
                let other = 1 + r.below(4) as usize;
                let n1 = if r.chance(1, 2) { size } else { other };
                let p1 = real_pop(r, n1, dim, if flv == Flavour::Mixed { Flavour::Plain } else { flv }, false);
                // a second population that shares members with the first (what a selection leaves behind)
                let mut p1s = p1.clone();
                for k in 0..p1s.len() { if !p0.is_empty() && r.chance(1, 2) { p1s[k] = p0[r.below(p0.len() as u64) as usize].clone(); } }
                let one = tagged("pops", [real_pop_s(&p0)]);
                let two = tagged("pops", [real_pop_s(&p0), real_pop_s(&p1)]);
                let two_shared = tagged("pops", [real_pop_s(&p0), real_pop_s(&p1s)]);
                // the population a memory is seeded from must be evaluated (the setup itself would panic otherwise)
                let p1e: Vec<(Vec<f64>, bool)> = p1s.iter().map(|(s, _)| (s.clone(), true)).collect();
                let two_seeded = tagged("pops", [real_pop_s(&p0), real_pop_s(&p1e)]);
                let three = tagged("pops", [real_pop_s(&p0), real_pop_s(&p1), real_pop_s(&real_pop(r, 2, dim, Flavour::Mixed, false))]);
                emit(format!("(comp PopulationEvaluator {hdr} (params) {one})"));
                emit(format!("(comp PopulationEvaluator {hdr} (params) {three})"));
                emit(format!("(comp DuplicatePopulation {hdr} (params) {two})"));
                emit(format!("(comp BestIndividualUpdate {hdr} (params) {one})"));
                emit(format!("(comp BestIndividualUpdate {hdr} (params) {two} (pre BestIndividualUpdate 1))"));
                for (name, params) in [("All", vec![]), ("CloneSingle", vec![3.0]), ("FullyRandom", vec![4.0]), ("RandomWithoutRepetition", vec![2.0]),
                                       ("Tournament", vec![3.0, 2.0]), ("LinearRank", vec![3.0]), ("RouletteWheel", vec![3.0, 1.0])] {
                    emit(format!("(comp {name} {hdr} (params {}) {two})", pstr(&params)));
                }
                for (name, params) in [("DiscardOffspring", vec![]), ("Merge", vec![]), ("MuPlusLambda", vec![3.0]), ("Generational", vec![3.0]),
                                       ("RandomReplacement", vec![2.0]), ("KeepBetterAtIndex", vec![])] {
                    emit(format!("(comp {name} {hdr} (params {}) {two_shared})", pstr(&params)));
                    emit(format!("(comp {name} {hdr} (params {}) {three})", pstr(&params)));
                }
                for k in [0.0, 1.0, 3.0, 7.0] {
                    emit(format!("(comp ElitistArchiveUpdate {hdr} (params {}) {one})", fx(k)));
                    emit(format!("(comp ElitistArchiveUpdate {hdr} (params {}) {two_seeded} (pre ElitistArchiveUpdate 1 {}))", fx(k), fx(k)));
                    emit(format!("(comp ElitistArchiveIntoPopulation {hdr} (params) {two_seeded} (pre ElitistArchiveUpdate 1 {}))", fx(k)));
                }
                emit(format!("(comp PersonalBestParticlesInit {hdr} (params) {one})"));
                emit(format!("(comp PersonalBestParticlesInit {hdr} (params) {two} (pre PersonalBestParticlesInit 1))"));
                emit(format!("(comp PersonalBestParticlesUpdate {hdr} (params) {two} (pre PersonalBestParticlesInit 1))"));
                emit(format!("(comp PersonalBestParticlesUpdate {hdr} (params) {two_seeded} (pre PersonalBestParticlesInit 1))"));
                emit(format!("(comp GlobalBestParticleUpdate {hdr} (params) {one})"));
                emit(format!("(comp GlobalBestParticleUpdate {hdr} (params) {two} (pre GlobalBestParticleUpdate 1))"));
                emit(format!("(comp ChemicalReactionInit {hdr} (params {}) {one})", pstr(&[1.0, 0.0])));
                if flv != Flavour::Mixed {
                    for (alpha, beta, gamma) in [(0.25, 1.0, 0.01), (0.0, 0.5, 1.0), (0.0, 0.0, 0.0)] {
                        emit(format!("(comp FireflyPositionsUpdate {hdr} (params {}) {two})", pstr(&[alpha, beta, gamma])));
                    }
                }
            }
        }
        // the four CRO reactions: (products) (reactants = copies of members of the population) (population), molecules seeded
        for size in [1usize, 2, 3, 5] {
            for flv in [Flavour::Plain, Flavour::Ties, Flavour::Dups] {
                if size < 2 && flv != Flavour::Plain { continue; }
                for (name, nreact, nprod) in [("OnWallIneffectiveCollisionUpdate", 1usize, 1usize), ("DecompositionUpdate", 1, 2),
                                              ("IntermolecularIneffectiveCollisionUpdate", 2, 2), ("SynthesisUpdate", 2, 1)] {
                    for ke in [0.0, 100.0] {
                        let dim = 1 + r.below(3) as usize;
                        let pop = real_pop(r, size, dim, flv, false);
                        let mut idx: Vec<usize> = (0..size).collect();
                        for i in (1..size).rev() { idx.swap(i, r.below(i as u64 + 1) as usize); }
                        let mut react: Vec<(Vec<f64>, bool)> = idx.iter().take(nreact).map(|k| pop[*k].clone()).collect();
                        let mut prod = real_pop(r, nprod, dim, Flavour::Plain, false);
                        match r.below(10) {
                            0 => { react.push(real_pop(r, 1, dim, Flavour::Plain, false)[0].clone()); } // too many reactants
                            1 => { if !react.is_empty() { react[0] = (vec![0.99; dim], true); } }        // not a member
                            2 => { prod.pop(); }                                                          // too few products
                            3 => { if size > 0 { prod[0] = pop[0].clone(); } }                            // product equal to a member
                            _ => {}
                        }
                        emit(format!("(comp {name} (prob real {dim} {} {} {}) (seed {}) (params {}) (pops {} {} {}) (pre ChemicalReactionInit 2 {}))",
                            fx(-1.0), fx(1.0), fx(0.0), r.below(1000), pstr(&[0.5]), real_pop_s(&prod), real_pop_s(&react), real_pop_s(&pop), pstr(&[ke, 10.0])));
                    }
                }
            }
        }
        // a state that is used again for ANOTHER INSTANCE (what a second `Configuration::run` on the same `State` does):
        // first phase on the instance `(prob …)`, which fills the component's memory; then a new population stack, the
        // components' `init`, and the component itself on the instance `(reinit (prob …) …)`: nothing the first phase
        // left in the state may be reported with a value of the old objective function
        for size in [1usize, 2, 3, 5] {
            for flv in [Flavour::Plain, Flavour::Ties] {
                if size < 2 && flv != Flavour::Plain { continue; }
                for (dshift, size2) in [(2.0, size), (-0.75, 1 + r.below(4) as usize), (0.5, size + 1)] {
                    let dim = 1 + r.below(3) as usize;
                    let hdr = format!("(prob real {dim} {} {} {}) (seed {})", fx(-1.0), fx(1.0), fx(0.0), r.below(1000));
                    let prob2 = format!("(prob real {dim} {} {} {})", fx(-1.0), fx(1.0), fx(dshift));
                    let ev = |p: Vec<(Vec<f64>, bool)>| -> Vec<(Vec<f64>, bool)> { p.into_iter().map(|(s, _)| (s, true)).collect() };
                    let p0 = real_pop(r, size, dim, flv, false);
                    let p1 = ev(real_pop(r, size, dim, flv, false));
                    let q0 = real_pop(r, size2, dim, flv, false);
                    let q1 = ev(real_pop(r, size2, dim, Flavour::Plain, false));
                    let one = tagged("pops", [real_pop_s(&p0)]);
                    let two = tagged("pops", [real_pop_s(&p0), real_pop_s(&p1)]);
                    let re_one = format!("(reinit {prob2} {})", tagged("pops", [real_pop_s(&q0)]));
                    let re_two = format!("(reinit {prob2} {})", tagged("pops", [real_pop_s(&q0), real_pop_s(&q1)]));
                    // sometimes the second phase keeps one solution of the first (the same solution has another value now)
                    let mut q0k = q0.clone();
                    if !p0.is_empty() && !q0k.is_empty() { q0k[0] = p0[r.below(p0.len() as u64) as usize].clone(); }
                    let re_keep = format!("(reinit {prob2} {})", tagged("pops", [real_pop_s(&q0k)]));
                    emit(format!("(comp BestIndividualUpdate {hdr} (params) {one} {re_one})"));
                    emit(format!("(comp BestIndividualUpdate {hdr} (params) {one} {re_keep})"));
                    emit(format!("(comp PopulationEvaluator {hdr} (params) {one} {re_one})"));
                    for k in [1.0, 3.0] {
                        emit(format!("(comp ElitistArchiveUpdate {hdr} (params {}) {one} {re_one})", fx(k)));
                        emit(format!("(comp ElitistArchiveIntoPopulation {hdr} (params) {two} (pre ElitistArchiveUpdate 1 {}) {re_two})", fx(k)));
                    }
                    emit(format!("(comp PersonalBestParticlesInit {hdr} (params) {one} {re_one})"));
                    emit(format!("(comp PersonalBestParticlesUpdate {hdr} (params) {two} (pre PersonalBestParticlesInit 1) {re_two})"));
                    emit(format!("(comp GlobalBestParticleUpdate {hdr} (params) {one} {re_one})"));
                    emit(format!("(comp GlobalBestParticleUpdate {hdr} (params) {one} {re_keep})"));
                    emit(format!("(comp ChemicalReactionInit {hdr} (params {}) {one} {re_one})", pstr(&[1.0, 0.0])));
                    // CRO reactions: (products) (reactants = copies of members) (population), molecules seeded from the population
                    for (name, nreact, nprod) in [("OnWallIneffectiveCollisionUpdate", 1usize, 1usize), ("DecompositionUpdate", 1, 2),
                                                  ("IntermolecularIneffectiveCollisionUpdate", 2, 2), ("SynthesisUpdate", 2, 1)] {
                        if size < nreact || size2 < nreact { continue; }
                        let mk = |r: &mut Sm, pop: &Vec<(Vec<f64>, bool)>| -> String {
                            let pop = ev(pop.clone());
                            let react: Vec<(Vec<f64>, bool)> = pop.iter().take(nreact).cloned().collect();
                            let prod = ev(real_pop(r, nprod, dim, Flavour::Plain, false));
                            format!("(pops {} {} {})", real_pop_s(&prod), real_pop_s(&react), real_pop_s(&pop))
                        };
                        let (pa, pb) = (real_pop(r, size, dim, Flavour::Plain, false), real_pop(r, size2, dim, Flavour::Plain, false));
                        let first = mk(r, &pa);
                        let second = mk(r, &pb);
                        emit(format!("(comp {name} {hdr} (params {}) {first} (pre ChemicalReactionInit 2 {}) (reinit {prob2} {second}))", pstr(&[0.5]), pstr(&[100.0, 10.0])));
                    }
                }
            }
        }
        for n in [4usize, 6] {
            for size in [1usize, 3] {
                let tour = |r: &mut Sm| { let mut v: Vec<u64> = (0..n as u64).collect(); for i in (1..n).rev() { v.swap(i, r.below(i as u64 + 1) as usize); } nats(v) };
                let p0 = list((0..size).map(|_| tour(r)));
                let q0 = list((0..size + 1).map(|_| tour(r)));
                for (name, params) in [("BestIndividualUpdate", vec![]), ("ElitistArchiveUpdate", vec![2.0]), ("ChemicalReactionInit", vec![1.0, 0.0])] {
                    emit(format!("(comp {name} (prob perm {n} {}) (seed {}) (params {}) (pops {p0}) (reinit (prob perm {n} {}) (pops {q0})))", 11 + n, r.below(1000), pstr(&params), 40 + n));
                }
            }
        }
        // PSO position update: prepared velocities (tiny / zero / ordinary / mixed), positions near 0 / ordinary / outside
        for dim in 1..=4usize {
            for vcat in 0..4u64 {
                for pcat in 0..3u64 {
                    for params in [[0.5, 0.0, 0.0, 1.0], [0.7, 1.0, 1.0, 1.0], [1.0, 0.0, 0.0, 0.5]] {
                        for pos in 0..3usize {
                            let mk_v = |r: &mut Sm, cat: u64| -> Vec<f64> {
                                (0..dim).map(|k| {
                                    let sign = if r.chance(1, 2) { 1.0 } else { -1.0 };
                                    match cat {
                                        0 => sign * (1e-17 + r.unit() * 1e-16),
                                        1 => 0.0,
                                        2 => sign * (0.01 + r.unit() * 0.3),
                                        _ => if k + 1 == dim { sign * 0.1 } else { sign * 5e-17 },
                                    }
                                }).collect()
                            };
                            let mk_x = |r: &mut Sm, cat: u64| -> Vec<f64> {
                                (0..dim).map(|_| match cat {
                                    0 => (r.unit() - 0.5) * 2e-12,
                                    1 => (r.unit() - 0.5) * 1.8,
                                    _ => if r.chance(1, 2) { 1.5 + r.unit() } else { (r.unit() - 0.5) * 1e-9 },
                                }).collect()
                            };
                            let mut xs: Vec<Vec<f64>> = (0..3).map(|_| { let c = r.below(3); mk_x(r, c) }).collect();
                            let mut vs: Vec<Vec<f64>> = (0..3).map(|_| { let c = r.below(4); mk_v(r, c) }).collect();
                            xs[pos] = mk_x(r, pcat);
                            vs[pos] = mk_v(r, vcat);
                            emit(format!("(comp ParticleVelocitiesUpdate (prob real {dim} {} {} {}) (seed {}) (params {}) (pops {}) {})", fx(-1.0), fx(1.0), fx(0.0), r.below(1000),
                                pstr(&params), list(xs.iter().map(|s| fl(s))), tagged("vel", vs.iter().map(|s| fl(s)))));
                        }
                    }
                }
            }
        }
        // swarm sizes 0 / 1 / 5
        for n in [0usize, 1, 5] {
            let dim = 2;
            let xs = real_pop(r, n, dim, Flavour::Plain, true);
            let vs: Vec<Vec<f64>> = (0..n).map(|_| (0..dim).map(|_| (r.unit() - 0.5) * 0.4).collect()).collect();
            emit(format!("(comp ParticleVelocitiesUpdate (prob real {dim} {} {} {}) (seed {}) (params {}) (pops {}) {})", fx(-1.0), fx(1.0), fx(0.0), r.below(1000),
                pstr(&[0.7, 1.0, 1.0, 1.0]), real_pop_s(&xs), tagged("vel", vs.iter().map(|s| fl(s)))));
        }
        // bit strings and permutations: sizes 0 / 1 / 2 / 4 / 5, some members unevaluated
        let bmember = |r: &mut Sm, s: String, mixed: bool| if mixed && r.chance(1, 2) { format!("(u {})", &s[1..s.len() - 1]) } else { s };
        for dim in [1usize, 3, 6] {
            for (name, params) in [("BitFlipMutation", vec![0.0]), ("BitFlipMutation", vec![0.5]), ("BitFlipMutation", vec![1.0]),
                                   ("PartialRandomBitstring", vec![0.5, 0.5]), ("UniformCrossover", vec![0.5, 1.0]), ("UniformCrossover", vec![0.5, 0.0]),
                                   ("NPointCrossover", vec![1.0, 1.0, 0.0]), ("NPointCrossover", vec![1.0, 0.5, 1.0]),
                                   ("PopulationEvaluator", vec![]), ("Tournament", vec![3.0, 2.0]), ("MuPlusLambda", vec![2.0]), ("DuplicatePopulation", vec![])] {
                if name == "NPointCrossover" && dim < 2 { continue; }
                for size in [4usize, 0, 1, 2, 5] {
                    for mixed in [false, true] {
                        if mixed && (name == "Tournament" || name == "MuPlusLambda") { continue; }
                        let npops = if name == "MuPlusLambda" { 2 } else { 1 };
                        let pops: Vec<String> = (0..npops).map(|_| list((0..size).map(|_| { let s = list((0..dim).map(|_| b(r.chance(1, 2)))); bmember(r, s, mixed) }))).collect();
                        emit(format!("(comp {name} (prob binary {dim}) (seed {}) (params {}) {})", r.below(1000), pstr(&params), tagged("pops", pops)));
                    }
                }
            }
        }
        for n in [4usize, 6, 8] {
            for (name, params) in [("SwapMutation", vec![2.0]), ("SwapMutation", vec![3.0]), ("ScrambleMutation", vec![0.0]), ("ScrambleMutation", vec![1.0]),
                                   ("InversionMutation", vec![]), ("InsertionMutation", vec![]), ("TranslocationMutation", vec![]), ("CycleCrossover", vec![1.0, 1.0]),
                                   ("CycleCrossover", vec![0.5, 0.0]), ("PopulationEvaluator", vec![]), ("FullyRandom", vec![3.0]), ("Generational", vec![2.0])] {
                for size in [4usize, 0, 1, 2, 5] {
                    for mixed in [false, true] {
                        let npops = if name == "Generational" { 2 } else { 1 };
                        let pops: Vec<String> = (0..npops).map(|_| list((0..size).map(|_| {
                            let mut v: Vec<u64> = (0..n as u64).collect();
                            for i in (1..n).rev() { v.swap(i, r.below(i as u64 + 1) as usize); }
                            let s = nats(v);
                            bmember(r, s, mixed)
                        }))).collect();
                        emit(format!("(comp {name} (prob perm {n} {}) (seed {}) (params {}) {})", 11 + n, r.below(1000), pstr(&params), tagged("pops", pops)));
                    }
                }
            }
        }
    }
}

/// Populations around the SIGN OF ZERO: coordinates are often `0.0` / `-0.0`, and a member is, with probability 5/8, made
/// from an earlier one: a bit-identical copy of its predecessor or of any earlier member, a copy with signs of zero
/// coordinates flipped (`==`-equal, not identical) of its predecessor or of any earlier member, or a near-duplicate
/// (one coordinate moved by one ulp). `evmode`: 0 all unevaluated (what a variation leaves), 1 mixed, 2 all evaluated.
fn zero_pop(r: &mut Sm, n: usize, dim: usize, evmode: u64) -> Vec<(Vec<f64>, bool)> {
    let mut p: Vec<(Vec<f64>, bool)> = vec![];
    let flip = |r: &mut Sm, s: &Vec<f64>| -> Vec<f64> {
        let zeros: Vec<usize> = (0..s.len()).filter(|k| s[*k] == 0.0).collect();
        let mut t = s.clone();
        if zeros.is_empty() { return t; }
        let forced = zeros[r.below(zeros.len() as u64) as usize];
        for k in zeros { if k == forced || r.chance(1, 2) { t[k] = -t[k]; } }
        t
    };
    for k in 0..n {
        let fresh: Vec<f64> = (0..dim).map(|_| match r.below(8) {
            0..=2 => 0.0,
            3 => -0.0,
            4 => if r.chance(1, 2) { 5e-324 } else { -5e-324 },
            _ => (r.below(15) as f64 - 7.0) / 8.0,
        }).collect();
        let s = if k == 0 { fresh } else {
            let any = r.below(k as u64) as usize;
            match r.below(8) {
                0 => p[k - 1].0.clone(),
                1 | 2 => flip(r, &p[k - 1].0),
                3 => flip(r, &p[any].0),
                4 => p[any].0.clone(),
                5 => { let mut t = p[k - 1].0.clone(); let c = r.below(dim as u64) as usize; t[c] = f64::from_bits(t[c].to_bits() + 1); t }
                _ => fresh,
            }
        };
        let ev = match evmode { 0 => false, 1 => r.chance(1, 2), _ => true };
        p.push((s, ev));
    }
    p
}

/// Component cases whose objective function tells solutions apart that `==` identifies (`(prob steps …)`; the same
/// inputs also on the sphere): every path that evaluates (`PopulationEvaluator` with the Sequential and the Parallel
/// evaluator, the evaluators' own `evaluate` on a population, the firefly's self-evaluation), then everything that
/// copies / compares / keeps individuals, on populations with adjacent and non-adjacent duplicates, `==`-equal
/// non-identical members and near-duplicates.
fn gen_zeros(r: &mut Sm, thorough: bool, emit: &mut dyn FnMut(String)) {
    let hows = ["", " (evaluator par)", " (via direct)", " (evaluator par) (via direct)"];
    let real_comps: [(&str, Vec<f64>, usize); 14] = [
        ("Saturation", vec![], 1), ("Toroidal", vec![], 1), ("Mirror", vec![], 1), ("CompleteOneTailedNormalCorrection", vec![], 1),
        ("NormalMutation", vec![0.1, 0.0], 1), ("PartialRandomSpread", vec![0.0], 1), ("UniformMutation", vec![0.0, 1.0], 1),
        ("BlackHoleParticlesUpdate", vec![], 1), ("EventHorizon", vec![], 1), ("DEBinomialCrossover", vec![0.5], 2),
        ("ArithmeticCrossover", vec![0.0, 0.0], 1), ("UniformCrossover", vec![0.5, 1.0], 1), ("UniformCrossover", vec![0.0, 0.0], 1),
        ("DEMutation", vec![1.0, 0.5], 1),
    ];
    for _ in 0..(if thorough { 8 } else { 2 }) {
        for kind in ["steps", "real"] {
            for size in [2usize, 3, 5, 8] {
                for evmode in 0..3u64 {
                    let dim = 1 + r.below(3) as usize;
                    let shift = *r.pick(&[0.0, 0.25]);
                    let hdr = format!("(prob {kind} {dim} {} {} {}) (seed {})", fx(-1.0), fx(1.0), fx(shift), r.below(1000));
                    let p0 = zero_pop(r, size, dim, evmode);
                    let n1 = 1 + r.below(4) as usize;
                    let p1 = zero_pop(r, n1, dim, evmode);
                    let one = tagged("pops", [real_pop_s(&p0)]);
                    let three = tagged("pops", [real_pop_s(&p0), real_pop_s(&p1), real_pop_s(&zero_pop(r, 2, dim, 1))]);
                    for how in hows {
                        emit(format!("(comp PopulationEvaluator {hdr} (params) {one}{how})"));
                        emit(format!("(comp PopulationEvaluator {hdr} (params) {three}{how})"));
                    }
                    // the same solutions for another instance of the problem, evaluated by the evaluator the state already holds
                    let prob2 = format!("(prob {kind} {dim} {} {} {})", fx(-1.0), fx(1.0), fx(shift + 0.5));
                    for how in &hows[..2] {
                        emit(format!("(comp PopulationEvaluator {hdr} (params) {one} (reinit {prob2} {}){how})", tagged("pops", [real_pop_s(&p0)])));
                    }
                    if evmode != 2 { continue; }
                    // everything below reads objective values: evaluated populations
                    let n1e = if r.chance(1, 2) { size } else { 1 + r.below(4) as usize };
                    let p1e = zero_pop(r, n1e, dim, 2);
                    // a second population that shares members (identical or `==`-equal) with the first
                    let mut p1s = p1e.clone();
                    for k in 0..p1s.len() { if r.chance(1, 2) { p1s[k] = p0[r.below(p0.len() as u64) as usize].clone(); if r.chance(1, 2) { p1s[k].0 = p1s[k].0.iter().map(|v| if *v == 0.0 { -*v } else { *v }).collect(); } } }
                    let two = tagged("pops", [real_pop_s(&p0), real_pop_s(&p1s)]);
                    for (alpha, beta, gamma) in [(0.0, 0.0, 0.0), (0.0, 0.5, 1.0), (0.25, 1.0, 0.01)] {
                        for how in &hows[..2] {
                            emit(format!("(comp FireflyPositionsUpdate {hdr} (params {}) {two}{how})", pstr(&[alpha, beta, gamma])));
                        }
                    }
                    // the firefly's self-evaluation after a move that leaves the position `==` but not identical: with
                    // alpha = 0 and beta = 0 every move adds a zero (`-0.0 + 0.0 = 0.0`), with beta = 1, gamma = 0 the
                    // firefly lands exactly on the brighter one (`==`-equal coordinates get its sign)
                    for _ in 0..3 {
                        let d2 = 2 + r.below(2) as usize;
                        let n2 = 2 + r.below(4) as usize;
                        let swarm = zero_pop(r, n2, d2, 2);
                        let (alpha, beta, gamma) = *r.pick(&[(0.0, 0.0, 0.0), (0.0, 0.0, 1.0), (0.0, 1.0, 0.0), (0.0, 0.5, 1.0)]);
                        let how = hows[r.below(2) as usize];
                        emit(format!("(comp FireflyPositionsUpdate (prob {kind} {d2} {} {} {}) (seed {}) (params {}) (pops {}){how})", fx(-1.0), fx(1.0), fx(shift),
                            r.below(1000), pstr(&[alpha, beta, gamma]), real_pop_s(&swarm)));
                    }
                    emit(format!("(comp BestIndividualUpdate {hdr} (params) {one})"));
                    emit(format!("(comp BestIndividualUpdate {hdr} (params) {two} (pre BestIndividualUpdate 1))"));
                    emit(format!("(comp DuplicatePopulation {hdr} (params) {two})"));
                    for (name, params) in [("All", vec![]), ("CloneSingle", vec![3.0]), ("FullyRandom", vec![4.0]), ("RandomWithoutRepetition", vec![2.0]),
                                           ("Tournament", vec![3.0, 2.0]), ("LinearRank", vec![3.0]), ("RouletteWheel", vec![3.0, 1.0]),
                                           ("DiscardOffspring", vec![]), ("Merge", vec![]), ("MuPlusLambda", vec![3.0]), ("Generational", vec![3.0]),
                                           ("RandomReplacement", vec![2.0]), ("KeepBetterAtIndex", vec![])] {
                        emit(format!("(comp {name} {hdr} (params {}) {two})", pstr(&params)));
                    }
                    for k in [1.0, 3.0] {
                        emit(format!("(comp ElitistArchiveUpdate {hdr} (params {}) {one})", fx(k)));
                        emit(format!("(comp ElitistArchiveUpdate {hdr} (params {}) {two} (pre ElitistArchiveUpdate 1 {}))", fx(k), fx(k)));
                        emit(format!("(comp ElitistArchiveIntoPopulation {hdr} (params) {two} (pre ElitistArchiveUpdate 1 {}))", fx(k)));
                    }
                    emit(format!("(comp PersonalBestParticlesInit {hdr} (params) {one})"));
                    emit(format!("(comp PersonalBestParticlesUpdate {hdr} (params) {two} (pre PersonalBestParticlesInit 1))"));
                    emit(format!("(comp GlobalBestParticleUpdate {hdr} (params) {one})"));
                    emit(format!("(comp GlobalBestParticleUpdate {hdr} (params) {two} (pre GlobalBestParticleUpdate 1))"));
                    emit(format!("(comp ChemicalReactionInit {hdr} (params {}) {one})", pstr(&[1.0, 0.0])));
                    // solution-modifying components at rates / positions where "nothing changed" is likely
                    for (name, params, npops) in real_comps.iter() {
                        let pops: Vec<String> = (0..*npops).map(|_| real_pop_s(&zero_pop(r, size, dim, 2))).collect();
                        emit(format!("(comp {name} {hdr} (params {}) {})", pstr(params), tagged("pops", pops)));
                    }
                    // swarm positions around zero with zero / tiny velocities
                    let vs: Vec<Vec<f64>> = (0..size).map(|_| (0..dim).map(|_| *r.pick(&[0.0, -0.0, 5e-324, -5e-324, 0.125])).collect()).collect();
                    emit(format!("(comp ParticleVelocitiesUpdate {hdr} (params {}) (pops {}) {})", pstr(&[1.0, 0.0, 0.0, 1.0]), real_pop_s(&p0), tagged("vel", vs.iter().map(|s| fl(s)))));
                }
            }
        }
    }
}

// ------------------------------------------------------------------ run level
const MAX_LEAVES: usize = 40;
struct Audit {
    steps: u64,
    checked: u64,
    evaluated: u64,
    stale: Option<String>,
    frames: Vec<(usize, Box<dyn std::any::Any + Send>)>, // children, (interner, before snapshot, top two populations + height)
    keys: BTreeSet<String>,
    leaves: Vec<String>,
    result: String,
}
fn short(name: &str) -> String {
    let base = name.split('<').next().unwrap_or(name);
    base.rsplit("::").next().unwrap_or("?").chars().filter(|c| c.is_ascii_alphanumeric() || *c == '_').collect()
}
impl Audit {
    fn new() -> Self { Audit { steps: 0, checked: 0, evaluated: 0, stale: None, frames: vec![], keys: BTreeSet::new(), leaves: vec![], result: String::new() } }
    fn check<Q: HProblem>(&mut self, i: &Individual<Q>, problem: &Q, place: &str, name: &str, idx: usize) {
        self.checked += 1;
        if let Some(o) = i.get_objective() {
            self.evaluated += 1;
            // a solution that survived from another instance may not even be in the domain of this objective function
            // (a tour over more cities): then no value belongs to it
            let want = match catch(|| problem.raw_f(i.solution())) { Some(w) => if w.is_nan() { f64::INFINITY } else { w }, None => f64::NAN };
            if o.value().to_bits() != want.to_bits() && self.stale.is_none() {
                self.stale = Some(format!("({} {} {} {} {} {})", place, short(name), idx, Q::enc(i.solution()), fx(o.value()), fx(want)));
            }
        }
    }
    fn audit<Q: HProblem>(&mut self, state: &State<Q>, problem: &Q, name: &str, idx: usize) {
        {
            let pops = state.populations();
            for d in 0..pops.len() {
                for i in pops.peek(d) { self.check(i, problem, "stack", name, idx); }
            }
        }
        if let Some(bi) = state.best_individual() { self.check(&bi, problem, "best", name, idx); }
        if let Ok(a) = state.try_borrow::<ElitistArchive<Q>>() {
            for i in a.elitists() { self.check(i, problem, "archive", name, idx); }
        }
        if let Ok(bp) = state.try_borrow::<BestParticles<Q, Global>>() {
            for i in bp.iter() { self.check(i, problem, "pso-personal", name, idx); }
        }
        if let Ok(bp) = state.try_borrow::<BestParticle<Q, Global>>() {
            if let Some(i) = bp.as_ref() { self.check(i, problem, "pso-global", name, idx); }
        }
        if let Ok(cr) = state.try_borrow::<ChemicalReaction<Q>>() {
            for m in cr.iter() { self.check(&m.best, problem, "cro-molecule", name, idx); }
        }
    }
}
type Snap<Q> = (usize, Vec<Individual<Q>>, Vec<Individual<Q>>);
fn snap<Q: HProblem>(state: &State<Q>) -> Snap<Q> {
    let pops = state.populations();
    (pops.len(), pops.try_peek(0).map(|p| p.to_vec()).unwrap_or_default(), pops.try_peek(1).map(|p| p.to_vec()).unwrap_or_default())
}
fn flags<Q: HProblem>(p: &[Individual<Q>]) -> String { list(p.iter().map(|i| b(i.is_evaluated()))) }
type Frame<Q> = (Intern<Q>, String, Snap<Q>);
impl Visitor for Audit {
    fn step<Q: HProblem>(&mut self, phase: Phase, name: &'static str, index: usize, state: &State<Q>, problem: &Q) {
        match phase {
            Phase::Before => {
                if self.steps == 0 { self.audit(state, problem, name, index); }
                if let Some(f) = self.frames.last_mut() { f.0 += 1; }
                let mut it = Intern::<Q>::new();
                let before = snapshot(state, &mut it);
                let fr: Frame<Q> = (it, before, snap(state));
                self.frames.push((0, Box::new(fr)));
            }
            Phase::After => {
                self.steps += 1;
                self.audit(state, problem, name, index);
                let Some((children, before)) = self.frames.pop() else { return };
                if children > 0 || name.contains("control_flow::") || name.contains("verif::LoopPass") { return; }
                let Ok(before) = before.downcast::<Frame<Q>>() else { return };
                let (mut it, before_s, (h0, top0, sec0)) = *before;
                let (h1, top1, _) = snap(state);
                let after_s = snapshot(state, &mut it);
                // abstract key: one record per distinct (component, shape of the transition) and run
                let dh = h1 as i64 - h0 as i64;
                let same = top0.len() == top1.len() && top0.iter().zip(&top1).all(|(x, y)| x.solution() == y.solution());
                let sub1 = top1.iter().all(|i| top0.contains(i));
                let sub2 = top1.iter().all(|i| top0.contains(i) || sec0.contains(i));
                let mem = |s: &str| s.find("(best").map(|k| s[k..].to_string()).unwrap_or_default();
                let key = format!("({} {} {} {} {} {} {} {})", short(name), dh, flags(&top0), flags(&top1), b(same), b(sub1), b(sub2), b(mem(&before_s) == mem(&after_s)));
                if self.leaves.len() < MAX_LEAVES && self.keys.insert(key) {
                    self.leaves.push(list([short(name), it.ftab(problem), format!("(before {before_s})"), format!("(after {after_s})")]));
                }
            }
        }
    }
    fn done<Q: HProblem>(&mut self, outcome: &Outcome, state: Option<&State<Q>>, problem: &Q) {
        if let Some(s) = state { self.audit(s, problem, "end", 0); }
        self.result = list([
            format!("(out {})", outcome.tag()),
            format!("(steps {})", self.steps),
            format!("(checked {})", self.checked),
            format!("(evaluated {})", self.evaluated),
            format!("(stale {})", self.stale.clone().unwrap_or("none".into())),
            tagged("leaves", self.leaves.iter().cloned()),
        ]);
    }
}

/// `(run NAME V I ITERS SEED seq|par)`
fn run_run(a: &[Sx]) -> String {
    let name = a[0].atom().unwrap();
    let (v, i, iters, seed) = (a[1].nat().unwrap() as u32, a[2].nat().unwrap() as u32, a[3].nat().unwrap() as u32, a[4].nat().unwrap());
    let ek = if a[5].atom().unwrap() == "par" { EvalKind::Parallel } else { EvalKind::Sequential };
    let vis = Audit::new();
    match run_template(name, v, i, iters, seed, ek, vis) {
        Ok((vis, _)) => vis.result,
        Err(_) => "((out ctor-err) (steps 0) (checked 0) (evaluated 0) (stale none) (leaves))".into(),
    }
}
// ------------------------------------------------------------------ consecutive runs on ONE state
/// Another instance of the same problem type: `j = 0` the instance itself; `1`, `2` the same search space with a
/// different objective function; `3` a different dimension / domain / number of cities as well. (OneMax has no
/// parameter that changes the function: only the dimension changes, and stale values cannot be told apart there.)
/// Chosen so that `raw_f` of the new instance is total on solutions of the old one.
fn instance_variant<P: HProblem>(p: &P, j: u32) -> P {
    use std::any::Any;
    let any: &dyn Any = p;
    let out: Box<dyn Any> = if let Some(s) = any.downcast_ref::<Sphere>() {
        Box::new(match j {
            0 => Sphere::new(s.dim, s.lo, s.hi, s.shift),
            1 => Sphere::new(s.dim, s.lo, s.hi, s.shift + 2.0),
            2 => Sphere::new(s.dim, s.lo, s.hi, s.shift - 0.75),
            _ => Sphere::new(s.dim + 1, s.lo - 1.0, s.hi + 0.5, s.shift + 0.5),
        })
    } else if let Some(o) = any.downcast_ref::<OneMax>() {
        Box::new(OneMax::new(o.dim + j as usize))
    } else if let Some(t) = any.downcast_ref::<Tsp>() {
        let n = t.dist.len();
        Box::new(match j {
            0 => Tsp::new(t.dist.clone()),
            1 => Tsp::random(n, 777, 50.0),
            // the same distances with the cities renamed: a different function on the same tours
            2 => Tsp::new((0..n).map(|a| (0..n).map(|c| t.dist[(a * 2 + 1) % n.max(1)][(c * 2 + 1) % n.max(1)]).collect()).collect()),
            _ => Tsp::random(n + 2, 778, 9.0),
        })
    } else {
        panic!("unknown problem type")
    };
    *out.downcast::<P>().expect("same type")
}

/// Runs the configuration on instance 0, then — on the SAME `State` — on the instances named by `seq`
/// (public `Configuration::run`). Between two runs the harness does the caller's part of the initialisation
/// ("the caller is responsible for initializing `state` properly"): a fresh, empty population stack, a
/// freshly seeded random generator and the step observer of the new run. Everything else the state holds
/// (best-so-far, archives, swarm and molecule memories, counters, parameters) is left to the components'
/// `init`. Every run is audited step by step against the objective function of ITS instance.
struct Rerunner {
    seed: u64,
    eval: EvalKind,
    seq: Vec<u32>,
}
impl ConfigUser for Rerunner {
    type Out = String;
    fn use_config<P: HProblem>(self, config: &mahf::Configuration<P>, problem: &P) -> String {
        use std::sync::{Arc, Mutex};
        let mut problems: Vec<P> = vec![problem.clone()];
        for j in &self.seq { problems.push(instance_variant(problem, *j)); }
        let mut state: State<P> = State::new();
        state.insert(mahf::logging::Log::new());
        match self.eval {
            EvalKind::Sequential => state.insert_evaluator(Sequential::<P>::new()),
            EvalKind::Parallel => state.insert_evaluator(mahf::problems::Parallel::<P>::new()),
        }
        let mut results = vec![];
        for (k, pk) in problems.iter().enumerate() {
            state.insert(Populations::<P>::new());
            state.insert(Random::new(self.seed + 7919 * k as u64));
            let shared = Arc::new(Mutex::new(Audit::new()));
            let (obs_v, obs_p) = (shared.clone(), pk.clone());
            state.insert(mahf::verif::StepObserver::<P>(Box::new(move |ph, name, idx, st| {
                obs_v.lock().unwrap_or_else(|e| e.into_inner()).step(ph, name, idx, st, &obs_p);
            })));
            let r = catch(|| config.run(pk, &mut state));
            let outcome = match r { None => Outcome::Panic, Some(Err(e)) => Outcome::Err(format!("{e}")), Some(Ok(())) => Outcome::Ok };
            {
                let mut g = shared.lock().unwrap_or_else(|e| e.into_inner());
                let readable = outcome != Outcome::Panic;
                g.done(&outcome, if readable { Some(&state) } else { None }, pk);
                results.push(g.result.clone());
            }
            // after a panic the state may be half-updated (a population or the observer taken out): stop here
            if outcome == Outcome::Panic { break; }
        }
        tagged("runs", results)
    }
}

/// `(rerun NAME V I ITERS SEED seq|par (seq J+))`
fn run_rerun(a: &[Sx]) -> String {
    let name = a[0].atom().unwrap();
    let (v, i, iters, seed) = (a[1].nat().unwrap() as u32, a[2].nat().unwrap() as u32, a[3].nat().unwrap() as u32, a[4].nat().unwrap());
    let eval = if a[5].atom().unwrap() == "par" { EvalKind::Parallel } else { EvalKind::Sequential };
    let seq: Vec<u32> = a[6].head().unwrap().1.iter().map(|x| x.nat().unwrap() as u32).collect();
    match with_template(name, v, i, iters, Rerunner { seed, eval, seq }) {
        Ok(s) => list([s]),
        Err(_) => "((runs))".into(),
    }
}

fn run_case(input: &Sx) -> (String, String) {
    let (tag, a) = input.head().unwrap();
    match tag {
        "api" => ("Individual-api".into(), run_api(a)),
        "rerun" => (format!("{}::rerun", a[0].atom().unwrap()), run_rerun(a)),
        "run" => (a[0].atom().unwrap().to_string(), run_run(a)),
        "comp" => {
            let reinit = a.iter().any(|x| x.head().map(|(t, _)| t == "reinit").unwrap_or(false));
            (format!("{}{}{}", a[0].atom().unwrap(), How::parse(a).suffix(), if reinit { "::reinit" } else { "" }), run_comp(a))
        }
        other => panic!("unknown case {other}"),
    }
}

fn main() {
    quiet_panics();
    let a = args();
    let mut out = Out::new();
    if let Some(r) = a.replay {
        let sx = Sx::parse(&r).expect("bad replay input");
        let (site, o) = run_case(&sx);
        out.case(&site, &r, &o);
        out.finish();
        return;
    }
    let mut emit = |input: String| {
        let sx = Sx::parse(&input).unwrap();
        let (site, o) = run_case(&sx);
        out.case(&site, &input, &o);
    };
    let mut r = Sm::new(a.seed ^ 0xC05);
    // (a) API histories
    let n_api = if a.thorough { 30000 } else { 3000 };
    let npool = 6usize;
    for j in 0..n_api {
        let kind = ["real", "binary", "perm"][(j % 3) as usize];
        let inst = r.below(N_INSTANCES as u64) as u32;
        let ft = pool_f(kind, inst, npool);
        let np = ft.len() as u64; // may be < npool for tiny instances
        let honest = j % 4 != 0; // 3 of 4 histories only use raw writers with f(sol)
        let len = r.range(3, if a.thorough { 40 } else { 25 });
        let mut size: u64 = 0;
        let mut ops = vec![];
        for _ in 0..len {
            let s = r.below(np);
            let val = |r: &mut Sm, s: u64| if honest || r.chance(1, 2) { fx(ft[s as usize]) } else { fx(*r.pick(&[0.0, 1.0, 2.5, f64::INFINITY, ft[0]])) };
            let idx = |r: &mut Sm| if size == 0 || r.chance(1, 30) { size + r.below(2) } else { r.below(size) };
            let src = |r: &mut Sm, k: u64| -> Vec<String> {
                (0..k).map(|_| { let s = r.below(np); if r.chance(1, 2) { format!("({s})") } else { format!("({s} {})", val(r, s)) } }).collect()
            };
            let op = match r.below(38) {
                32..=34 => format!("(clonefrom {} {})", idx(&mut r), idx(&mut r)),
                35..=36 => { let k = if r.chance(2, 3) { size } else { r.below(4) }; let v = src(&mut r, k); size = k; tagged("vclonefrom", v) }
                37 => { let k = if r.chance(5, 6) { size } else { size + 1 }; tagged("sclonefrom", src(&mut r, k)) }
                0..=2 => { size += 1; format!("(new {s} {})", val(&mut r, s)) }
                3..=5 => { size += 1; format!("(newu {s})") }
                6..=9 => format!("(eval {})", idx(&mut r)),
                10 => { let i = idx(&mut r); format!("(evalw {i} {})", if honest { "skip".to_string() } else { val(&mut r, s) }) }
                11..=12 => { let i = idx(&mut r); format!("(setobj {i} {})", if honest { "skip".to_string() } else { val(&mut r, s) }) }
                13 => format!("(sol {})", idx(&mut r)),
                14..=15 => format!("(solmut {} -)", idx(&mut r)),
                16..=18 => format!("(solmut {} {s})", idx(&mut r)),
                19 => { let i = idx(&mut r); if i < size { size -= 1; } format!("(intosol {i})") }
                20..=21 => { let i = idx(&mut r); if i < size { size += 1; } format!("(clone {i})") }
                22 => format!("(iseval {})", idx(&mut r)),
                23 => format!("(getobj {})", idx(&mut r)),
                24 => format!("(obj {})", idx(&mut r)),
                25 => format!("(eq {} {})", idx(&mut r), idx(&mut r)),
                26 => "(assols)".into(),
                27 => tagged("assolsmut", (0..size + r.below(2)).map(|_| if r.chance(1, 2) { "-".to_string() } else { r.below(np).to_string() })),
                28 => { let k = r.below(3); size += k; tagged("intoinds", (0..k).map(|_| r.below(np).to_string())) }
                29 => (*r.pick(&["(single)", "(singleref)"])).to_string(),
                30 => "(best)".into(),
                _ => if r.chance(1, 6) { size = 0; "(intosols)".into() } else { "(best)".into() },
            };
            // honest histories: raw writers on an existing member must write f(its current solution); we do not
            // track solutions here, so honest histories simply omit evalw/setobj (marked `skip`)
            if !op.contains(" skip)") { ops.push(op); }
        }
        emit(format!("(api (prob {kind} {inst} {npool}) {})", tagged("ops", ops)));
    }
    // (c) component level: solution-modifying components on prepared, evaluated populations
    gen_comp(&mut r, a.thorough, &mut emit);
    // (e) objective functions that tell `==`-equal solutions apart
    {
        let mut rz = Sm::new(a.seed ^ 0xC05_2E80);
        gen_zeros(&mut rz, a.thorough, &mut emit);
    }
    // (b) run level
    let seeds: u64 = if a.thorough { 8 } else { 2 };
    let iters = if a.thorough { 10 } else { 6 };
    for name in TEMPLATES {
        for v in 0..N_VARIANTS {
            for i in 0..N_INSTANCES {
                for k in 0..seeds {
                    let seed = a.seed * 1000 + k;
                    let ek = if (v + i + k as u32) % 4 == 1 { "par" } else { "seq" };
                    emit(format!("(run {name} {v} {i} {iters} {seed} {ek})"));
                }
            }
        }
    }
    // (d) consecutive runs on ONE state with different instances of the problem (public `Configuration::run`): every
    // template and parameter point, every kind of second instance; some come back to the first instance, some are three
    // different instances in a row, some repeat the same instance
    for (t, name) in TEMPLATES.iter().enumerate() {
        for v in 0..N_VARIANTS {
            let insts: Vec<u32> = if a.thorough { (0..N_INSTANCES).collect() } else { vec![(v + t as u32) % N_INSTANCES] };
            for i in insts {
                for k in 0..(if a.thorough { 3 } else { 1 }) {
                    let seed = a.seed * 1000 + 700 + k;
                    let ek = if (v + i + k as u32) % 4 == 2 { "par" } else { "seq" };
                    for j in 1..=3u32 { emit(format!("(rerun {name} {v} {i} {iters} {seed} {ek} (seq {j}))")); }
                    let j = 1 + (v + i + k as u32) % 3;
                    emit(format!("(rerun {name} {v} {i} {iters} {seed} {ek} (seq {j} 0))"));
                    emit(format!("(rerun {name} {v} {i} {iters} {seed} {ek} (seq {} {}))", 1 + j % 3, j));
                    if k == 0 { emit(format!("(rerun {name} {v} {i} {iters} {seed} {ek} (seq 0))")); }
                }
            }
        }
    }
    // longer runs (converged swarms, shrunk / grown CRO populations, many acceptances): one per template and parameter point
    let long_iters = if a.thorough { 120 } else { 40 };
    for name in TEMPLATES {
        for v in 0..N_VARIANTS {
            for k in 0..(if a.thorough { 4 } else { 1 }) {
                let seed = a.seed * 1000 + 500 + k;
                emit(format!("(run {name} {v} {} {long_iters} {seed} {})", (v as u64 + k) % N_INSTANCES as u64, if k % 2 == 1 { "par" } else { "seq" }));
            }
        }
    }
    out.finish();
}
