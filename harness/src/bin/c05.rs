//! C05 — objective values are never stale.
//! (a) random operation sequences on REAL `Individual`s of Sphere / OneMax / Tsp (every public method of
//!     `Individual` and every collection helper of `population.rs`); the objective table is recomputed
//!     with `raw_f`, cached values are never trusted;
//! (b) run level: after every step of runs of all 21 templates, every individual reachable from the
//!     state (all populations, best-so-far, elitist archive, PSO personal/global bests, CRO molecule
//!     bests) is re-evaluated with `raw_f` and compared bit-exactly; every leaf component's effect on
//!     the evaluated flags is recorded.
use std::collections::BTreeSet;

use hcommon::problems::{OneMax, Sphere, Tsp};
use hcommon::templates::*;
use hcommon::*;
use mahf::components::archive::ElitistArchive;
use mahf::components::misc::cro::ChemicalReaction;
use mahf::components::swarm::pso::{BestParticle, BestParticles};
use mahf::identifier::Global;
use mahf::population::{AsSolutions, AsSolutionsMut, BestIndividual, IntoIndividuals, IntoSingle, IntoSingleRef, IntoSolutions, SingleIndividualError};
use mahf::problems::ObjectiveFunction;
use mahf::verif::Phase;
use mahf::{Individual, SingleObjective, State};

/// A problem with a deterministic pool of pairwise distinct solutions.
trait Pool: HProblem {
    fn candidate(&self, r: &mut Sm) -> Self::Encoding;
}
impl Pool for Sphere {
    fn candidate(&self, r: &mut Sm) -> Vec<f64> {
        (0..self.dim).map(|_| self.lo + (self.hi - self.lo) * (r.below(9) as f64 / 8.0)).collect()
    }
}
impl Pool for OneMax {
    fn candidate(&self, r: &mut Sm) -> Vec<bool> { (0..self.dim).map(|_| r.chance(1, 2)).collect() }
}
impl Pool for Tsp {
    fn candidate(&self, r: &mut Sm) -> Vec<usize> {
        let n = self.dist.len();
        let mut p: Vec<usize> = (0..n).collect();
        for i in (1..n).rev() { p.swap(i, r.below(i as u64 + 1) as usize); }
        p
    }
}
fn make_pool<Q: Pool>(problem: &Q, n: usize, seed: u64) -> Vec<Q::Encoding> {
    let mut r = Sm::new(seed ^ 0x9001);
    let mut pool: Vec<Q::Encoding> = vec![];
    let mut tries = 0;
    while pool.len() < n && tries < 10_000 {
        let c = problem.candidate(&mut r);
        if !pool.contains(&c) { pool.push(c); }
        tries += 1;
    }
    pool
}

fn sid<Q: Pool>(pool: &[Q::Encoding], s: &Q::Encoding) -> u64 {
    pool.iter().position(|p| p == s).map(|i| i as u64).unwrap_or(9999)
}
fn ind_s<Q: Pool>(pool: &[Q::Encoding], i: &Individual<Q>) -> String {
    match i.get_objective() {
        None => format!("({})", sid::<Q>(pool, i.solution())),
        Some(o) => format!("({} {})", sid::<Q>(pool, i.solution()), fx(o.value())),
    }
}
fn so(v: f64) -> SingleObjective { SingleObjective::try_from(v).unwrap() }

fn api_ops<Q: Pool>(problem: Q, npool: usize, ops: &[Sx]) -> String {
    let pool = make_pool(&problem, npool, 7);
    let ftab = tagged("f", pool.iter().map(|s| fx(problem.raw_f(s))));
    let mut v: Vec<Individual<Q>> = vec![];
    let mut steps = vec![];
    for op in ops {
        let (name, a) = op.head().unwrap();
        let n = |k: usize| a[k].nat().unwrap() as usize;
        let in_range = |k: usize, v: &Vec<Individual<Q>>| (a[k].nat().unwrap() as usize) < v.len();
        let ret: String = match name {
            "new" => { v.push(Individual::new(pool[n(0)].clone(), so(a[1].float().unwrap()))); "u".into() }
            "newu" => { v.push(Individual::new_unevaluated(pool[n(0)].clone())); "u".into() }
            "eval" if in_range(0, &v) => { v[n(0)].evaluate_with(|s| problem.objective(s)); "u".into() }
            "evalw" if in_range(0, &v) => { let o = so(a[1].float().unwrap()); v[n(0)].evaluate_with(|_| o); "u".into() }
            "setobj" if in_range(0, &v) => b(v[n(0)].set_objective(so(a[1].float().unwrap()))),
            "sol" if in_range(0, &v) => format!("(n {})", sid::<Q>(&pool, v[n(0)].solution())),
            "solmut" if in_range(0, &v) => {
                let r = v[n(0)].solution_mut();
                if let Some(s) = a[1].nat() { *r = pool[s as usize].clone(); }
                "u".into()
            }
            "intosol" if in_range(0, &v) => { let i = v.remove(n(0)); format!("(n {})", sid::<Q>(&pool, &i.into_solution())) }
            "clone" if in_range(0, &v) => { let c = v[n(0)].clone(); v.push(c); "u".into() }
            "iseval" if in_range(0, &v) => b(v[n(0)].is_evaluated()),
            "getobj" if in_range(0, &v) => format!("(o {})", v[n(0)].get_objective().map(|o| fx(o.value())).unwrap_or("none".into())),
            "obj" if in_range(0, &v) => catch(|| format!("(o {})", fx(v[n(0)].objective().value()))).unwrap_or("panic".into()),
            "eq" if in_range(0, &v) && in_range(1, &v) => b(v[n(0)] == v[n(1)]),
            "assols" => tagged("ns", v.as_solutions().into_iter().map(|s| sid::<Q>(&pool, s).to_string())),
            "assolsmut" => {
                let sols = v.as_solutions_mut();
                for (x, w) in sols.into_iter().zip(a.iter()) {
                    if let Some(s) = w.nat() { *x = pool[s as usize].clone(); }
                }
                "u".into()
            }
            "intosols" => tagged("ns", std::mem::take(&mut v).into_solutions().iter().map(|s| sid::<Q>(&pool, s).to_string())),
            "intoinds" => {
                let sols: Vec<Q::Encoding> = a.iter().map(|s| pool[s.nat().unwrap() as usize].clone()).collect();
                v.extend(sols.into_individuals::<Q>());
                "u".into()
            }
            "single" => match v.clone().into_single() {
                Ok(i) => format!("(i {})", ind_s::<Q>(&pool, &i)),
                Err(SingleIndividualError::EmptyPopulation) => "(e empty)".into(),
                Err(SingleIndividualError::TooManyIndividuals(k)) => format!("(e many {k})"),
            },
            "singleref" => match v.iter().into_single_ref() {
                Ok(i) => format!("(i {})", ind_s::<Q>(&pool, i)),
                Err(SingleIndividualError::EmptyPopulation) => "(e empty)".into(),
                Err(SingleIndividualError::TooManyIndividuals(k)) => format!("(e many {k})"),
            },
            "best" => catch(|| match v.best_individual() {
                None => "(i none)".to_string(),
                Some(i) => format!("(i {})", ind_s::<Q>(&pool, i)),
            })
            .unwrap_or("panic".into()),
            "eval" | "evalw" | "setobj" | "sol" | "solmut" | "intosol" | "clone" | "iseval" | "getobj" | "obj" | "eq" => "skip".into(),
            other => panic!("unknown op {other}"),
        };
        steps.push(list([ret, list(v.iter().map(|i| ind_s::<Q>(&pool, i)))]));
    }
    list([ftab, tagged("steps", steps)])
}

/// `(api (prob KIND INST NPOOL) (ops …))`
fn run_api(a: &[Sx]) -> String {
    let (_, p) = a[0].head().unwrap();
    let (kind, inst, npool) = (p[0].atom().unwrap(), p[1].nat().unwrap() as u32, p[2].nat().unwrap() as usize);
    let ops = a[1].head().unwrap().1;
    match kind {
        "real" => api_ops(sphere_instance(inst), npool, ops),
        "binary" => api_ops(onemax_instance(inst), npool, ops),
        _ => api_ops(tsp_instance(inst), npool, ops),
    }
}

/// Objective table of the pool, for the generator (honest raw writes need f(sol)).
fn pool_f(kind: &str, inst: u32, npool: usize) -> Vec<f64> {
    fn go<Q: Pool>(p: Q, n: usize) -> Vec<f64> { make_pool(&p, n, 7).iter().map(|s| p.raw_f(s)).collect() }
    match kind {
        "real" => go(sphere_instance(inst), npool),
        "binary" => go(onemax_instance(inst), npool),
        _ => go(tsp_instance(inst), npool),
    }
}

struct Audit {
    steps: u64,
    checked: u64,
    evaluated: u64,
    stale: Option<String>,
    frames: Vec<(usize, Box<dyn std::any::Any + Send>)>, // children, snapshot of the two top populations + height
    leaves: BTreeSet<String>,
    result: String,
}
fn short(name: &str) -> String {
    let base = name.split('<').next().unwrap_or(name);
    base.rsplit("::").next().unwrap_or("?").chars().filter(|c| c.is_ascii_alphanumeric() || *c == '_').collect()
}
impl Audit {
    fn check<Q: HProblem>(&mut self, i: &Individual<Q>, problem: &Q, place: &str, name: &str, idx: usize) {
        self.checked += 1;
        if let Some(o) = i.get_objective() {
            self.evaluated += 1;
            let want = problem.raw_f(i.solution());
            let want = if want.is_nan() { f64::INFINITY } else { want };
            if o.value().to_bits() != want.to_bits() && self.stale.is_none() {
                self.stale = Some(format!("({} {} {} {} {} {})", place, short(name), idx, Q::enc(i.solution()), fx(o.value()), fx(want)));
            }
        }
    }
    fn audit<Q: HProblem>(&mut self, state: &State<Q>, problem: &Q, name: &str, idx: usize) {
        {
            let pops = state.populations();
            for d in 0..pops.len() {
                for i in pops.peek(d) { self.check(i, problem, "stack", name, idx); }
            }
        }
        if let Some(bi) = state.best_individual() { self.check(&bi, problem, "best", name, idx); }
        if let Ok(a) = state.try_borrow::<ElitistArchive<Q>>() {
            for i in a.elitists() { self.check(i, problem, "archive", name, idx); }
        }
        if let Ok(bp) = state.try_borrow::<BestParticles<Q, Global>>() {
            for i in bp.iter() { self.check(i, problem, "pso-personal", name, idx); }
        }
        if let Ok(bp) = state.try_borrow::<BestParticle<Q, Global>>() {
            if let Some(i) = bp.as_ref() { self.check(i, problem, "pso-global", name, idx); }
        }
        if let Ok(cr) = state.try_borrow::<ChemicalReaction<Q>>() {
            for m in cr.iter() { self.check(&m.best, problem, "cro-molecule", name, idx); }
        }
    }
}
type Snap<Q> = (usize, Vec<Individual<Q>>, Vec<Individual<Q>>);
fn snap<Q: HProblem>(state: &State<Q>) -> Snap<Q> {
    let pops = state.populations();
    (pops.len(), pops.try_peek(0).map(|p| p.to_vec()).unwrap_or_default(), pops.try_peek(1).map(|p| p.to_vec()).unwrap_or_default())
}
fn flags<Q: HProblem>(p: &[Individual<Q>]) -> String { list(p.iter().map(|i| b(i.is_evaluated()))) }
impl Visitor for Audit {
    fn step<Q: HProblem>(&mut self, phase: Phase, name: &'static str, index: usize, state: &State<Q>, problem: &Q) {
        match phase {
            Phase::Before => {
                if self.steps == 0 { self.audit(state, problem, name, index); }
                if let Some(f) = self.frames.last_mut() { f.0 += 1; }
                self.frames.push((0, Box::new(snap(state))));
            }
            Phase::After => {
                self.steps += 1;
                self.audit(state, problem, name, index);
                let Some((children, before)) = self.frames.pop() else { return };
                if children > 0 || name.contains("control_flow::") || name.contains("verif::LoopPass") { return; }
                let Ok(before) = before.downcast::<Snap<Q>>() else { return };
                let (h0, top0, sec0) = *before;
                let (h1, top1, _) = snap(state);
                let dh = h1 as i64 - h0 as i64;
                let same = top0.len() == top1.len() && top0.iter().zip(&top1).all(|(x, y)| x.solution() == y.solution());
                let sub1 = top1.iter().all(|i| top0.contains(i));
                let sub2 = top1.iter().all(|i| top0.contains(i) || sec0.contains(i));
                if self.leaves.len() < 80 {
                    self.leaves.insert(format!("({} {} {} {} {} {} {})", short(name), dh, flags(&top0), flags(&top1), b(same), b(sub1), b(sub2)));
                }
            }
        }
    }
    fn done<Q: HProblem>(&mut self, outcome: &Outcome, state: Option<&State<Q>>, problem: &Q) {
        if let Some(s) = state { self.audit(s, problem, "end", 0); }
        self.result = list([
            format!("(out {})", outcome.tag()),
            format!("(steps {})", self.steps),
            format!("(checked {})", self.checked),
            format!("(evaluated {})", self.evaluated),
            format!("(stale {})", self.stale.clone().unwrap_or("none".into())),
            tagged("leaves", self.leaves.iter().cloned()),
        ]);
    }
}

/// `(run NAME V I ITERS SEED seq|par)`
fn run_run(a: &[Sx]) -> String {
    let name = a[0].atom().unwrap();
    let (v, i, iters, seed) = (a[1].nat().unwrap() as u32, a[2].nat().unwrap() as u32, a[3].nat().unwrap() as u32, a[4].nat().unwrap());
    let ek = if a[5].atom().unwrap() == "par" { EvalKind::Parallel } else { EvalKind::Sequential };
    let vis = Audit { steps: 0, checked: 0, evaluated: 0, stale: None, frames: vec![], leaves: BTreeSet::new(), result: String::new() };
    match run_template(name, v, i, iters, seed, ek, vis) {
        Ok((vis, _)) => vis.result,
        Err(_) => "((out ctor-err) (steps 0) (checked 0) (evaluated 0) (stale none) (leaves))".into(),
    }
}

fn run_case(input: &Sx) -> (String, String) {
    let (tag, a) = input.head().unwrap();
    match tag {
        "api" => ("Individual-api".into(), run_api(a)),
        "run" => (a[0].atom().unwrap().to_string(), run_run(a)),
        other => panic!("unknown case {other}"),
    }
}

fn main() {
    quiet_panics();
    let a = args();
    let mut out = Out::new();
    if let Some(r) = a.replay {
        let sx = Sx::parse(&r).expect("bad replay input");
        let (site, o) = run_case(&sx);
        out.case(&site, &r, &o);
        out.finish();
        return;
    }
    let mut emit = |input: String| {
        let sx = Sx::parse(&input).unwrap();
        let (site, o) = run_case(&sx);
        out.case(&site, &input, &o);
    };
    let mut r = Sm::new(a.seed ^ 0xC05);
    // (a) API histories
    let n_api = if a.thorough { 30000 } else { 3000 };
    let npool = 6usize;
    for j in 0..n_api {
        let kind = ["real", "binary", "perm"][(j % 3) as usize];
        let inst = r.below(N_INSTANCES as u64) as u32;
        let ft = pool_f(kind, inst, npool);
        let np = ft.len() as u64; // may be < npool for tiny instances
        let honest = j % 4 != 0; // 3 of 4 histories only use raw writers with f(sol)
        let len = r.range(3, if a.thorough { 40 } else { 25 });
        let mut size: u64 = 0;
        let mut ops = vec![];
        for _ in 0..len {
            let s = r.below(np);
            let val = |r: &mut Sm, s: u64| if honest || r.chance(1, 2) { fx(ft[s as usize]) } else { fx(*r.pick(&[0.0, 1.0, 2.5, f64::INFINITY, ft[0]])) };
            let idx = |r: &mut Sm| if size == 0 || r.chance(1, 30) { size + r.below(2) } else { r.below(size) };
            let op = match r.below(32) {
                0..=2 => { size += 1; format!("(new {s} {})", val(&mut r, s)) }
                3..=5 => { size += 1; format!("(newu {s})") }
                6..=9 => format!("(eval {})", idx(&mut r)),
                10 => { let i = idx(&mut r); format!("(evalw {i} {})", if honest { "skip".to_string() } else { val(&mut r, s) }) }
                11..=12 => { let i = idx(&mut r); format!("(setobj {i} {})", if honest { "skip".to_string() } else { val(&mut r, s) }) }
                13 => format!("(sol {})", idx(&mut r)),
                14..=15 => format!("(solmut {} -)", idx(&mut r)),
                16..=18 => format!("(solmut {} {s})", idx(&mut r)),
                19 => { let i = idx(&mut r); if i < size { size -= 1; } format!("(intosol {i})") }
                20..=21 => { let i = idx(&mut r); if i < size { size += 1; } format!("(clone {i})") }
                22 => format!("(iseval {})", idx(&mut r)),
                23 => format!("(getobj {})", idx(&mut r)),
                24 => format!("(obj {})", idx(&mut r)),
                25 => format!("(eq {} {})", idx(&mut r), idx(&mut r)),
                26 => "(assols)".into(),
                27 => tagged("assolsmut", (0..size + r.below(2)).map(|_| if r.chance(1, 2) { "-".to_string() } else { r.below(np).to_string() })),
                28 => { let k = r.below(3); size += k; tagged("intoinds", (0..k).map(|_| r.below(np).to_string())) }
                29 => (*r.pick(&["(single)", "(singleref)"])).to_string(),
                30 => "(best)".into(),
                _ => if r.chance(1, 6) { size = 0; "(intosols)".into() } else { "(best)".into() },
            };
            // honest histories: raw writers on an existing member must write f(its current solution); we do not
            // track solutions here, so honest histories simply omit evalw/setobj (marked `skip`)
            if !op.contains(" skip)") { ops.push(op); }
        }
        emit(format!("(api (prob {kind} {inst} {npool}) {})", tagged("ops", ops)));
    }
    // (b) run level
    let seeds: u64 = if a.thorough { 8 } else { 2 };
    let iters = if a.thorough { 10 } else { 6 };
    for name in TEMPLATES {
        for v in 0..N_VARIANTS {
            for i in 0..N_INSTANCES {
                for k in 0..seeds {
                    let seed = a.seed * 1000 + k;
                    let ek = if (v + i + k as u32) % 4 == 1 { "par" } else { "seq" };
                    emit(format!("(run {name} {v} {i} {iters} {seed} {ek})"));
                }
            }
        }
    }
    out.finish();
}
