//! C18 — particle swarm: velocity clamp, motion, inertia interpolation, best memories.
//! Component level: the real swarm components on prepared swarms with scripted draws.
//! Run level: `real_pso` under the step observer with the state's generator swapped for a scripted
//! one, so that every velocity update of the run is re-derived by the model from the exact draws.
#[path = "../c17_script_rng.rs"]
mod script;

use hcommon::problems::Sphere;
use hcommon::templates::{run_template, EvalKind, HProblem, Outcome, Visitor};
use hcommon::*;
use mahf::components::mapping::Linear;
use mahf::components::swarm::pso::*;
use mahf::identifier::Global;
use mahf::lens::ValueOf;
use mahf::state::common::{Iterations, Populations, Progress};
use mahf::verif::Phase;
use mahf::{Component, Individual, Random, SingleObjective, State};
use script::*;

type P = Sphere;
type Pvu = ParticleVelocitiesUpdate<Global>;

fn field<'a>(args: &'a [Sx], name: &str) -> &'a [Sx] {
    for a in args {
        if let Some((h, rest)) = a.head() {
            if h == name { return rest; }
        }
    }
    panic!("missing field {name}")
}
fn has_field(args: &[Sx], name: &str) -> bool {
    args.iter().any(|a| a.head().map(|(h, _)| h == name).unwrap_or(false))
}
fn f1(args: &[Sx], name: &str) -> f64 {
    field(args, name)[0].float().unwrap()
}
fn floats(sx: &Sx) -> Vec<f64> {
    sx.items().unwrap().iter().map(|x| x.float().unwrap()).collect()
}
fn part_of<Q: HProblem<Encoding = Vec<f64>>>(sx: &Sx) -> Individual<Q> {
    let v = sx.items().unwrap();
    let pos = floats(&v[0]);
    match v[1].float() {
        Some(o) => Individual::new(pos, SingleObjective::try_from(o).unwrap()),
        None => Individual::new_unevaluated(pos),
    }
}
fn vec_s(v: &[f64]) -> String {
    list(v.iter().map(|x| fx(*x)))
}
fn part_s<Q: mahf::SingleObjectiveProblem<Encoding = Vec<f64>>>(i: &Individual<Q>) -> String {
    list([vec_s(i.solution()), if i.is_evaluated() { fx(i.objective().value()) } else { "u".into() }])
}
fn parts_s<Q: mahf::SingleObjectiveProblem<Encoding = Vec<f64>>>(tag: &str, p: &[Individual<Q>]) -> String {
    tagged(tag, p.iter().map(part_s))
}
/// The first `n` words a `ScriptRng` over `(words, fb)` hands out.
fn stream_words(words: &[u64], fb: u64, n: usize) -> Vec<u64> {
    let mut sm = Sm::new(fb);
    (0..n).map(|i| if i < words.len() { words[i] } else { sm.next() }).collect()
}

struct Prepared {
    state: State<'static, P>,
    script: std::sync::Arc<Script>,
    id: u64,
    words: Vec<u64>,
    fb: u64,
}
/// Builds a state from whatever of `(xs ..) (vs ..) (pbest ..) (gbest ..) (w ..)` the input has.
fn prepare(args: &[Sx]) -> Prepared {
    let fb = if has_field(args, "fb") { field(args, "fb")[0].nat().unwrap() } else { 0 };
    let words: Vec<u64> = if has_field(args, "words") { field(args, "words").iter().map(|w| w.nat().unwrap()).collect() } else { vec![] };
    let (id, script) = register(words.clone(), fb);
    let mut state: State<P> = State::new();
    state.insert(Populations::<P>::new());
    state.insert(Random::with_rng::<ScriptRng>(id));
    if has_field(args, "xs") {
        state.populations_mut().push(field(args, "xs").iter().map(part_of::<P>).collect());
    }
    if has_field(args, "vs") {
        state.insert(ParticleVelocities::<Global>::new(field(args, "vs").iter().map(floats).collect()));
    }
    if has_field(args, "pbest") {
        state.insert(BestParticles::<P, Global>::new(field(args, "pbest").iter().map(part_of::<P>).collect()));
    }
    if has_field(args, "gbest") {
        let g = &field(args, "gbest")[0];
        state.insert(BestParticle::<P, Global>::new(if g.atom() == Some("none") { None } else { Some(part_of::<P>(g)) }));
    }
    if has_field(args, "w") {
        state.insert(InertiaWeight::<Pvu>::new(f1(args, "w")));
    }
    Prepared { state, script, id, words, fb }
}
fn status_of(r: Option<mahf::ExecResult<()>>) -> &'static str {
    match r { Some(Ok(())) => "ok", Some(Err(_)) => "err", None => "panic" }
}

/// `(vel (w x) (w0 x) (c1 x) (c2 x) (vmax x) (fb n) (words w*) (xs P*) (vs V*) (pbest P*) (gbest P|none))`
fn run_vel(args: &[Sx]) -> String {
    let mut pr = prepare(args);
    let problem = Sphere::new(1, -1.0, 1.0, 0.0);
    let c = match Pvu::new::<P>(f1(args, "w0"), f1(args, "c1"), f1(args, "c2"), f1(args, "vmax")) {
        Ok(c) => c,
        Err(_) => return "(ctor-err)".into(),
    };
    let r = catch(|| c.execute(&problem, &mut pr.state));
    unregister(pr.id);
    let used = pr.script.used();
    let d = stream_words(&pr.words, pr.fb, used).into_iter().map(|w| fx(unit_of_word(w)));
    let xs = catch(|| parts_s("xs", pr.state.populations().current())).unwrap_or("(xs-unreadable)".into());
    let vs = catch(|| tagged("vs", pr.state.borrow::<ParticleVelocities<Global>>().iter().map(|v| vec_s(v)))).unwrap_or("(vs-unreadable)".into());
    list([status_of(r).to_string(), tagged("d", d), xs, vs])
}

/// `(velinit (vmax x) (dim n) (fb n) (words w*) (xs P*))`
fn run_velinit(args: &[Sx]) -> String {
    let mut pr = prepare(args);
    let dim = field(args, "dim")[0].nat().unwrap() as usize;
    let problem = Sphere::new(dim, -1.0, 1.0, 0.0);
    let c = match ParticleVelocitiesInit::<Global>::new::<P>(f1(args, "vmax")) {
        Ok(c) => c,
        Err(_) => return "(ctor-err)".into(),
    };
    let r = catch(|| { c.init(&problem, &mut pr.state)?; c.execute(&problem, &mut pr.state) });
    unregister(pr.id);
    let vs = catch(|| tagged("vs", pr.state.borrow::<ParticleVelocities<Global>>().iter().map(|v| vec_s(v)))).unwrap_or("(vs-unreadable)".into());
    list([status_of(r).to_string(), vs])
}

/// `(pbest (op init|update) (xs P*) (pbest P*))`
fn run_pbest(args: &[Sx]) -> String {
    let mut pr = prepare(args);
    let problem = Sphere::new(1, -1.0, 1.0, 0.0);
    let c: Box<dyn Component<P>> = if field(args, "op")[0].atom() == Some("init") { PersonalBestParticlesInit::<Global>::new() } else { PersonalBestParticlesUpdate::<Global>::new() };
    let r = catch(|| c.execute(&problem, &mut pr.state));
    unregister(pr.id);
    let pb = catch(|| parts_s("pbest", &pr.state.borrow::<BestParticles<P, Global>>())).unwrap_or("(pbest-unreadable)".into());
    list([status_of(r).to_string(), pb])
}

fn gbest_s(state: &State<P>) -> String {
    match &**state.borrow::<BestParticle<P, Global>>() {
        Some(g) => tagged("gbest", [part_s(g)]),
        None => "(gbest none)".into(),
    }
}
/// `(gbest (xs P*) (gbest P|none))`
fn run_gbest(args: &[Sx]) -> String {
    let mut pr = prepare(args);
    let problem = Sphere::new(1, -1.0, 1.0, 0.0);
    let c = GlobalBestParticleUpdate::<Global>::new::<P>();
    let r = catch(|| c.execute(&problem, &mut pr.state));
    unregister(pr.id);
    list([status_of(r).to_string(), catch(|| gbest_s(&pr.state)).unwrap_or("(gbest-unreadable)".into())])
}
/// `(swarm (xs P*) (pbest P*) (gbest P))`: the `ParticleSwarmUpdate` block.
fn run_swarm(args: &[Sx]) -> String {
    let mut pr = prepare(args);
    let problem = Sphere::new(1, -1.0, 1.0, 0.0);
    let c = ParticleSwarmUpdate::<Global>::new::<P>();
    let r = catch(|| c.execute(&problem, &mut pr.state));
    unregister(pr.id);
    let pb = catch(|| parts_s("pbest", &pr.state.borrow::<BestParticles<P, Global>>())).unwrap_or("(pbest-unreadable)".into());
    list([status_of(r).to_string(), pb, catch(|| gbest_s(&pr.state)).unwrap_or("(gbest-unreadable)".into())])
}

/// `(linear (start x) (end x) (progress x) (w x))`
fn run_linear(args: &[Sx]) -> String {
    let mut pr = prepare(args);
    let problem = Sphere::new(1, -1.0, 1.0, 0.0);
    pr.state.insert(Progress::<ValueOf<Iterations>>::default());
    pr.state.set_value::<Progress<ValueOf<Iterations>>>(f1(args, "progress"));
    let c = Linear::new::<P>(f1(args, "start"), f1(args, "end"), ValueOf::<Progress<ValueOf<Iterations>>>::new(), ValueOf::<InertiaWeight<Pvu>>::new());
    let r = catch(|| c.execute(&problem, &mut pr.state));
    unregister(pr.id);
    list([status_of(r).to_string(), fx(pr.state.get_value::<InertiaWeight<Pvu>>())])
}

// ---------------------------------------------------------------- template runs
struct PsoVisitor {
    steps: Vec<String>,
    vel_cases: Vec<(String, String)>,
    swapped: bool,
    fb: u64,
    script: Option<std::sync::Arc<Script>>,
    id: u64,
    shadow: Sm,
    shadow_pos: usize,
    c1: f64,
    c2: f64,
    vmax: f64,
    w0: f64,
    n_iter: u32,
    vel_before: Option<(String, usize)>,
    pb_before: Option<Vec<f64>>,
    hist: Vec<f64>,
}
impl Visitor for PsoVisitor {
    fn step<Q: HProblem>(&mut self, phase: Phase, name: &'static str, _index: usize, state: &State<Q>, problem: &Q) {
        if !self.swapped {
            // before the first draw of the run: a scripted (SplitMix-backed) generator
            let (id, s) = register(vec![], self.fb);
            *state.random_mut() = Random::with_rng::<ScriptRng>(id);
            self.script = Some(s);
            self.id = id;
            self.swapped = true;
        }
        // the templates are only instantiated with vector problems here
        let as_vec = |i: &Individual<Q>| -> Vec<f64> { Sx::parse(&Q::enc(i.solution())).map(|s| floats(&s)).unwrap_or_default() };
        let p_s = |i: &Individual<Q>| list([vec_s(&as_vec(i)), if i.is_evaluated() { fx(i.objective().value()) } else { "u".into() }]);
        let pops = state.populations();
        let vs = state.try_borrow::<ParticleVelocities<Global>>().ok();
        let pb = state.try_borrow::<BestParticles<Q, Global>>().ok();
        let gb = state.try_borrow::<BestParticle<Q, Global>>().ok();
        let lens = |tag: &str| list(["len".into(), tag.into(), pops.get_current().map(|c| c.len()).unwrap_or(0).to_string(),
            vs.as_ref().map(|v| v.len().to_string()).unwrap_or("x".into()), pb.as_ref().map(|v| v.len().to_string()).unwrap_or("x".into())]);
        if name == "mahf::verif::LoopPass" {
            self.steps.push(lens(if phase == Phase::Before { "pass" } else { "pass-end" }));
            return;
        }
        let short = if name.contains("mapping::common::Linear") { "inertia" }
            else if name.contains("ParticleVelocitiesUpdate") { "vel" }
            else if name.contains("ParticleVelocitiesInit") { "velinit" }
            else if name.contains("PersonalBestParticlesInit") { "pbinit" }
            else if name.contains("PersonalBestParticlesUpdate") { "pb" }
            else if name.contains("GlobalBestParticleUpdate") { "gb" }
            else { return };
        match (short, phase) {
            ("vel", Phase::Before) => {
                let (Some(vs), Some(pb), Some(gb)) = (vs.as_ref(), pb.as_ref(), gb.as_ref()) else { return };
                let w = state.get_value::<InertiaWeight<Pvu>>();
                let used = self.script.as_ref().unwrap().used();
                let pre = format!("(w {}) (w0 {}) (c1 {}) (c2 {}) (vmax {}) (fb 0) WORDS {} {} {} {}", fx(w), fx(self.w0), fx(self.c1), fx(self.c2), fx(self.vmax),
                    tagged("xs", pops.current().iter().map(&p_s)), tagged("vs", vs.iter().map(|v| vec_s(v))),
                    tagged("pbest", pb.iter().map(&p_s)), match &***gb { Some(g) => tagged("gbest", [p_s(g)]), None => "(gbest none)".into() });
                self.vel_before = Some((pre, used));
            }
            ("vel", Phase::After) => {
                if let (Some((pre, used0)), Some(vs)) = (self.vel_before.take(), vs.as_ref()) {
                    let used1 = self.script.as_ref().unwrap().used();
                    while self.shadow_pos < used0 { self.shadow.next(); self.shadow_pos += 1; }
                    let mut words = vec![];
                    while self.shadow_pos < used1 { words.push(self.shadow.next()); self.shadow_pos += 1; }
                    let input = format!("(vel {})", pre.replace("WORDS", &tagged("words", words.iter().map(|w| w.to_string()))));
                    let d = words.iter().map(|w| fx(unit_of_word(*w)));
                    let output = list(["ok".to_string(), tagged("d", d), tagged("xs", pops.current().iter().map(&p_s)), tagged("vs", vs.iter().map(|v| vec_s(v)))]);
                    self.vel_cases.push((input, output));
                }
                self.steps.push(lens("vel"));
            }
            ("inertia", Phase::After) => {
                let prog = state.try_borrow::<Progress<ValueOf<Iterations>>>().map(|p| p.0).unwrap_or(f64::NAN);
                self.steps.push(list(["inertia".into(), state.iterations().to_string(), self.n_iter.to_string(), fx(prog), fx(state.get_value::<InertiaWeight<Pvu>>())]));
            }
            ("velinit", Phase::After) => self.steps.push(lens("velinit")),
            ("pbinit", Phase::After) => {
                self.hist = pops.current().iter().map(|i| problem.raw_f(i.solution())).collect();
                self.steps.push(lens("pbinit"));
                if let Some(pb) = pb.as_ref() {
                    let objs = |v: &[Individual<Q>]| list(v.iter().map(|i| if i.is_evaluated() { fx(i.objective().value()) } else { "u".into() }));
                    self.steps.push(list(["pb0".into(), objs(pops.current()), objs(pb), vec_s(&self.hist)]));
                }
            }
            ("pb", Phase::Before) => {
                self.pb_before = pb.as_ref().map(|pb| pb.iter().map(|i| i.objective().value()).collect());
                // the harness's own history: best raw objective among the positions this particle was evaluated at
                for (k, i) in pops.current().iter().enumerate() {
                    let f = problem.raw_f(i.solution());
                    if k < self.hist.len() { if f < self.hist[k] { self.hist[k] = f; } } else { self.hist.push(f); }
                }
            }
            ("pb", Phase::After) => {
                if let (Some(old), Some(pb)) = (self.pb_before.take(), pb.as_ref()) {
                    let cand: Vec<f64> = pops.current().iter().map(|i| i.objective().value()).collect();
                    let new: Vec<f64> = pb.iter().map(|i| i.objective().value()).collect();
                    let raw: Vec<f64> = pb.iter().map(|i| problem.raw_f(i.solution())).collect();
                    self.steps.push(list(["pb".into(), vec_s(&old), vec_s(&cand), vec_s(&new), vec_s(&self.hist), vec_s(&raw)]));
                }
                self.steps.push(lens("pb"));
            }
            ("gb", Phase::After) => {
                if let (Some(pb), Some(gb)) = (pb.as_ref(), gb.as_ref()) {
                    let pbo: Vec<f64> = pb.iter().map(|i| i.objective().value()).collect();
                    let (g, member) = match &***gb {
                        Some(g) => (fx(g.objective().value()), pb.iter().any(|i| i == g)),
                        None => ("none".into(), false),
                    };
                    self.steps.push(list(["gb".into(), g, vec_s(&pbo), b(member)]));
                }
                self.steps.push(lens("gb"));
            }
            _ => {}
        }
    }
    fn done<Q: HProblem>(&mut self, _outcome: &Outcome, _state: Option<&State<Q>>, _problem: &Q) {
        if self.swapped { unregister(self.id); }
    }
}

const NP: [u64; 3] = [4, 1, 7];
const START_W: [f64; 3] = [0.9, 0.5, 0.0];
const END_W: [f64; 3] = [0.4, 0.5, 1.0];
const C1: [f64; 3] = [1.7, 0.0, 2.0];
const C2: [f64; 3] = [1.7, 2.0, 0.0];
const VMAX: [f64; 3] = [1.0, 0.001, 10.0];

/// `(run (v k) (i k) (iters n) (seed s) (start x) (end x) (c1 x) (c2 x) (vmax x) (np n))` → run case + its velocity-update cases
fn run_run(args: &[Sx]) -> (String, Vec<(String, String)>) {
    let v = field(args, "v")[0].nat().unwrap() as u32;
    let i = field(args, "i")[0].nat().unwrap() as u32;
    let iters = field(args, "iters")[0].nat().unwrap() as u32;
    let seed = field(args, "seed")[0].nat().unwrap();
    let vis = PsoVisitor {
        steps: vec![], vel_cases: vec![], swapped: false, fb: seed, script: None, id: 0, shadow: Sm::new(seed), shadow_pos: 0,
        c1: f1(args, "c1"), c2: f1(args, "c2"), vmax: f1(args, "vmax"), w0: f1(args, "start"), n_iter: iters,
        vel_before: None, pb_before: None, hist: vec![],
    };
    match run_template("real_pso", v, i, iters, seed, EvalKind::Sequential, vis) {
        Ok((vis, outcome)) => (list([outcome.tag().to_string(), tagged("steps", vis.steps)]), vis.vel_cases),
        Err(_) => ("(ctor-err (steps))".into(), vec![]),
    }
}

/// `(runc (np n) (dim d) (iters n) (seed s) (start x) (end x) (c1 x) (c2 x) (vmax x))`: `real_pso` built directly
/// with parameters the shared template table does not contain (inertia weights above 1, increasing
/// schedules, zero acceleration coefficients), run the same way `run_template` does.
fn run_custom(args: &[Sx]) -> (String, Vec<(String, String)>) {
    use mahf::conditions::LessThanN;
    use mahf::heuristics::pso;
    use mahf::problems::Sequential;
    use mahf::verif::StepObserver;
    use std::sync::{Arc, Mutex};
    let np = field(args, "np")[0].nat().unwrap() as u32;
    let dim = field(args, "dim")[0].nat().unwrap() as usize;
    let iters = field(args, "iters")[0].nat().unwrap() as u32;
    let seed = field(args, "seed")[0].nat().unwrap();
    let problem = Sphere::new(dim, -3.0, 4.0, 0.5);
    let cfg = match pso::real_pso::<Sphere>(pso::RealProblemParameters {
        num_particles: np, start_weight: f1(args, "start"), end_weight: f1(args, "end"),
        c_one: f1(args, "c1"), c_two: f1(args, "c2"), v_max: f1(args, "vmax") }, LessThanN::iterations(iters)) {
        Ok(c) => c,
        Err(_) => return ("(ctor-err (steps))".into(), vec![]),
    };
    let vis = Arc::new(Mutex::new(PsoVisitor {
        steps: vec![], vel_cases: vec![], swapped: false, fb: seed, script: None, id: 0, shadow: Sm::new(seed), shadow_pos: 0,
        c1: f1(args, "c1"), c2: f1(args, "c2"), vmax: f1(args, "vmax"), w0: f1(args, "start"), n_iter: iters,
        vel_before: None, pb_before: None, hist: vec![],
    }));
    let (v2, p2) = (vis.clone(), problem.clone());
    let r = catch(|| cfg.optimize_with(&problem, |state: &mut State<Sphere>| {
        state.insert(Random::new(seed));
        state.insert_evaluator(Sequential::<Sphere>::new());
        state.insert(StepObserver::<Sphere>(Box::new(move |ph, name, idx, st| {
            v2.lock().unwrap().step(ph, name, idx, st, &p2);
        })));
        Ok(())
    }));
    let tag = match &r { None => "panic", Some(Err(_)) => "err", Some(Ok(_)) => "ok" };
    drop(r);
    let mut g = vis.lock().unwrap_or_else(|e| e.into_inner());
    if g.swapped { unregister(g.id); }
    (list([tag.to_string(), tagged("steps", std::mem::take(&mut g.steps))]), std::mem::take(&mut g.vel_cases))
}

fn run_case(input: &Sx) -> String {
    let (kind, args) = input.head().unwrap();
    match kind {
        "vel" => run_vel(args),
        "velinit" => run_velinit(args),
        "pbest" => run_pbest(args),
        "gbest" => run_gbest(args),
        "swarm" => run_swarm(args),
        "linear" => run_linear(args),
        "run" => run_run(args).0,
        "runc" => run_custom(args).0,
        _ => panic!("unknown case kind {kind}"),
    }
}

// ---------------------------------------------------------------- generators
struct Gen {
    rng: Sm,
}
impl Gen {
    fn coord(&mut self) -> f64 {
        match self.rng.below(6) {
            0 => 0.0,
            1 => (self.rng.unit() - 0.5) * 2e3,
            _ => (self.rng.unit() - 0.5) * 10.0,
        }
    }
    fn pos(&mut self, dim: usize) -> Vec<f64> {
        (0..dim).map(|_| self.coord()).collect()
    }
    fn obj_of(pos: &[f64]) -> f64 {
        pos.iter().map(|x| x * x).sum()
    }
    fn part(&mut self, dim: usize, evaluated: bool) -> String {
        let p = self.pos(dim);
        list([vec_s(&p), if evaluated { fx(Self::obj_of(&p)) } else { "u".into() }])
    }
    fn part_obj(&mut self, dim: usize, obj: f64) -> String {
        let p = self.pos(dim);
        list([vec_s(&p), fx(obj)])
    }
    fn words(&mut self, n: usize) -> Vec<u64> {
        (0..n).map(|_| match self.rng.below(8) {
            0 => 0,
            1 => u64::MAX,
            2 => 1u64 << 63,
            _ => self.rng.next(),
        }).collect()
    }
    fn coef(&mut self) -> f64 {
        *self.rng.pick(&[0.0, 0.5, 1.0, 1.7, 2.0, 4.0])
    }
    fn vmax(&mut self) -> f64 {
        *self.rng.pick(&[1e-3, 1e-2, 0.1, 1.0, 3.0, 10.0])
    }
}

fn vel_case(g: &mut Gen, malformed: u64, special: u64) -> String {
    let n = g.rng.range(1, 10) as usize;
    let dim = g.rng.range(1, 5) as usize;
    let vmax = g.vmax();
    let (mut nv, mut npb, mut gb_none) = (n, n, false);
    let (mut dv, mut dg) = (dim, dim);
    match malformed {
        1 => nv = n + 1,
        2 => nv = n - 1,
        3 => npb = n + 1,
        4 => npb = n.saturating_sub(1),
        5 => gb_none = true,
        6 => dv = dim + 1,     // velocity longer than the position: index out of bounds
        7 => dg = dim - 1,     // global best shorter
        8 => dv = dim - 1,     // velocity shorter: surplus coordinates untouched
        _ => {}
    }
    // special 2: every particle sits on its personal best and on the global best, so both attraction
    // terms vanish and the result is independent of the draws: v' = clamp(w_stored * v)
    let shared = g.pos(dim);
    let at_best = |g: &mut Gen| list([vec_s(&shared), fx(Gen::obj_of(&shared))]);
    let xs: Vec<String> = (0..n).map(|_| if special == 2 { at_best(g) } else { let e = g.rng.chance(4, 5); g.part(dim, e) }).collect();
    let vs: Vec<String> = (0..nv).map(|_| vec_s(&(0..dv).map(|_| (g.rng.unit() * 2.0 - 1.0) * vmax * if g.rng.chance(1, 6) { 3.0 } else { 1.0 }).collect::<Vec<_>>())).collect();
    let pb: Vec<String> = (0..npb).map(|_| if special == 2 { at_best(g) } else { g.part(dim, true) }).collect();
    let gb = if gb_none { "none".to_string() } else if special == 2 { at_best(g) } else { g.part(dg, true) };
    let (ca, cb) = if special == 1 { (0.0, 0.0) } else { (g.coef(), g.coef()) };
    let nw = 2 * n * dim;
    let scripted = if g.rng.chance(1, 2) { nw } else { g.rng.below(nw as u64 + 1) as usize };
    format!("(vel (w {}) (w0 {}) (c1 {}) (c2 {}) (vmax {}) (fb {}) {} {} {} {} (gbest {}))",
        fx(*g.rng.pick(&[0.0, 0.4, 0.729, 0.9, 1.0, 1.2, 1.4, 1.5])), fx(*g.rng.pick(&[0.0, 0.7, 5.0])), fx(ca), fx(cb), fx(vmax), g.rng.below(1000),
        tagged("words", g.words(scripted).iter().map(|w| w.to_string())), tagged("xs", xs), tagged("vs", vs), tagged("pbest", pb), gb)
}

fn main() {
    quiet_panics();
    let a = args();
    let mut out = Out::new();
    if let Some(r) = a.replay {
        let sx = Sx::parse(&r).expect("bad replay input");
        out.case("replay", &r, &run_case(&sx));
        out.finish();
        return;
    }
    let mut g = Gen { rng: Sm::new(a.seed ^ 0xC18) };
    let mut emit = |site: &str, input: String| {
        let sx = Sx::parse(&input).unwrap();
        out.case(site, &input, &run_case(&sx));
    };
    let reps = if a.thorough { 3000 } else { 400 };
    for k in 0..reps { emit("vel", vel_case(&mut g, 0, if k % 4 == 1 { 1 } else if k % 4 == 3 { 2 } else { 0 })); }
    for k in 0..(if a.thorough { 400 } else { 80 }) { emit("vel-malformed", vel_case(&mut g, 1 + k % 8, 0)); }
    for _ in 0..(if a.thorough { 1000 } else { 150 }) {
        let n = g.rng.range(0, 10) as usize;
        let dim = g.rng.range(1, 5) as usize;
        let xs: Vec<String> = (0..n).map(|_| g.part(dim, true)).collect();
        let vmax = if g.rng.chance(1, 20) { *g.rng.pick(&[0.0, -1.0]) } else { g.vmax() };
        let nw = g.rng.below(8) as usize;
        emit("velinit", format!("(velinit (vmax {}) (dim {}) (fb {}) {} {})", fx(vmax), dim, g.rng.below(1000),
            tagged("words", g.words(nw).iter().map(|w| w.to_string())), tagged("xs", xs)));
    }
    // personal bests: objective values from a small set so that ties and strict improvements both occur
    // ... and improvements as small as one ulp / far below machine epsilon in absolute value
    let objs = [0.0, 0.5, 1.0, 1.0, 2.0, 3.5, -1.0, 1e-9, 1e9, 1.0 + f64::EPSILON, 1e-17, 3e-17, 5e-324];
    for k in 0..(if a.thorough { 2000 } else { 300 }) {
        let n = g.rng.range(0, 10) as usize;
        let dim = g.rng.range(1, 5) as usize;
        let npb = if k % 10 == 0 { g.rng.range(0, 10) as usize } else { n };
        let uneval = k % 13 == 5;
        let xs: Vec<String> = (0..n).map(|_| if uneval && g.rng.chance(1, 3) { g.part(dim, false) } else { let o = *g.rng.pick(&objs); g.part_obj(dim, o) }).collect();
        let pb: Vec<String> = (0..npb).map(|_| { let o = *g.rng.pick(&objs); g.part_obj(dim, o) }).collect();
        let op = if k % 7 == 0 { "init" } else { "update" };
        emit(&format!("pbest-{op}"), format!("(pbest (op {}) {} {})", op, tagged("xs", xs), tagged("pbest", pb)));
    }
    for k in 0..(if a.thorough { 2000 } else { 300 }) {
        let n = g.rng.range(0, 10) as usize;
        let dim = g.rng.range(1, 5) as usize;
        let uneval = k % 13 == 5;
        let xs: Vec<String> = (0..n).map(|_| if uneval && g.rng.chance(1, 3) { g.part(dim, false) } else { let o = *g.rng.pick(&objs); g.part_obj(dim, o) }).collect();
        let gb = if k % 5 == 0 { "none".to_string() } else { let o = *g.rng.pick(&objs); g.part_obj(dim, o) };
        emit("gbest", format!("(gbest {} (gbest {}))", tagged("xs", xs), gb));
    }
    // swarm invariant: personal bests with their minimum as global best, then the update block
    for _ in 0..(if a.thorough { 2000 } else { 300 }) {
        let n = g.rng.range(1, 10) as usize;
        let dim = g.rng.range(1, 5) as usize;
        let pbo: Vec<f64> = (0..n).map(|_| *g.rng.pick(&objs)).collect();
        let pb: Vec<String> = pbo.iter().map(|o| g.part_obj(dim, *o)).collect();
        let mut first_min = 0;
        for (k, o) in pbo.iter().enumerate() { if *o < pbo[first_min] { first_min = k; } }
        let xs: Vec<String> = (0..n).map(|_| { let o = *g.rng.pick(&objs); g.part_obj(dim, o) }).collect();
        emit("swarm", format!("(swarm {} {} (gbest {}))", tagged("xs", xs), tagged("pbest", pb.clone()), pb[first_min]));
    }
    for _ in 0..(if a.thorough { 1000 } else { 200 }) {
        let start = *g.rng.pick(&[0.9, 0.5, 0.0, 1.0, 0.4]);
        let end = *g.rng.pick(&[0.4, 0.5, 1.0, 0.0, 0.9]);
        let progress = match g.rng.below(4) { 0 => 0.0, 1 => 1.0, _ => g.rng.below(101) as f64 / 100.0 };
        emit("linear", format!("(linear (start {}) (end {}) (progress {}) (w {}))", fx(start), fx(end), fx(progress), fx(123.0)));
    }
    drop(emit);
    // template runs
    let seeds = if a.thorough { 8 } else { 2 };
    for v in 0..3usize {
        for i in 0..4u32 {
            for s in 0..seeds {
                // the 1-dimensional instance converges: a long run reaches improvements far below machine epsilon
                let iters = if a.thorough { 120 } else { 25 } * if i == 1 { 6 } else { 1 };
                let input = format!("(run (v {}) (i {}) (iters {}) (seed {}) (start {}) (end {}) (c1 {}) (c2 {}) (vmax {}) (np {}))",
                    v, i, iters, a.seed * 100 + s, fx(START_W[v]), fx(END_W[v]), fx(C1[v]), fx(C2[v]), fx(VMAX[v]), NP[v]);
                let sx = Sx::parse(&input).unwrap();
                let (_, args) = sx.head().unwrap();
                let (output, vel_cases) = run_run(args);
                out.case("run", &input, &output);
                for (vi, vo) in vel_cases {
                    out.case("run-vel", &vi, &vo);
                }
            }
        }
    }
    // runs with parameters outside the shared template table
    let custom: [(u64, u64, f64, f64, f64, f64, f64); 5] = [
        (5, 2, 1.4, 0.4, 0.0, 0.0, 10.0),   // weight above 1, no attraction: v' = clamp(w_stored * v)
        (3, 1, 1.2, 0.4, 1.7, 1.7, 1.0),
        (4, 3, 0.4, 0.9, 2.0, 2.0, 0.1),    // increasing schedule
        (6, 2, 0.729, 0.729, 1.49, 1.49, 2.0),
        (1, 2, 1.5, 0.0, 0.0, 2.0, 0.5),    // a single particle is its own global best
    ];
    for (k, c) in custom.iter().enumerate() {
        for s in 0..(if a.thorough { 4 } else { 1 }) {
            let input = format!("(runc (np {}) (dim {}) (iters {}) (seed {}) (start {}) (end {}) (c1 {}) (c2 {}) (vmax {}))",
                c.0, c.1, if a.thorough { 100 } else { 30 }, a.seed * 100 + 50 + s + 10 * k as u64, fx(c.2), fx(c.3), fx(c.4), fx(c.5), fx(c.6));
            let sx = Sx::parse(&input).unwrap();
            let (_, args) = sx.head().unwrap();
            let (output, vel_cases) = run_custom(args);
            out.case("run", &input, &output);
            for (vi, vo) in vel_cases {
                out.case("run-vel", &vi, &vo);
            }
        }
    }
    out.finish();
}
