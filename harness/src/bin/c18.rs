//! C18 — particle swarm: velocity clamp, motion, inertia interpolation, best memories.
//! Component level: the real swarm components on prepared swarms with scripted draws.
//! Run level: `real_pso` under the step observer with the state's generator swapped for a scripted
//! one, so that every velocity update of the run is re-derived by the model from the exact draws.
#[path = "../c17_script_rng.rs"]
mod script;

use hcommon::problems::Sphere;
use hcommon::templates::{run_template, EvalKind, HProblem, Outcome, Visitor};
use hcommon::*;
use mahf::components::mapping::Linear;
use mahf::components::swarm::pso::*;
use mahf::identifier::{Global, Identifier, A};
use mahf::lens::ValueOf;
use mahf::state::common::{BestIndividual, Evaluations, Iterations, Populations, Progress};
use mahf::verif::Phase;
use mahf::{Component, Individual, Random, SingleObjective, State};
use script::*;

type P = Sphere;
type Pvu = ParticleVelocitiesUpdate<Global>;

fn field<'a>(args: &'a [Sx], name: &str) -> &'a [Sx] {
    for a in args {
        if let Some((h, rest)) = a.head() {
            if h == name { return rest; }
        }
    }
    panic!("missing field {name}")
}
fn has_field(args: &[Sx], name: &str) -> bool {
    args.iter().any(|a| a.head().map(|(h, _)| h == name).unwrap_or(false))
}
fn f1(args: &[Sx], name: &str) -> f64 {
    field(args, name)[0].float().unwrap()
}
fn floats(sx: &Sx) -> Vec<f64> {
    sx.items().unwrap().iter().map(|x| x.float().unwrap()).collect()
}
fn part_of<Q: HProblem<Encoding = Vec<f64>>>(sx: &Sx) -> Individual<Q> {
    let v = sx.items().unwrap();
    let pos = floats(&v[0]);
    match v[1].float() {
        Some(o) => Individual::new(pos, SingleObjective::try_from(o).unwrap()),
        None => Individual::new_unevaluated(pos),
    }
}
fn vec_s(v: &[f64]) -> String {
    list(v.iter().map(|x| fx(*x)))
}
fn part_s<Q: mahf::SingleObjectiveProblem<Encoding = Vec<f64>>>(i: &Individual<Q>) -> String {
    list([vec_s(i.solution()), if i.is_evaluated() { fx(i.objective().value()) } else { "u".into() }])
}
fn parts_s<Q: mahf::SingleObjectiveProblem<Encoding = Vec<f64>>>(tag: &str, p: &[Individual<Q>]) -> String {
    tagged(tag, p.iter().map(part_s))
}
/// The first `n` words a `ScriptRng` over `(words, fb)` hands out.
fn stream_words(words: &[u64], fb: u64, n: usize) -> Vec<u64> {
    let mut sm = Sm::new(fb);
    (0..n).map(|i| if i < words.len() { words[i] } else { sm.next() }).collect()
}

struct Prepared {
    state: State<'static, P>,
    script: std::sync::Arc<Script>,
    id: u64,
    words: Vec<u64>,
    fb: u64,
}
/// Builds a state from whatever of `(xs ..) (vs ..) (pbest ..) (gbest ..) (w ..)` the input has.
fn prepare(args: &[Sx]) -> Prepared {
    prepare_id::<Global>(args)
}
fn is_global<I: Identifier>() -> bool {
    std::any::TypeId::of::<I>() == std::any::TypeId::of::<Global>()
}
/// The swarm state is keyed by the identifier `I`. For `I != Global` the state additionally holds DECOY swarm
/// state under `Global` (other sizes, other values) which components with identifier `I` must neither read nor write.
fn prepare_id<I: Identifier>(args: &[Sx]) -> Prepared {
    let fb = if has_field(args, "fb") { field(args, "fb")[0].nat().unwrap() } else { 0 };
    let words: Vec<u64> = if has_field(args, "words") { field(args, "words").iter().map(|w| w.nat().unwrap()).collect() } else { vec![] };
    let (id, script) = register(words.clone(), fb);
    let mut state: State<P> = State::new();
    state.insert(Populations::<P>::new());
    state.insert(Random::with_rng::<ScriptRng>(id));
    if has_field(args, "xs") {
        state.populations_mut().push(field(args, "xs").iter().map(part_of::<P>).collect());
    }
    if !is_global::<I>() {
        state.insert(ParticleVelocities::<Global>::new(vec![vec![0.25], vec![-0.25], vec![0.5]]));
        state.insert(BestParticles::<P, Global>::new(vec![decoy()]));
        state.insert(BestParticle::<P, Global>::new(Some(decoy())));
        state.insert(InertiaWeight::<Pvu>::new(77.0));
    }
    if has_field(args, "vs") {
        state.insert(ParticleVelocities::<I>::new(field(args, "vs").iter().map(floats).collect()));
    }
    if has_field(args, "pbest") {
        state.insert(BestParticles::<P, I>::new(field(args, "pbest").iter().map(part_of::<P>).collect()));
    }
    if has_field(args, "gbest") {
        let g = &field(args, "gbest")[0];
        state.insert(BestParticle::<P, I>::new(if g.atom() == Some("none") { None } else { Some(part_of::<P>(g)) }));
    }
    if has_field(args, "w") {
        state.insert(InertiaWeight::<ParticleVelocitiesUpdate<I>>::new(f1(args, "w")));
    }
    // `common::BestIndividual` (the best solution of the whole heuristic, not of the swarm): the swarm
    // components must not look at it
    if has_field(args, "bestind") {
        let g = &field(args, "bestind")[0];
        let mut bi = BestIndividual::<P>::new();
        if g.atom() != Some("none") { *bi = Some(part_of::<P>(g)); }
        state.insert(bi);
    }
    Prepared { state, script, id, words, fb }
}
fn decoy() -> Individual<P> {
    Individual::new(vec![-123.0], SingleObjective::try_from(-1e6).unwrap())
}
/// The decoys are as `prepare_id` made them.
fn decoys_intact<I: Identifier>(state: &State<P>) -> bool {
    if is_global::<I>() { return true; }
    catch(|| {
        **state.borrow::<ParticleVelocities<Global>>() == vec![vec![0.25], vec![-0.25], vec![0.5]]
            && state.borrow::<BestParticles<P, Global>>().len() == 1
            && state.borrow::<BestParticles<P, Global>>()[0] == decoy()
            && state.borrow::<BestParticle<P, Global>>().as_ref() == Some(&decoy())
            && state.get_value::<InertiaWeight<Pvu>>() == 77.0
    }).unwrap_or(false)
}
fn status_of(r: Option<mahf::ExecResult<()>>) -> &'static str {
    match r { Some(Ok(())) => "ok", Some(Err(_)) => "err", None => "panic" }
}
fn status_id<I: Identifier>(r: Option<mahf::ExecResult<()>>, state: &State<P>) -> &'static str {
    let s = status_of(r);
    if s == "ok" && !decoys_intact::<I>(state) { "leak" } else { s }
}
/// Components take their identifier from `(id a)` (identifier `A`, with `Global` decoys) or default to `Global`.
fn has_id_a(args: &[Sx]) -> bool {
    has_field(args, "id") && field(args, "id")[0].atom() == Some("a")
}

/// `(vel (w x) (w0 x) (c1 x) (c2 x) (vmax x) (fb n) (words w*) (xs P*) (vs V*) (pbest P*) (gbest P|none) [(id a)])`
fn run_vel(args: &[Sx]) -> String {
    if has_id_a(args) { run_vel_id::<A>(args) } else { run_vel_id::<Global>(args) }
}
fn run_vel_id<I: Identifier>(args: &[Sx]) -> String {
    let mut pr = prepare_id::<I>(args);
    let problem = Sphere::new(1, -1.0, 1.0, 0.0);
    let c = match ParticleVelocitiesUpdate::<I>::new_with_id::<P>(f1(args, "w0"), f1(args, "c1"), f1(args, "c2"), f1(args, "vmax")) {
        Ok(c) => c,
        Err(_) => return "(ctor-err)".into(),
    };
    let r = catch(|| c.execute(&problem, &mut pr.state));
    unregister(pr.id);
    let used = pr.script.used();
    let d = stream_words(&pr.words, pr.fb, used).into_iter().map(|w| fx(unit_of_word(w)));
    let xs = catch(|| parts_s("xs", pr.state.populations().current())).unwrap_or("(xs-unreadable)".into());
    let vs = catch(|| tagged("vs", pr.state.borrow::<ParticleVelocities<I>>().iter().map(|v| vec_s(v)))).unwrap_or("(vs-unreadable)".into());
    list([status_id::<I>(r, &pr.state).to_string(), tagged("d", d), xs, vs])
}

/// `(velinit (vmax x) (dim n) (fb n) (words w*) (xs P*) [(id a)])`
fn run_velinit(args: &[Sx]) -> String {
    if has_id_a(args) { run_velinit_id::<A>(args) } else { run_velinit_id::<Global>(args) }
}
fn run_velinit_id<I: Identifier>(args: &[Sx]) -> String {
    let mut pr = prepare_id::<I>(args);
    let dim = field(args, "dim")[0].nat().unwrap() as usize;
    let problem = Sphere::new(dim, -1.0, 1.0, 0.0);
    let c = match ParticleVelocitiesInit::<I>::new::<P>(f1(args, "vmax")) {
        Ok(c) => c,
        Err(_) => return "(ctor-err)".into(),
    };
    let r = catch(|| { c.init(&problem, &mut pr.state)?; c.execute(&problem, &mut pr.state) });
    unregister(pr.id);
    let vs = catch(|| tagged("vs", pr.state.borrow::<ParticleVelocities<I>>().iter().map(|v| vec_s(v)))).unwrap_or("(vs-unreadable)".into());
    list([status_id::<I>(r, &pr.state).to_string(), vs])
}

/// `(pbest (op init|update) (xs P*) (pbest P*) [(id a)])`
fn run_pbest(args: &[Sx]) -> String {
    if has_id_a(args) { run_pbest_id::<A>(args) } else { run_pbest_id::<Global>(args) }
}
fn run_pbest_id<I: Identifier>(args: &[Sx]) -> String {
    let mut pr = prepare_id::<I>(args);
    let problem = Sphere::new(1, -1.0, 1.0, 0.0);
    let c: Box<dyn Component<P>> = if field(args, "op")[0].atom() == Some("init") { PersonalBestParticlesInit::<I>::new() } else { PersonalBestParticlesUpdate::<I>::new() };
    let r = catch(|| c.execute(&problem, &mut pr.state));
    unregister(pr.id);
    let pb = catch(|| parts_s("pbest", &pr.state.borrow::<BestParticles<P, I>>())).unwrap_or("(pbest-unreadable)".into());
    list([status_id::<I>(r, &pr.state).to_string(), pb])
}

fn gbest_s(state: &State<P>) -> String {
    gbest_s_id::<Global>(state)
}
fn gbest_s_id<I: Identifier>(state: &State<P>) -> String {
    match &**state.borrow::<BestParticle<P, I>>() {
        Some(g) => tagged("gbest", [part_s(g)]),
        None => "(gbest none)".into(),
    }
}
/// `(gbest (xs P*) (gbest P|none) [(bestind P|none)] [(id a)])`
fn run_gbest(args: &[Sx]) -> String {
    if has_id_a(args) { run_gbest_id::<A>(args) } else { run_gbest_id::<Global>(args) }
}
fn run_gbest_id<I: Identifier>(args: &[Sx]) -> String {
    let mut pr = prepare_id::<I>(args);
    let problem = Sphere::new(1, -1.0, 1.0, 0.0);
    let c = GlobalBestParticleUpdate::<I>::new::<P>();
    let r = catch(|| c.execute(&problem, &mut pr.state));
    unregister(pr.id);
    let st = status_id::<I>(r, &pr.state).to_string();
    list([st, catch(|| gbest_s_id::<I>(&pr.state)).unwrap_or("(gbest-unreadable)".into())])
}
/// `(swarm (xs P*) (pbest P*) (gbest P))`: the `ParticleSwarmUpdate` block.
fn run_swarm(args: &[Sx]) -> String {
    let mut pr = prepare(args);
    let problem = Sphere::new(1, -1.0, 1.0, 0.0);
    let c = ParticleSwarmUpdate::<Global>::new::<P>();
    let r = catch(|| c.execute(&problem, &mut pr.state));
    unregister(pr.id);
    let pb = catch(|| parts_s("pbest", &pr.state.borrow::<BestParticles<P, Global>>())).unwrap_or("(pbest-unreadable)".into());
    list([status_of(r).to_string(), pb, catch(|| gbest_s(&pr.state)).unwrap_or("(gbest-unreadable)".into())])
}

/// `(swarminit (vmax x) (dim n) (fb n) (words w*) (xs P*) [(gbest P)])`: the `ParticleSwarmInit` block (`init`, then
/// `execute`) — on a fresh state, or on one that still holds the `BestParticle` of an earlier swarm (second phase of a
/// two-phase heuristic, re-initialisation): `GlobalBestParticleUpdate::init` only inserts when there is none.
fn run_swarminit(args: &[Sx]) -> String {
    let mut pr = prepare(args);
    let dim = field(args, "dim")[0].nat().unwrap() as usize;
    let problem = Sphere::new(dim, -1.0, 1.0, 0.0);
    let c = match ParticleSwarmInit::<Global>::new::<P>(f1(args, "vmax")) {
        Ok(c) => c,
        Err(_) => return "(ctor-err)".into(),
    };
    let r = catch(|| { c.init(&problem, &mut pr.state)?; c.execute(&problem, &mut pr.state) });
    unregister(pr.id);
    let vs = catch(|| tagged("vs", pr.state.borrow::<ParticleVelocities<Global>>().iter().map(|v| vec_s(v)))).unwrap_or("(vs-unreadable)".into());
    let pb = catch(|| parts_s("pbest", &pr.state.borrow::<BestParticles<P, Global>>())).unwrap_or("(pbest-unreadable)".into());
    list([status_of(r).to_string(), vs, pb, catch(|| gbest_s(&pr.state)).unwrap_or("(gbest-unreadable)".into())])
}

/// `(linear (start x) (end x) (progress x) (w x))`
fn run_linear(args: &[Sx]) -> String {
    let mut pr = prepare(args);
    let problem = Sphere::new(1, -1.0, 1.0, 0.0);
    pr.state.insert(Progress::<ValueOf<Iterations>>::default());
    pr.state.set_value::<Progress<ValueOf<Iterations>>>(f1(args, "progress"));
    let c = Linear::new::<P>(f1(args, "start"), f1(args, "end"), ValueOf::<Progress<ValueOf<Iterations>>>::new(), ValueOf::<InertiaWeight<Pvu>>::new());
    let r = catch(|| c.execute(&problem, &mut pr.state));
    unregister(pr.id);
    list([status_of(r).to_string(), fx(pr.state.get_value::<InertiaWeight<Pvu>>())])
}

// ---------------------------------------------------------------- template runs
struct PsoVisitor {
    steps: Vec<String>,
    vel_cases: Vec<(String, String)>,
    swapped: bool,
    fb: u64,
    script: Option<std::sync::Arc<Script>>,
    id: u64,
    shadow: Sm,
    shadow_pos: usize,
    c1: f64,
    c2: f64,
    vmax: f64,
    w0: f64,
    n_iter: u32,
    vel_before: Option<(String, usize)>,
    pb_before: Option<Vec<f64>>,
    hist: Vec<f64>,
    /// `runx`: also report the loop condition's side effects at every pass boundary and the weight
    /// every velocity update reads
    ext: bool,
    /// `runn`: the PSO loop is not the only loop of the configuration. `pso_depth` is the nesting depth of
    /// the PSO loop among the loops being executed (1 = outermost); passes of enclosing loops open a new
    /// segment, passes of loops nested in the PSO loop body are counted (`ipass`), and the number of completed
    /// passes of the PSO loop is counted by the harness itself (`pass_no`) instead of trusting `Iterations`.
    nest: bool,
    pso_depth: usize,
    depth: usize,
    pass_no: u32,
    events: usize,
}
/// A loop that never ends is an outcome (`panic`), not a hang.
const MAX_LOOP_EVENTS: usize = 60_000;
/// `(tag iterations evaluations Progress<Iterations> Progress<Evaluations>)`; a missing state is `x`.
fn loop_obs<Q: HProblem>(tag: &str, state: &State<Q>) -> String {
    let it = state.try_borrow::<Iterations>().map(|i| i.0.to_string()).unwrap_or("x".into());
    let ev = state.try_borrow::<Evaluations>().map(|i| i.0.to_string()).unwrap_or("x".into());
    let pi = state.try_borrow::<Progress<ValueOf<Iterations>>>().map(|p| fx(p.0)).unwrap_or("x".into());
    let pe = state.try_borrow::<Progress<ValueOf<Evaluations>>>().map(|p| fx(p.0)).unwrap_or("x".into());
    list([tag.to_string(), it, ev, pi, pe])
}
impl Visitor for PsoVisitor {
    fn step<Q: HProblem>(&mut self, phase: Phase, name: &'static str, _index: usize, state: &State<Q>, problem: &Q) {
        if !self.swapped {
            // before the first draw of the run: a scripted (SplitMix-backed) generator
            let (id, s) = register(vec![], self.fb);
            *state.random_mut() = Random::with_rng::<ScriptRng>(id);
            self.script = Some(s);
            self.id = id;
            self.swapped = true;
        }
        // the templates are only instantiated with vector problems here
        let as_vec = |i: &Individual<Q>| -> Vec<f64> { Sx::parse(&Q::enc(i.solution())).map(|s| floats(&s)).unwrap_or_default() };
        let p_s = |i: &Individual<Q>| list([vec_s(&as_vec(i)), if i.is_evaluated() { fx(i.objective().value()) } else { "u".into() }]);
        let pops = state.populations();
        let vs = state.try_borrow::<ParticleVelocities<Global>>().ok();
        let pb = state.try_borrow::<BestParticles<Q, Global>>().ok();
        let gb = state.try_borrow::<BestParticle<Q, Global>>().ok();
        let lens = |tag: &str| list(["len".into(), tag.into(), pops.get_current().map(|c| c.len()).unwrap_or(0).to_string(),
            vs.as_ref().map(|v| v.len().to_string()).unwrap_or("x".into()), pb.as_ref().map(|v| v.len().to_string()).unwrap_or("x".into())]);
        if name == "mahf::verif::LoopPass" {
            if self.nest {
                self.events += 1;
                if self.events > MAX_LOOP_EVENTS { panic!("runaway loop"); }
                let d = if phase == Phase::Before { self.depth += 1; self.depth } else { let d = self.depth; self.depth = d.saturating_sub(1); d };
                if d < self.pso_depth {
                    // a pass of an enclosing loop: a new PSO starts inside it
                    if phase == Phase::Before { self.steps.push("(seg)".into()); self.pass_no = 0; }
                    return;
                }
                if d > self.pso_depth {
                    if phase == Phase::Before {
                        let it = state.try_borrow::<Iterations>().map(|i| i.0.to_string()).unwrap_or("x".into());
                        self.steps.push(list(["ipass".into(), (d - self.pso_depth).to_string(), it]));
                    }
                    return;
                }
            }
            if self.ext && phase == Phase::Before { self.steps.push(loop_obs("passx", state)); }
            // "the global best equals the best personal best" — at the pass boundaries, so that the order of the
            // two best updates inside `ParticleSwarmUpdate` / `ParticleSwarmInit` does not matter
            if let (Some(pb), Some(gb)) = (pb.as_ref(), gb.as_ref()) {
                let pbo: Vec<f64> = pb.iter().map(|i| i.objective().value()).collect();
                let (g, member) = match &***gb {
                    Some(g) => (fx(g.objective().value()), pb.iter().any(|i| i == g)),
                    None => ("none".into(), false),
                };
                self.steps.push(list(["inv".into(), g, vec_s(&pbo), b(member)]));
            }
            self.steps.push(lens(if phase == Phase::Before { "pass" } else { "pass-end" }));
            if self.nest && phase == Phase::After { self.pass_no += 1; }
            return;
        }
        // the refinement components of `runn` are not swarm components
        if self.nest && self.depth > self.pso_depth { return; }
        let own_it = if self.nest { self.pass_no } else { state.try_borrow::<Iterations>().map(|i| i.0).unwrap_or(u32::MAX) };
        let short = if name.contains("mapping::common::Linear") { "inertia" }
            else if name.contains("ParticleVelocitiesUpdate") { "vel" }
            else if name.contains("ParticleVelocitiesInit") { "velinit" }
            else if name.contains("PersonalBestParticlesInit") { "pbinit" }
            else if name.contains("PersonalBestParticlesUpdate") { "pb" }
            else if name.contains("GlobalBestParticleUpdate") { "gb" }
            else { return };
        match (short, phase) {
            ("vel", Phase::Before) => {
                let (Some(vs), Some(pb), Some(gb)) = (vs.as_ref(), pb.as_ref(), gb.as_ref()) else { return };
                let w = state.get_value::<InertiaWeight<Pvu>>();
                let used = self.script.as_ref().unwrap().used();
                let pre = format!("(w {}) (w0 {}) (c1 {}) (c2 {}) (vmax {}) (fb 0) WORDS {} {} {} {}", fx(w), fx(self.w0), fx(self.c1), fx(self.c2), fx(self.vmax),
                    tagged("xs", pops.current().iter().map(&p_s)), tagged("vs", vs.iter().map(|v| vec_s(v))),
                    tagged("pbest", pb.iter().map(&p_s)), match &***gb { Some(g) => tagged("gbest", [p_s(g)]), None => "(gbest none)".into() });
                self.vel_before = Some((pre, used));
                if self.ext { self.steps.push(list(["wuse".into(), own_it.to_string(), fx(w)])); }
            }
            ("vel", Phase::After) => {
                if let (Some((pre, used0)), Some(vs)) = (self.vel_before.take(), vs.as_ref()) {
                    let used1 = self.script.as_ref().unwrap().used();
                    while self.shadow_pos < used0 { self.shadow.next(); self.shadow_pos += 1; }
                    let mut words = vec![];
                    while self.shadow_pos < used1 { words.push(self.shadow.next()); self.shadow_pos += 1; }
                    let input = format!("(vel {})", pre.replace("WORDS", &tagged("words", words.iter().map(|w| w.to_string()))));
                    let d = words.iter().map(|w| fx(unit_of_word(*w)));
                    let output = list(["ok".to_string(), tagged("d", d), tagged("xs", pops.current().iter().map(&p_s)), tagged("vs", vs.iter().map(|v| vec_s(v)))]);
                    self.vel_cases.push((input, output));
                }
                self.steps.push(lens("vel"));
            }
            ("inertia", Phase::After) => {
                let prog = state.try_borrow::<Progress<ValueOf<Iterations>>>().map(|p| p.0).unwrap_or(f64::NAN);
                self.steps.push(list(["inertia".into(), own_it.to_string(), self.n_iter.to_string(), fx(prog), fx(state.get_value::<InertiaWeight<Pvu>>())]));
            }
            ("velinit", Phase::After) => self.steps.push(lens("velinit")),
            ("pbinit", Phase::After) => {
                self.hist = pops.current().iter().map(|i| problem.raw_f(i.solution())).collect();
                self.steps.push(lens("pbinit"));
                if let Some(pb) = pb.as_ref() {
                    let objs = |v: &[Individual<Q>]| list(v.iter().map(|i| if i.is_evaluated() { fx(i.objective().value()) } else { "u".into() }));
                    self.steps.push(list(["pb0".into(), objs(pops.current()), objs(pb), vec_s(&self.hist)]));
                }
            }
            ("pb", Phase::Before) => {
                self.pb_before = pb.as_ref().map(|pb| pb.iter().map(|i| i.objective().value()).collect());
                // the harness's own history: best raw objective among the positions this particle was evaluated at
                for (k, i) in pops.current().iter().enumerate() {
                    let f = problem.raw_f(i.solution());
                    if k < self.hist.len() { if f < self.hist[k] { self.hist[k] = f; } } else { self.hist.push(f); }
                }
            }
            ("pb", Phase::After) => {
                if let (Some(old), Some(pb)) = (self.pb_before.take(), pb.as_ref()) {
                    let cand: Vec<f64> = pops.current().iter().map(|i| i.objective().value()).collect();
                    let new: Vec<f64> = pb.iter().map(|i| i.objective().value()).collect();
                    let raw: Vec<f64> = pb.iter().map(|i| problem.raw_f(i.solution())).collect();
                    self.steps.push(list(["pb".into(), vec_s(&old), vec_s(&cand), vec_s(&new), vec_s(&self.hist), vec_s(&raw)]));
                }
                self.steps.push(lens("pb"));
            }
            ("gb", Phase::After) => self.steps.push(lens("gb")),
            _ => {}
        }
    }
    fn done<Q: HProblem>(&mut self, _outcome: &Outcome, _state: Option<&State<Q>>, _problem: &Q) {
        if self.swapped { unregister(self.id); }
    }
}

const NP: [u64; 3] = [4, 1, 7];
const START_W: [f64; 3] = [0.9, 0.5, 0.0];
const END_W: [f64; 3] = [0.4, 0.5, 1.0];
const C1: [f64; 3] = [1.7, 0.0, 2.0];
const C2: [f64; 3] = [1.7, 2.0, 0.0];
const VMAX: [f64; 3] = [1.0, 0.001, 10.0];

/// `(run (v k) (i k) (iters n) (seed s) (start x) (end x) (c1 x) (c2 x) (vmax x) (np n))` → run case + its velocity-update cases
fn run_run(args: &[Sx]) -> (String, Vec<(String, String)>) {
    let v = field(args, "v")[0].nat().unwrap() as u32;
    let i = field(args, "i")[0].nat().unwrap() as u32;
    let iters = field(args, "iters")[0].nat().unwrap() as u32;
    let seed = field(args, "seed")[0].nat().unwrap();
    let vis = PsoVisitor {
        steps: vec![], vel_cases: vec![], swapped: false, fb: seed, script: None, id: 0, shadow: Sm::new(seed), shadow_pos: 0,
        c1: f1(args, "c1"), c2: f1(args, "c2"), vmax: f1(args, "vmax"), w0: f1(args, "start"), n_iter: iters,
        vel_before: None, pb_before: None, hist: vec![], ext: false, nest: false, pso_depth: 1, depth: 0, pass_no: 0, events: 0,
    };
    match run_template("real_pso", v, i, iters, seed, EvalKind::Sequential, vis) {
        Ok((vis, outcome)) => (list([outcome.tag().to_string(), tagged("steps", vis.steps)]), vis.vel_cases),
        Err(_) => ("(ctor-err (steps))".into(), vec![]),
    }
}

/// The real condition for `(lti n) | (lte k) | (not C) | (and C C) | (or C C) | (andn C*) | (orn C*)`.
fn build_cond(sx: &Sx) -> Box<dyn mahf::Condition<Sphere>> {
    use mahf::conditions::{And, LessThanN, Or};
    let (h, a) = sx.head().expect("condition");
    match h {
        "lti" => LessThanN::iterations(a[0].nat().unwrap() as u32),
        "lte" => LessThanN::evaluations(a[0].nat().unwrap() as u32),
        "not" => !build_cond(&a[0]),
        "and" => build_cond(&a[0]) & build_cond(&a[1]),
        "or" => build_cond(&a[0]) | build_cond(&a[1]),
        "andn" => And::new(a.iter().map(build_cond)),
        "orn" => Or::new(a.iter().map(build_cond)),
        _ => panic!("unknown condition {h}"),
    }
}
/// The bound of the `LessThanN::iterations` that is evaluated last (the generated formulas use one bound only).
fn first_lti(sx: &Sx) -> Option<u32> {
    let (h, a) = sx.head()?;
    if h == "lti" { return a[0].nat().map(|n| n as u32); }
    a.iter().rev().find_map(first_lti)
}

/// `(runc (np n) (dim d) (iters n) (seed s) (start x) (end x) (c1 x) (c2 x) (vmax x))`: `real_pso` built directly
/// with parameters the shared template table does not contain (inertia weights above 1, increasing
/// schedules, zero acceleration coefficients), run the same way `run_template` does.
///
/// `(runx (np n) (dim d) (seed s) (start x) (end x) (c1 x) (c2 x) (vmax x) (inertia 0|1) (pre k) (clear 0|1) (cond C))`:
/// the same layout as `real_pso`, built from the public `pso::pso` template, with
/// * an arbitrary termination condition `C` (composites of iteration and evaluation bounds),
/// * optionally no inertia-weight update (`inertia 0`),
/// * optionally a sampling phase before the swarm exists (`pre k` > 0: `RandomSpread(k)`, evaluate,
///   `update_best_individual`, then `ClearPopulation` when `clear 1`), so that `common::BestIndividual`
///   holds a solution no particle was ever evaluated at.
fn run_custom(args: &[Sx], ext: bool) -> (String, Vec<(String, String)>) {
    run_custom_n(args, ext, false)
}

/// The real component for `(sat) | (nop) | (eval) | (scope K*) | (loop C K*) | (if C K*)`.
fn build_comp(sx: &Sx) -> Box<dyn Component<Sphere>> {
    use mahf::components::{boundary, evaluation::PopulationEvaluator, Branch, Loop, Scope};
    let (h, a) = sx.head().expect("component");
    match h {
        // `Saturation` borrows the solutions mutably, i.e. resets the evaluation: only before the evaluation
        "sat" => boundary::Saturation::new(),
        "nop" => mahf::components::utils::Noop::new(),
        "eval" => PopulationEvaluator::new(),
        "scope" => Scope::new(a.iter().map(build_comp).collect()),
        "loop" => Loop::new(build_cond(&a[0]), a[1..].iter().map(build_comp).collect::<Vec<_>>()),
        "if" => Branch::new(build_cond(&a[0]), a[1..].iter().map(build_comp).collect::<Vec<_>>()),
        _ => panic!("unknown component {h}"),
    }
}

/// `(runn (np n) (dim d) (seed s) (start x) (end x) (c1 x) (c2 x) (vmax x) (inertia 0|1) (wrap m) (cond C)
///        (pre K*) (con K*) (ine K*) (upd K*))`:
/// the layout of `real_pso`, built from the public `pso::pso` template, whose loop body contains FURTHER
/// components — scoped refinement loops / branches bounded by conditions of the same kind as the PSO loop's
/// (memetic PSO; `heuristics::ils` nests its local search the same way) — in four places: before the velocity
/// update (`particle_update` a block), after the boundary repair (`constraints` a block), directly before the
/// inertia-weight update (`inertia_weight_update` a block), after the swarm update (`state_update` a block).
/// With `wrap m` > 0 the whole heuristic (sampling, evaluation, PSO) runs inside the `Scope` of an enclosing
/// `while iterations < m` loop (restarts): the PSO loop is then itself a nested loop.
fn run_custom_n(args: &[Sx], ext: bool, nest: bool) -> (String, Vec<(String, String)>) {
    use mahf::components::{boundary, initialization, utils::populations::ClearPopulation};
    use mahf::conditions::LessThanN;
    use mahf::heuristics::pso;
    use mahf::problems::Sequential;
    use mahf::verif::StepObserver;
    use mahf::Configuration;
    use std::sync::{Arc, Mutex};
    let np = field(args, "np")[0].nat().unwrap() as u32;
    let dim = field(args, "dim")[0].nat().unwrap() as usize;
    let seed = field(args, "seed")[0].nat().unwrap();
    let problem = Sphere::new(dim, -3.0, 4.0, 0.5);
    let (start, end, c1, c2, vmax) = (f1(args, "start"), f1(args, "end"), f1(args, "c1"), f1(args, "c2"), f1(args, "vmax"));
    let iters;
    let wrap = if nest { field(args, "wrap")[0].nat().unwrap() as u32 } else { 0 };
    let built: mahf::ExecResult<Configuration<Sphere>> = if nest {
        use mahf::components::Block;
        let cond = &field(args, "cond")[0];
        iters = first_lti(cond).unwrap_or(0);
        let inertia = field(args, "inertia")[0].nat().unwrap() == 1;
        let slot = |name: &str| -> Vec<Box<dyn Component<Sphere>>> { field(args, name).iter().map(build_comp).collect() };
        (|| {
            let mut particle_update = slot("pre");
            particle_update.push(Pvu::new(start, c1, c2, vmax)?);
            let mut constraints = vec![boundary::Saturation::new()];
            constraints.extend(slot("con"));
            let inertia_weight_update = if inertia {
                let mut v = slot("ine");
                v.push(Linear::new(start, end, ValueOf::<Progress<ValueOf<Iterations>>>::new(), ValueOf::<InertiaWeight<Pvu>>::new()));
                Some(Block::new(v))
            } else { None };
            let mut state_update = vec![ParticleSwarmUpdate::new()];
            state_update.extend(slot("upd"));
            let heuristic = |b: mahf::configuration::ConfigurationBuilder<Sphere>| -> mahf::ExecResult<mahf::configuration::ConfigurationBuilder<Sphere>> {
                Ok(b.do_(initialization::RandomSpread::new(np))
                    .evaluate()
                    .update_best_individual()
                    .do_(pso::pso::<Sphere, Global>(pso::Parameters {
                        particle_init: ParticleSwarmInit::new(vmax)?,
                        particle_update: Block::new(particle_update),
                        constraints: Block::new(constraints),
                        inertia_weight_update,
                        state_update: Block::new(state_update),
                    }, build_cond(cond))))
            };
            if wrap == 0 { return Ok(heuristic(Configuration::builder())?.build()); }
            let inner = heuristic(Configuration::builder())?.build().into_inner();
            Ok(Configuration::builder().while_(LessThanN::iterations(wrap), |b| b.scope_(|b| b.do_(inner))).build())
        })()
    } else if !ext {
        iters = field(args, "iters")[0].nat().unwrap() as u32;
        pso::real_pso::<Sphere>(pso::RealProblemParameters {
            num_particles: np, start_weight: start, end_weight: end, c_one: c1, c_two: c2, v_max: vmax }, LessThanN::iterations(iters))
    } else {
        let cond = &field(args, "cond")[0];
        iters = first_lti(cond).unwrap_or(0);
        let pre = field(args, "pre")[0].nat().unwrap() as u32;
        let clear = field(args, "clear")[0].nat().unwrap() == 1;
        let inertia = field(args, "inertia")[0].nat().unwrap() == 1;
        (|| {
            let mut b = Configuration::builder();
            if pre > 0 {
                b = b.do_(initialization::RandomSpread::new(pre)).evaluate().update_best_individual();
                if clear { b = b.do_(ClearPopulation::new()); }
            }
            if inertia {
                // the shipped template itself, as the last phase
                return Ok(b.do_(pso::real_pso::<Sphere>(pso::RealProblemParameters {
                    num_particles: np, start_weight: start, end_weight: end, c_one: c1, c_two: c2, v_max: vmax }, build_cond(cond))?.into_inner()).build());
            }
            Ok(b.do_(initialization::RandomSpread::new(np))
                .evaluate()
                .update_best_individual()
                .do_(pso::pso::<Sphere, Global>(pso::Parameters {
                    particle_init: ParticleSwarmInit::new(vmax)?,
                    particle_update: Pvu::new(start, c1, c2, vmax)?,
                    constraints: boundary::Saturation::new(),
                    inertia_weight_update: None,
                    state_update: ParticleSwarmUpdate::new(),
                }, build_cond(cond)))
                .build())
        })()
    };
    let cfg = match built {
        Ok(c) => c,
        Err(_) => return ("(ctor-err (steps))".into(), vec![]),
    };
    let vis = Arc::new(Mutex::new(PsoVisitor {
        steps: vec![], vel_cases: vec![], swapped: false, fb: seed, script: None, id: 0, shadow: Sm::new(seed), shadow_pos: 0,
        c1, c2, vmax, w0: start, n_iter: iters,
        vel_before: None, pb_before: None, hist: vec![], ext, nest, pso_depth: if wrap > 0 { 2 } else { 1 }, depth: 0, pass_no: 0, events: 0,
    }));
    let (v2, p2) = (vis.clone(), problem.clone());
    let r = catch(|| cfg.optimize_with(&problem, |state: &mut State<Sphere>| {
        state.insert(Random::new(seed));
        state.insert_evaluator(Sequential::<Sphere>::new());
        state.insert(StepObserver::<Sphere>(Box::new(move |ph, name, idx, st| {
            v2.lock().unwrap().step(ph, name, idx, st, &p2);
        })));
        Ok(())
    }));
    let tag = match &r { None => "panic", Some(Err(_)) => "err", Some(Ok(_)) => "ok" };
    let exit = match &r { Some(Ok(state)) if ext && wrap == 0 => Some(loop_obs("exitx", state)), _ => None };
    drop(r);
    let mut g = vis.lock().unwrap_or_else(|e| e.into_inner());
    if g.swapped { unregister(g.id); }
    let mut steps = std::mem::take(&mut g.steps);
    steps.extend(exit);
    (list([tag.to_string(), tagged("steps", steps)]), std::mem::take(&mut g.vel_cases))
}

fn run_case(input: &Sx) -> String {
    let (kind, args) = input.head().unwrap();
    match kind {
        "vel" => run_vel(args),
        "velinit" => run_velinit(args),
        "pbest" => run_pbest(args),
        "gbest" => run_gbest(args),
        "swarm" => run_swarm(args),
        "swarminit" => run_swarminit(args),
        "linear" => run_linear(args),
        "run" => run_run(args).0,
        "runc" => run_custom(args, false).0,
        "runx" => run_custom(args, true).0,
        "runn" => run_custom_n(args, true, true).0,
        _ => panic!("unknown case kind {kind}"),
    }
}

// ---------------------------------------------------------------- generators
struct Gen {
    rng: Sm,
}
impl Gen {
    fn coord(&mut self) -> f64 {
        match self.rng.below(6) {
            0 => 0.0,
            1 => (self.rng.unit() - 0.5) * 2e3,
            _ => (self.rng.unit() - 0.5) * 10.0,
        }
    }
    fn pos(&mut self, dim: usize) -> Vec<f64> {
        (0..dim).map(|_| self.coord()).collect()
    }
    fn obj_of(pos: &[f64]) -> f64 {
        pos.iter().map(|x| x * x).sum()
    }
    fn part(&mut self, dim: usize, evaluated: bool) -> String {
        let p = self.pos(dim);
        list([vec_s(&p), if evaluated { fx(Self::obj_of(&p)) } else { "u".into() }])
    }
    fn part_obj(&mut self, dim: usize, obj: f64) -> String {
        let p = self.pos(dim);
        list([vec_s(&p), fx(obj)])
    }
    fn words(&mut self, n: usize) -> Vec<u64> {
        (0..n).map(|_| match self.rng.below(8) {
            0 => 0,
            1 => u64::MAX,
            2 => 1u64 << 63,
            _ => self.rng.next(),
        }).collect()
    }
    fn coef(&mut self) -> f64 {
        *self.rng.pick(&[0.0, 0.5, 1.0, 1.7, 2.0, 4.0])
    }
    fn vmax(&mut self) -> f64 {
        *self.rng.pick(&[1e-3, 1e-2, 0.1, 1.0, 3.0, 10.0])
    }
}

/// A random termination formula without `not` in negative position (so it eventually turns false), with
/// iteration bound `n` in at least one — arbitrary — place.
fn rand_formula(g: &mut Gen, n: u64, depth: u32) -> String {
    fn pos(g: &mut Gen, n: u64, depth: u32) -> String {
        if depth == 0 || g.rng.chance(1, 4) {
            return if g.rng.chance(1, 2) { format!("(lti {n})") } else { format!("(lte {})", g.rng.range(5, 120)) };
        }
        match g.rng.below(6) {
            0 => format!("(and {} {})", pos(g, n, depth - 1), pos(g, n, depth - 1)),
            1 => format!("(or {} {})", pos(g, n, depth - 1), pos(g, n, depth - 1)),
            2 => format!("(andn {} {} {})", pos(g, n, depth - 1), pos(g, n, depth - 1), pos(g, n, depth - 1)),
            3 => format!("(orn {} {} {})", pos(g, n, depth - 1), pos(g, n, depth - 1), pos(g, n, depth - 1)),
            4 => format!("(not (not {}))", pos(g, n, depth - 1)),
            _ => format!("(orn {})", pos(g, n, depth - 1)),
        }
    }
    let f = pos(g, n, depth);
    if f.contains("(lti") { return f; }
    match g.rng.below(4) {
        0 => format!("(or {f} (lti {n}))"),
        1 => format!("(or (lti {n}) {f})"),
        2 => format!("(and {f} (lti {n}))"),
        _ => format!("(and (lti {n}) {f})"),
    }
}

/// A component that may stand inside a `Scope` in the body of the PSO loop (`n` = the PSO loop's iteration bound).
/// Every loop ends: an iteration bound alone or in a conjunction ends it because the loop's own `Iterations` grow; a
/// loop whose condition can stay true on the evaluation budget alone evaluates the population in its body first
/// (the evaluator's `Evaluations`, shadowed in the scope, grow by the population size).
fn rand_inner(g: &mut Gen, n: u64, depth: u32) -> String {
    match g.rng.below(if depth == 0 { 2 } else { 7 }) {
        0 => "(sat)".into(),
        1 => "(eval)".into(),
        2 | 3 => {
            let k = g.rng.range(0, 4);
            let e = g.rng.range(1, 10);
            let (c, need_eval) = match g.rng.below(7) {
                0 | 1 => (format!("(lti {k})"), false),
                // the same bound as the PSO loop's
                2 => (format!("(lti {})", n.min(4)), false),
                3 => (format!("(and (lti {k}) (lte {e}))"), false),
                4 => (format!("(and (lte {e}) (not (not (lti {k}))))"), false),
                5 => (format!("(lte {e})"), true),
                _ => (format!("(or (lti {k}) (lte {e}))"), true),
            };
            let mut body: Vec<String> = vec![];
            if need_eval { body.push("(eval)".into()); }
            for _ in 0..g.rng.range(if need_eval { 0 } else { 1 }, 2) { body.push(rand_inner(g, n, depth - 1)); }
            format!("(loop {c} {})", body.join(" "))
        }
        4 | 5 => {
            // bounds relative to the PSO loop's, so that the branch flips during the run
            let c = match g.rng.below(4) {
                0 => format!("(lti {})", n / 2),
                1 => format!("(lti {})", n + 3),
                2 => format!("(lte {})", g.rng.range(5, 60)),
                _ => format!("(or (lti {}) (lte {}))", n / 3, g.rng.range(5, 30)),
            };
            format!("(if {c} {})", rand_inner(g, n, depth - 1))
        }
        _ => rand_scope(g, n, depth - 1),
    }
}
fn rand_scope(g: &mut Gen, n: u64, depth: u32) -> String {
    let k = g.rng.range(1, 2);
    format!("(scope {})", (0..k).map(|_| rand_inner(g, n, depth)).collect::<Vec<_>>().join(" "))
}

fn vel_case(g: &mut Gen, malformed: u64, special: u64) -> String {
    let n = g.rng.range(1, 10) as usize;
    let dim = g.rng.range(1, 5) as usize;
    let vmax = g.vmax();
    let (mut nv, mut npb, mut gb_none) = (n, n, false);
    let (mut dv, mut dg) = (dim, dim);
    match malformed {
        1 => nv = n + 1,
        2 => nv = n - 1,
        3 => npb = n + 1,
        4 => npb = n.saturating_sub(1),
        5 => gb_none = true,
        6 => dv = dim + 1,     // velocity longer than the position: index out of bounds
        7 => dg = dim - 1,     // global best shorter
        8 => dv = dim - 1,     // velocity shorter: surplus coordinates untouched
        _ => {}
    }
    // special 2: every particle sits on its personal best and on the global best, so both attraction
    // terms vanish and the result is independent of the draws: v' = clamp(w_stored * v)
    let shared = g.pos(dim);
    let at_best = |g: &mut Gen| list([vec_s(&shared), fx(Gen::obj_of(&shared))]);
    let xs: Vec<String> = (0..n).map(|_| if special == 2 { at_best(g) } else { let e = g.rng.chance(4, 5); g.part(dim, e) }).collect();
    let vs: Vec<String> = (0..nv).map(|_| vec_s(&(0..dv).map(|_| (g.rng.unit() * 2.0 - 1.0) * vmax * if g.rng.chance(1, 6) { 3.0 } else { 1.0 }).collect::<Vec<_>>())).collect();
    let pb: Vec<String> = (0..npb).map(|_| if special == 2 { at_best(g) } else { g.part(dim, true) }).collect();
    let gb = if gb_none { "none".to_string() } else if special == 2 { at_best(g) } else { g.part(dg, true) };
    let (ca, cb) = if special == 1 { (0.0, 0.0) } else { (g.coef(), g.coef()) };
    let nw = 2 * n * dim;
    let scripted = if g.rng.chance(1, 2) { nw } else { g.rng.below(nw as u64 + 1) as usize };
    format!("(vel (w {}) (w0 {}) (c1 {}) (c2 {}) (vmax {}) (fb {}) {} {} {} {} (gbest {}))",
        fx(*g.rng.pick(&[0.0, 0.4, 0.729, 0.9, 1.0, 1.2, 1.4, 1.5])), fx(*g.rng.pick(&[0.0, 0.7, 5.0])), fx(ca), fx(cb), fx(vmax), g.rng.below(1000),
        tagged("words", g.words(scripted).iter().map(|w| w.to_string())), tagged("xs", xs), tagged("vs", vs), tagged("pbest", pb), gb)
}

fn main() {
    if std::env::var("C18_LOUD").is_err() { quiet_panics(); }
    let a = args();
    let mut out = Out::new();
    if let Some(r) = a.replay {
        let sx = Sx::parse(&r).expect("bad replay input");
        out.case("replay", &r, &run_case(&sx));
        out.finish();
        return;
    }
    let mut g = Gen { rng: Sm::new(a.seed ^ 0xC18) };
    let mut emit = |site: &str, input: String| {
        let sx = Sx::parse(&input).unwrap();
        out.case(site, &input, &run_case(&sx));
    };
    // the same case under identifier `A` next to decoy `Global` swarm state
    let with_id = |input: &str| format!("{} (id a))", &input[..input.len() - 1]);
    let reps = if a.thorough { 3000 } else { 400 };
    for k in 0..reps {
        let c = vel_case(&mut g, 0, if k % 4 == 1 { 1 } else if k % 4 == 3 { 2 } else { 0 });
        if k % 5 == 2 { emit("vel-id", with_id(&c)); }
        emit("vel", c);
    }
    for k in 0..(if a.thorough { 400 } else { 80 }) { emit("vel-malformed", vel_case(&mut g, 1 + k % 8, 0)); }
    for _ in 0..(if a.thorough { 1000 } else { 150 }) {
        let n = g.rng.range(0, 10) as usize;
        let dim = g.rng.range(1, 5) as usize;
        let xs: Vec<String> = (0..n).map(|_| g.part(dim, true)).collect();
        let vmax = if g.rng.chance(1, 20) { *g.rng.pick(&[0.0, -1.0]) } else { g.vmax() };
        let nw = g.rng.below(8) as usize;
        let c = format!("(velinit (vmax {}) (dim {}) (fb {}) {} {})", fx(vmax), dim, g.rng.below(1000),
            tagged("words", g.words(nw).iter().map(|w| w.to_string())), tagged("xs", xs));
        if g.rng.chance(1, 5) { emit("velinit-id", with_id(&c)); }
        emit("velinit", c);
    }
    // personal bests: objective values from a small set so that ties and strict improvements both occur
    // ... and improvements as small as one ulp / far below machine epsilon in absolute value
    let objs = [0.0, 0.5, 1.0, 1.0, 2.0, 3.5, -1.0, 1e-9, 1e9, 1.0 + f64::EPSILON, 1e-17, 3e-17, 5e-324, f64::INFINITY, f64::INFINITY];
    for k in 0..(if a.thorough { 2000 } else { 300 }) {
        let n = g.rng.range(0, 10) as usize;
        let dim = g.rng.range(1, 5) as usize;
        let npb = if k % 10 == 0 { g.rng.range(0, 10) as usize } else { n };
        let uneval = k % 13 == 5;
        let xs: Vec<String> = (0..n).map(|_| if uneval && g.rng.chance(1, 3) { g.part(dim, false) } else { let o = *g.rng.pick(&objs); g.part_obj(dim, o) }).collect();
        let pb: Vec<String> = (0..npb).map(|_| { let o = *g.rng.pick(&objs); g.part_obj(dim, o) }).collect();
        let op = if k % 7 == 0 { "init" } else { "update" };
        let c = format!("(pbest (op {}) {} {})", op, tagged("xs", xs), tagged("pbest", pb));
        if k % 5 == 1 { emit(&format!("pbest-{op}-id"), with_id(&c)); }
        emit(&format!("pbest-{op}"), c);
    }
    for k in 0..(if a.thorough { 2000 } else { 300 }) {
        let n = g.rng.range(0, 10) as usize;
        let dim = g.rng.range(1, 5) as usize;
        let uneval = k % 13 == 5;
        let xs: Vec<String> = (0..n).map(|_| if uneval && g.rng.chance(1, 3) { g.part(dim, false) } else { let o = *g.rng.pick(&objs); g.part_obj(dim, o) }).collect();
        let gb = if k % 5 == 0 { "none".to_string() } else { let o = *g.rng.pick(&objs); g.part_obj(dim, o) };
        // the heuristic-wide `BestIndividual`: absent / empty / better than everything / anything
        let bi = match k % 4 {
            0 => String::new(),
            1 => " (bestind none)".to_string(),
            2 => format!(" (bestind {})", g.part_obj(dim, -7.0)),
            _ => { let o = *g.rng.pick(&objs); format!(" (bestind {})", g.part_obj(dim, o)) }
        };
        let c = format!("(gbest {} (gbest {}){})", tagged("xs", xs), gb, bi);
        if k % 5 == 3 { emit("gbest-id", with_id(&c)); }
        emit(if bi.is_empty() { "gbest" } else { "gbest-hybrid" }, c);
    }
    // swarm invariant: personal bests with their minimum as global best, then the update block
    for k in 0..(if a.thorough { 2000 } else { 300 }) {
        let n = g.rng.range(1, 10) as usize;
        let dim = g.rng.range(1, 5) as usize;
        let pbo: Vec<f64> = (0..n).map(|_| *g.rng.pick(&objs)).collect();
        let pb: Vec<String> = pbo.iter().map(|o| g.part_obj(dim, *o)).collect();
        let mut first_min = 0;
        for (k, o) in pbo.iter().enumerate() { if *o < pbo[first_min] { first_min = k; } }
        let xs: Vec<String> = (0..n).map(|_| { let o = *g.rng.pick(&objs); g.part_obj(dim, o) }).collect();
        let bi = match k % 3 {
            0 => String::new(),
            1 => format!(" (bestind {})", g.part_obj(dim, -7.0)),
            _ => { let o = *g.rng.pick(&objs); format!(" (bestind {})", g.part_obj(dim, o)) }
        };
        emit(if bi.is_empty() { "swarm" } else { "swarm-hybrid" }, format!("(swarm {} {} (gbest {}){})", tagged("xs", xs), tagged("pbest", pb.clone()), pb[first_min], bi));
    }
    // the initialisation block: on a fresh state, and on a state that still holds an earlier swarm's global best
    for k in 0..(if a.thorough { 600 } else { 120 }) {
        let n = g.rng.range(1, 8) as usize;
        let dim = g.rng.range(1, 4) as usize;
        let xo: Vec<f64> = (0..n).map(|_| *g.rng.pick(&objs)).collect();
        let xs: Vec<String> = xo.iter().map(|o| g.part_obj(dim, *o)).collect();
        let min = xo.iter().cloned().fold(f64::INFINITY, f64::min);
        // stale global best: worse than the new swarm's best (it is replaced) or at least as good (it stays)
        let (site, gb) = match k % 3 {
            0 => ("swarminit", String::new()),
            1 => (if min < min + 1.0 { "swarminit" } else { "swarminit-stale" }, format!(" (gbest {})", g.part_obj(dim, min + 1.0))),
            _ => { let o = if g.rng.chance(1, 2) { min } else { min - 1.0 }; ("swarminit-stale", format!(" (gbest {})", g.part_obj(dim, o))) }
        };
        emit(site, format!("(swarminit (vmax {}) (dim {}) (fb {}) (words) {}{})", fx(g.vmax()), dim, g.rng.below(1000), tagged("xs", xs), gb));
    }
    for _ in 0..(if a.thorough { 1000 } else { 200 }) {
        let start = *g.rng.pick(&[0.9, 0.5, 0.0, 1.0, 0.4]);
        let end = *g.rng.pick(&[0.4, 0.5, 1.0, 0.0, 0.9]);
        let progress = match g.rng.below(4) { 0 => 0.0, 1 => 1.0, _ => g.rng.below(101) as f64 / 100.0 };
        emit("linear", format!("(linear (start {}) (end {}) (progress {}) (w {}))", fx(start), fx(end), fx(progress), fx(123.0)));
    }
    drop(emit);
    // template runs
    let seeds = if a.thorough { 8 } else { 2 };
    for v in 0..3usize {
        for i in 0..4u32 {
            for s in 0..seeds {
                // the 1-dimensional instance converges: a long run reaches improvements far below machine epsilon
                let iters = if a.thorough { 120 } else { 25 } * if i == 1 { 6 } else { 1 };
                let input = format!("(run (v {}) (i {}) (iters {}) (seed {}) (start {}) (end {}) (c1 {}) (c2 {}) (vmax {}) (np {}))",
                    v, i, iters, a.seed * 100 + s, fx(START_W[v]), fx(END_W[v]), fx(C1[v]), fx(C2[v]), fx(VMAX[v]), NP[v]);
                let sx = Sx::parse(&input).unwrap();
                let (_, args) = sx.head().unwrap();
                let (output, vel_cases) = run_run(args);
                out.case("run", &input, &output);
                for (vi, vo) in vel_cases {
                    out.case("run-vel", &vi, &vo);
                }
            }
        }
    }
    // runs with parameters outside the shared template table
    let custom: [(u64, u64, f64, f64, f64, f64, f64); 5] = [
        (5, 2, 1.4, 0.4, 0.0, 0.0, 10.0),   // weight above 1, no attraction: v' = clamp(w_stored * v)
        (3, 1, 1.2, 0.4, 1.7, 1.7, 1.0),
        (4, 3, 0.4, 0.9, 2.0, 2.0, 0.1),    // increasing schedule
        (6, 2, 0.729, 0.729, 1.49, 1.49, 2.0),
        (1, 2, 1.5, 0.0, 0.0, 2.0, 0.5),    // a single particle is its own global best
    ];
    for (k, c) in custom.iter().enumerate() {
        for s in 0..(if a.thorough { 4 } else { 1 }) {
            let input = format!("(runc (np {}) (dim {}) (iters {}) (seed {}) (start {}) (end {}) (c1 {}) (c2 {}) (vmax {}))",
                c.0, c.1, if a.thorough { 100 } else { 30 }, a.seed * 100 + 50 + s + 10 * k as u64, fx(c.2), fx(c.3), fx(c.4), fx(c.5), fx(c.6));
            let sx = Sx::parse(&input).unwrap();
            let (_, args) = sx.head().unwrap();
            let (output, vel_cases) = run_custom(args, false);
            out.case("run", &input, &output);
            for (vi, vo) in vel_cases {
                out.case("run-vel", &vi, &vo);
            }
        }
    }
    // composite termination conditions, hybrid prefixes, no inertia-weight update (`pso::pso` built directly)
    let runx: [(&str, u64, u64, u64, u64, u64, usize); 14] = [
        // cond, np, dim, inertia, pre, clear, parameter point
        ("(or (lte 30) (lti 10))", 5, 3, 1, 0, 0, 0),
        ("(or (lti 8) (lte 60))", 4, 2, 1, 0, 0, 2),
        ("(and (lte 200) (lti 12))", 3, 2, 1, 0, 0, 0),
        ("(and (lti 12) (lte 40))", 4, 1, 1, 0, 0, 1),
        ("(not (not (lti 9)))", 3, 2, 1, 0, 0, 0),
        ("(andn (lti 10) (lte 500) (not (lte 3)))", 4, 2, 1, 0, 0, 2),
        ("(orn (lte 20) (lte 25) (lti 6))", 2, 3, 1, 0, 0, 0),
        ("(or (lti 10) (and (lte 30) (lti 10)))", 3, 2, 1, 0, 0, 1),
        ("(lti 15)", 4, 2, 1, 200, 1, 0),
        ("(or (lte 400) (lti 10))", 3, 3, 1, 300, 0, 2),
        ("(lti 12)", 4, 2, 0, 0, 0, 0),
        ("(and (lte 1000) (lti 10))", 5, 2, 0, 100, 1, 1),
        ("(or (lte 12) (lti 20))", 1, 2, 1, 50, 1, 0),
        ("(lti 0)", 3, 2, 1, 0, 0, 0),
    ];
    let mut runx: Vec<(String, u64, u64, u64, u64, u64, usize)> = runx.iter().map(|c| (c.0.to_string(), c.1, c.2, c.3, c.4, c.5, c.6)).collect();
    for k in 0..(if a.thorough { 40 } else { 5 }) {
        let n = g.rng.range(3, 14);
        let f = rand_formula(&mut g, n, 3);
        let pre = if k % 3 == 0 { g.rng.range(20, 150) } else { 0 };
        runx.push((f, g.rng.range(1, 6), g.rng.range(1, 3), if k % 4 == 3 { 0 } else { 1 }, pre, g.rng.below(2), g.rng.below(3) as usize));
    }
    for (k, c) in runx.iter().enumerate() {
        for s in 0..(if a.thorough && k < 14 { 4 } else { 1 }) {
            let v = c.6;
            let input = format!("(runx (np {}) (dim {}) (seed {}) (start {}) (end {}) (c1 {}) (c2 {}) (vmax {}) (inertia {}) (pre {}) (clear {}) (cond {}))",
                c.1, c.2, a.seed * 100 + 70 + s + 10 * k as u64, fx(START_W[v]), fx(END_W[v]), fx(C1[v]), fx(C2[v]), fx(VMAX[v]), c.3, c.4, c.5, c.0);
            let sx = Sx::parse(&input).unwrap();
            let (_, args) = sx.head().unwrap();
            let (output, vel_cases) = run_custom(args, true);
            out.case("runx", &input, &output);
            for (vi, vo) in vel_cases {
                out.case("runx-vel", &vi, &vo);
            }
        }
    }
    // PSO loops whose body contains further scoped loops / conditions (memetic PSO), PSO loops inside an enclosing loop
    let demo = "(scope (loop (lti 3) (sat)))";
    // cond, np, dim, inertia, wrap, pre, con, ine, upd, parameter point
    let mut runn: Vec<(String, u64, u64, u64, u64, String, String, String, String, usize)> = [
        ("(lti 10)", 6, 3, 1, 0, "", demo, "", "", 0),
        ("(lti 8)", 4, 2, 1, 0, demo, "", "", "", 2),
        ("(lti 8)", 4, 2, 1, 0, "", "", "(scope (if (lti 4) (nop)))", "", 0),
        ("(lti 9)", 3, 2, 1, 0, "", "(scope (loop (lte 9) (eval) (nop)))", "", "(scope (loop (lti 3) (nop)))", 1),
        ("(or (lte 40) (lti 7))", 3, 2, 1, 0, "", "(scope (loop (and (lti 2) (lte 1000)) (scope (loop (lti 2) (sat)))))", "", "", 0),
        ("(lti 6)", 3, 2, 1, 3, "", "", "", "", 0),
        ("(lti 6)", 3, 2, 1, 2, "", demo, "", "", 2),
        ("(lti 7)", 4, 2, 0, 0, "", demo, "", "", 0),
        ("(and (lte 500) (lti 6))", 2, 1, 1, 2, "(scope (if (lti 3) (scope (loop (lti 2) (eval)))))", "", "(scope (loop (lti 3) (nop)))", "", 1),
        // UNSCOPED branches in the loop body (site `runn-unscoped`): a condition on an iteration bound writes the
        // `Progress<ValueOf<Iterations>>` of the PSO loop itself (KNOWN FINDING when the bounds differ) ...
        ("(lti 8)", 3, 2, 1, 0, "", "(if (lti 4) (sat))", "", "", 0),
        ("(lti 6)", 4, 2, 1, 0, "(if (lti 9) (nop))", "", "", "", 2),
        ("(or (lte 30) (lti 10))", 2, 1, 1, 0, "", "", "(if (not (lti 5)) (nop))", "", 0),
        // ... one with the loop's own bound or on the evaluation budget does not disturb it, nor does one behind the update
        ("(lti 7)", 3, 2, 1, 0, "", "(if (lti 7) (sat))", "", "", 0),
        ("(lti 7)", 3, 2, 1, 0, "", "(if (lte 20) (sat))", "", "(if (lti 3) (nop))", 1),
    ].iter().map(|c| (c.0.to_string(), c.1, c.2, c.3, c.4, c.5.to_string(), c.6.to_string(), c.7.to_string(), c.8.to_string(), c.9)).collect();
    for k in 0..(if a.thorough { 60 } else { 8 }) {
        let n = g.rng.range(3, 12);
        let cond = if k % 3 == 0 { rand_formula(&mut g, n, 2) } else { format!("(lti {n})") };
        let inertia = if k % 6 == 5 { 0 } else { 1 };
        let wrap = if k % 4 == 3 { g.rng.range(2, 3) } else { 0 };
        let slot = |g: &mut Gen, on: bool| if on { let m = g.rng.range(1, 2); (0..m).map(|_| rand_scope(g, n, 2)).collect::<Vec<_>>().join(" ") } else { String::new() };
        let pick = g.rng.below(8);
        let pre = slot(&mut g, pick == 0 || pick == 4);
        let con = slot(&mut g, pick == 1 || pick == 4 || pick == 5 || pick == 7);
        // behind the evaluation `Saturation` would reset the objective values the best updates read
        let ine = slot(&mut g, inertia == 1 && (pick == 2 || pick == 5 || pick == 6)).replace("(sat)", "(nop)");
        let upd = slot(&mut g, pick == 3 || pick == 6 || pick == 7).replace("(sat)", "(nop)");
        runn.push((cond, g.rng.range(1, 5), g.rng.range(1, 3), inertia, wrap, pre, con, ine, upd, g.rng.below(3) as usize));
    }
    for (k, c) in runn.iter().enumerate() {
        for s in 0..(if a.thorough && k < 14 { 3 } else { 1 }) {
            let v = c.9;
            let input = format!("(runn (np {}) (dim {}) (seed {}) (start {}) (end {}) (c1 {}) (c2 {}) (vmax {}) (inertia {}) (wrap {}) (cond {}) (pre {}) (con {}) (ine {}) (upd {}))",
                c.1, c.2, a.seed * 100 + 90 + s + 10 * k as u64, fx(START_W[v]), fx(END_W[v]), fx(C1[v]), fx(C2[v]), fx(VMAX[v]), c.3, c.4, c.0, c.5, c.6, c.7, c.8);
            let sx = Sx::parse(&input).unwrap();
            let (_, args) = sx.head().unwrap();
            let (output, vel_cases) = run_custom_n(args, true, true);
            let unscoped = ["pre", "con", "ine", "upd"].iter().any(|t| field(args, t).iter().any(|k| !matches!(k.head().map(|h| h.0), Some("scope") | Some("nop") | Some("sat"))));
            out.case(if unscoped { "runn-unscoped" } else { "runn" }, &input, &output);
            for (vi, vo) in vel_cases {
                out.case("runn-vel", &vi, &vo);
            }
        }
    }
    out.finish();
}
