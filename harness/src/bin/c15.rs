//! C15 — experiment records. Runs REAL configurations (built with the `ConfigurationBuilder`) with a
//! `LogConfig` set through `State::configure_log`, exports the log with `Log::to_json` /
//! `Log::to_cbor`, decodes both files and prints them next to the uncompressed log; serialises real
//! configurations (all templates, generated trees) through `Configuration::to_ron` and `serde_json`.
//! Every export goes to a path that may already hold something (an older, longer or shorter export,
//! junk): the WHOLE file written by the real code is decoded. Site `exp*`: sequences of real
//! `par_experiment` calls into one folder (child process: the runner prints to stdout), after each
//! call `configuration.ron` is read back as a tree and every `<problem>_<run>.cbor` is decoded.
use std::collections::{BTreeSet, HashMap, VecDeque};
use std::path::PathBuf;
use std::sync::{Arc, Mutex};

use better_any::{Tid, TidAble};
use hcommon::problems::Sphere;
use hcommon::templates::*;
use hcommon::*;
use mahf::components::{initialization, mutation, replacement, selection, utils::Noop, Block, Branch, Loop, Scope};
use mahf::conditions::{And, EveryN, LessThanN, Not, Or, RandomChance};
use mahf::configuration::ConfigurationBuilder;
use mahf::lens::common::{BestObjectiveValueLens, IdLens, PopulationSizeLens, ValueOf};
use mahf::logging::extractor::EntryExtractor;
use mahf::logging::log::Entry;
use mahf::logging::Logger;
use mahf::state::common::{Evaluations, Iterations, Progress};
use mahf::verif::{Phase, StepObserver};
use mahf::problems::KnownOptimumProblem;
use mahf::{Component, Condition, Configuration, CustomState, ExecResult, Problem, Random, SingleObjective, State};
use serde::Serialize;

// ------------------------------------------------------------------------------------------------
// canonical values

fn atomise(s: &str) -> String {
    let t: String = s.chars().map(|c| if c.is_whitespace() || c == '(' || c == ')' { '_' } else { c }).collect();
    if t.is_empty() { "\"\"".into() } else { t }
}

/// A decoded value in canonical S-expression form: `null`, `true`/`false`, integer digits, `x<bits>`,
/// `s:<text>`, `(a v…)`, `(m (k v)…)` (keys sorted).
fn canon_json(v: &serde_json::Value) -> String {
    use serde_json::Value as J;
    match v {
        J::Null => "null".into(),
        J::Bool(b) => b.to_string(),
        J::Number(n) => {
            if let Some(u) = n.as_u64() { u.to_string() }
            else if let Some(i) = n.as_i64() { i.to_string() }
            else { fx(n.as_f64().unwrap()) }
        }
        J::String(s) => format!("s:{}", atomise(s)),
        J::Array(a) => tagged("a", a.iter().map(canon_json)),
        J::Object(o) => {
            let mut kv: Vec<(String, String)> = o.iter().map(|(k, v)| (atomise(k), canon_json(v))).collect();
            kv.sort();
            tagged("m", kv.into_iter().map(|(k, v)| list([k, v])))
        }
    }
}

fn canon_cbor(v: &ciborium::Value) -> String {
    use ciborium::Value as C;
    match v {
        C::Null => "null".into(),
        C::Bool(b) => b.to_string(),
        C::Integer(i) => i128::from(*i).to_string(),
        C::Float(f) => fx(*f),
        C::Text(s) => format!("s:{}", atomise(s)),
        C::Array(a) => tagged("a", a.iter().map(canon_cbor)),
        C::Map(m) => {
            let mut kv: Vec<(String, String)> = m.iter().map(|(k, v)| (canon_cbor(k), canon_cbor(v))).collect();
            kv.sort();
            tagged("m", kv.into_iter().map(|(k, v)| list([k, v])))
        }
        _ => "other".into(),
    }
}

/// Exact JSON reader (numbers are converted with Rust's correctly rounded `str::parse::<f64>`;
/// serde_json's default float parsing is only best-effort). Objects keep their textual order.
#[derive(Debug, Clone)]
enum Jv { Null, Bool(bool), Int(String), Float(f64), Str(String), Arr(Vec<Jv>), Obj(Vec<(String, Jv)>) }
struct Jp<'a> { s: &'a [u8], i: usize }
impl<'a> Jp<'a> {
    fn ws(&mut self) { while self.i < self.s.len() && (self.s[self.i] as char).is_ascii_whitespace() { self.i += 1; } }
    fn eat(&mut self, c: u8) -> Option<()> { self.ws(); if self.s.get(self.i) == Some(&c) { self.i += 1; Some(()) } else { None } }
    fn string(&mut self) -> Option<String> {
        self.eat(b'"')?;
        let mut out = Vec::new();
        loop {
            let c = *self.s.get(self.i)?;
            self.i += 1;
            match c {
                b'"' => break,
                b'\\' => {
                    let e = *self.s.get(self.i)?;
                    self.i += 1;
                    match e {
                        b'n' => out.push(b'\n'), b't' => out.push(b'\t'), b'r' => out.push(b'\r'),
                        b'b' => out.push(8), b'f' => out.push(12),
                        b'u' => {
                            let h = std::str::from_utf8(self.s.get(self.i..self.i + 4)?).ok()?;
                            let cp = u32::from_str_radix(h, 16).ok()?;
                            self.i += 4;
                            let ch = char::from_u32(cp).unwrap_or('?');
                            let mut buf = [0u8; 4];
                            out.extend_from_slice(ch.encode_utf8(&mut buf).as_bytes());
                        }
                        other => out.push(other),
                    }
                }
                c => out.push(c),
            }
        }
        String::from_utf8(out).ok()
    }
    fn value(&mut self) -> Option<Jv> {
        self.ws();
        match *self.s.get(self.i)? {
            b'n' => { self.i += 4; Some(Jv::Null) }
            b't' => { self.i += 4; Some(Jv::Bool(true)) }
            b'f' => { self.i += 5; Some(Jv::Bool(false)) }
            b'"' => self.string().map(Jv::Str),
            b'[' => {
                self.i += 1;
                let mut v = vec![];
                self.ws();
                if self.s.get(self.i) == Some(&b']') { self.i += 1; return Some(Jv::Arr(v)); }
                loop {
                    v.push(self.value()?);
                    self.ws();
                    match *self.s.get(self.i)? { b',' => self.i += 1, b']' => { self.i += 1; break; } _ => return None }
                }
                Some(Jv::Arr(v))
            }
            b'{' => {
                self.i += 1;
                let mut v = vec![];
                self.ws();
                if self.s.get(self.i) == Some(&b'}') { self.i += 1; return Some(Jv::Obj(v)); }
                loop {
                    self.ws();
                    let k = self.string()?;
                    self.eat(b':')?;
                    v.push((k, self.value()?));
                    self.ws();
                    match *self.s.get(self.i)? { b',' => self.i += 1, b'}' => { self.i += 1; break; } _ => return None }
                }
                Some(Jv::Obj(v))
            }
            _ => {
                let st = self.i;
                while self.i < self.s.len() && matches!(self.s[self.i], b'-' | b'+' | b'.' | b'e' | b'E' | b'0'..=b'9') { self.i += 1; }
                let t = std::str::from_utf8(&self.s[st..self.i]).ok()?;
                if t.is_empty() { return None; }
                if t.contains(['.', 'e', 'E']) { t.parse::<f64>().ok().map(Jv::Float) } else { Some(Jv::Int(t.to_string())) }
            }
        }
    }
}
fn parse_json_exact(text: &str) -> Option<Jv> {
    let mut p = Jp { s: text.as_bytes(), i: 0 };
    let v = p.value()?;
    p.ws();
    if p.i == text.len() { Some(v) } else { None }
}
fn canon_jv(v: &Jv) -> String {
    match v {
        Jv::Null => "null".into(),
        Jv::Bool(b) => b.to_string(),
        Jv::Int(t) => t.clone(),
        Jv::Float(f) => fx(*f),
        Jv::Str(s) => format!("s:{}", atomise(s)),
        Jv::Arr(a) => tagged("a", a.iter().map(canon_jv)),
        Jv::Obj(o) => {
            let mut kv: Vec<(String, String)> = o.iter().map(|(k, v)| (atomise(k), canon_jv(v))).collect();
            kv.sort();
            tagged("m", kv.into_iter().map(|(k, v)| list([k, v])))
        }
    }
}

// ------------------------------------------------------------------------------------------------
// temp files (never /tmp)

fn tmp_dir() -> PathBuf {
    let d = PathBuf::from("/verif/harness/target/tmp").join(format!("c15-{}", std::process::id()));
    std::fs::create_dir_all(&d).expect("tmp dir");
    d
}

/// What an export path holds BEFORE the real code writes to it.
#[derive(Clone, Debug, PartialEq)]
enum PreKind {
    /// no such file
    Fresh,
    /// `n` bytes of printable junk
    Junk(u64),
    /// an older export (same format, written by the real code) of a log with `k` steps of two entries
    Older(u64),
    /// the export of this very log, done once before
    Same,
}
impl PreKind {
    fn parse(x: &Sx) -> PreKind {
        match x {
            Sx::A(a) if a == "fresh" => PreKind::Fresh,
            Sx::A(a) if a == "same" => PreKind::Same,
            l => match l.head() {
                Some(("junk", a)) => PreKind::Junk(a[0].nat().unwrap()),
                Some(("older", a)) => PreKind::Older(a[0].nat().unwrap()),
                _ => panic!("pre {l:?}"),
            },
        }
    }
}
#[derive(Clone, Debug)]
struct Pre { json: PreKind, cbor: PreKind }
impl Pre {
    fn fresh() -> Pre { Pre { json: PreKind::Fresh, cbor: PreKind::Fresh } }
    /// `(pre J C)`
    fn parse(x: &Sx) -> Pre {
        let (_, a) = x.head().unwrap();
        Pre { json: PreKind::parse(&a[0]), cbor: PreKind::parse(&a[1]) }
    }
}
fn junk_bytes(n: u64) -> Vec<u8> {
    let mut r = Sm::new(n ^ 0x6a756e6b);
    (0..n).map(|_| b' ' + (r.below(95) as u8)).collect()
}
/// Bytes of an older export (written by the real code into a fresh file; cached): the log of
/// `loop k { Logger }` with the rules (always, Iterations) and (always, n1 := 7).
fn older_export(k: u64, json: bool) -> Vec<u8> {
    static CACHE: Mutex<Option<HashMap<(u64, bool), Vec<u8>>>> = Mutex::new(None);
    if let Some(v) = CACHE.lock().unwrap().get_or_insert_with(HashMap::new).get(&(k, json)) { return v.clone(); }
    let p = tmp_dir().join(if json { "older.json" } else { "older.cbor" });
    let _ = std::fs::remove_file(&p);
    let config: Configuration<TP> = Configuration::builder().while_(LessThanN::iterations(k as u32), |b| b.do_(Logger::new())).build();
    let problem = LP::new("older");
    let r = catch(|| config.optimize_with(&problem, |state| {
        state.insert(Random::new(0));
        state.configure_log(|c| {
            c.with(Box::new(Const(true)), ValueOf::<Iterations>::entry());
            c.with(Box::new(Const(true)), Box::new(Named { k: 1, src: Src::Const(7) }));
            Ok(())
        })
    }));
    let bytes = match r {
        Some(Ok(state)) => {
            let _ = if json { state.log().to_json(&p) } else { state.log().to_cbor(&p) };
            std::fs::read(&p).unwrap_or_default()
        }
        _ => vec![],
    };
    let _ = std::fs::remove_file(&p);
    CACHE.lock().unwrap().get_or_insert_with(HashMap::new).insert((k, json), bytes.clone());
    bytes
}
/// Puts `path` into the state `pre` (`export` = the real export of the current log, for `Same`).
fn prepare_path(path: &std::path::Path, pre: &PreKind, json: bool, export: &dyn Fn(&std::path::Path)) {
    let _ = std::fs::remove_file(path);
    match pre {
        PreKind::Fresh => {}
        PreKind::Junk(n) => { let _ = std::fs::write(path, junk_bytes(*n)); }
        PreKind::Older(k) => { let _ = std::fs::write(path, older_export(*k, json)); }
        PreKind::Same => export(path),
    }
}

/// The decoded content of a CBOR log file: `Ok((names, steps))` only if the WHOLE file is one item of the export's shape.
fn decode_cbor_file(bytes: &[u8]) -> Result<(Vec<String>, Vec<String>), &'static str> {
    let mut rd: &[u8] = bytes;
    let c: ciborium::Value = ciborium::de::from_reader(&mut rd).map_err(|_| "cbor-malformed")?;
    if !rd.is_empty() { return Err("cbor-trailing"); }
    let ciborium::Value::Map(top) = c else { return Err("cbor-shape") };
    let get = |key: &str| top.iter().find(|(k, _)| k.as_text() == Some(key)).map(|(_, v)| v.clone());
    let (Some(ciborium::Value::Array(names)), Some(ciborium::Value::Array(entries))) = (get("names"), get("entries")) else { return Err("cbor-shape") };
    let mut cn = vec![];
    for n in &names { cn.push(atomise(n.as_text().ok_or("cbor-shape")?)); }
    let mut cs = vec![];
    for m in &entries {
        let ciborium::Value::Map(kv) = m else { return Err("cbor-shape") };
        let mut v: Vec<(u64, String)> = vec![];
        for (k, val) in kv {
            let k = k.as_integer().and_then(|i| u64::try_from(i).ok()).ok_or("cbor-key")?;
            v.push((k, canon_cbor(val)));
        }
        v.sort();
        cs.push(list(v.into_iter().map(|(k, val)| list([k.to_string(), val]))));
    }
    Ok((cn, cs))
}

/// Exports `log` through `to_json` and `to_cbor` to paths in the state `pre`, decodes both files IN FULL.
/// → `(raw …) (json (names…) (steps…)) (cbor (names…) (steps…))`, or the reason an export does not decode.
fn export_log(log: &mahf::logging::Log, pre: &Pre) -> Result<[String; 3], &'static str> {
    let dir = tmp_dir();
    // uncompressed: the log's own Serialize impl, captured as a value tree that keeps every float
    let raw = ciborium::Value::serialized(log).map_err(|_| "raw-ser")?;
    let raw_steps = raw.as_array().ok_or("raw-shape")?;
    let mut rs = vec![];
    for st in raw_steps {
        let es = st.as_array().ok_or("raw-shape")?;
        let mut out = vec![];
        for e in es {
            let m = e.as_map().ok_or("raw-shape")?;
            let get = |key: &str| m.iter().find(|(k, _)| k.as_text() == Some(key)).map(|(_, v)| v);
            let name = get("name").and_then(|n| n.as_text()).ok_or("raw-shape")?;
            let val = get("value").ok_or("raw-shape")?;
            out.push(list([atomise(name), canon_cbor(val)]));
        }
        rs.push(list(out));
    }
    // JSON export
    let jp = dir.join("log.json");
    prepare_path(&jp, &pre.json, true, &|p| { let _ = log.to_json(p); });
    log.to_json(&jp).map_err(|_| "json-write")?;
    let text = std::fs::read_to_string(&jp).map_err(|_| "json-read")?;
    let _ = std::fs::remove_file(&jp);
    let _wellformed: serde_json::Value = serde_json::from_str(&text).map_err(|_| "json-malformed")?;
    let j = parse_json_exact(&text).ok_or("json-malformed")?;
    let Jv::Obj(top) = j else { return Err("json-shape") };
    let names = top.iter().find(|(k, _)| k == "names").map(|(_, v)| v.clone()).ok_or("json-shape")?;
    let entries = top.iter().find(|(k, _)| k == "entries").map(|(_, v)| v.clone()).ok_or("json-shape")?;
    let (Jv::Arr(names), Jv::Arr(entries)) = (names, entries) else { return Err("json-shape") };
    let mut jn = vec![];
    for n in &names { if let Jv::Str(s) = n { jn.push(atomise(s)) } else { return Err("json-shape") } }
    let mut js = vec![];
    for m in &entries {
        let Jv::Obj(kv) = m else { return Err("json-shape") };
        let mut v: Vec<(u64, String)> = vec![];
        for (k, val) in kv { v.push((k.parse::<u64>().map_err(|_| "json-key")?, canon_jv(val))); }
        v.sort();
        js.push(list(v.into_iter().map(|(k, val)| list([k.to_string(), val]))));
    }
    // CBOR export
    let cp = dir.join("log.cbor");
    prepare_path(&cp, &pre.cbor, false, &|p| { let _ = log.to_cbor(p); });
    log.to_cbor(&cp).map_err(|_| "cbor-write")?;
    let bytes = std::fs::read(&cp).map_err(|_| "cbor-read")?;
    let _ = std::fs::remove_file(&cp);
    let (cn, cs) = decode_cbor_file(&bytes)?;
    Ok([
        tagged("raw", rs),
        tagged("json", [tagged("names", jn), tagged("steps", js)]),
        tagged("cbor", [tagged("names", cn), tagged("steps", cs)]),
    ])
}

// ------------------------------------------------------------------------------------------------
// harness-defined state, components, conditions, extractor (all through public API)

#[derive(Clone, Default, Serialize, Tid, derive_more::Deref, derive_more::DerefMut)]
pub struct X(pub u32);
impl CustomState<'_> for X {}

#[derive(Clone, Serialize)]
struct SetX(u32);
impl<P: Problem> Component<P> for SetX {
    fn execute(&self, _p: &P, state: &mut State<P>) -> ExecResult<()> { state.insert(X(self.0)); Ok(()) }
}
#[derive(Clone, Serialize)]
struct AddX(u32);
impl<P: Problem> Component<P> for AddX {
    fn execute(&self, _p: &P, state: &mut State<P>) -> ExecResult<()> {
        if let Ok(mut x) = state.try_borrow_value_mut::<X>() { *x += self.0; }
        Ok(())
    }
}

#[derive(Clone, Serialize)]
struct Const(bool);
impl<P: Problem> Condition<P> for Const {
    fn evaluate(&self, _p: &P, _s: &mut State<P>) -> ExecResult<bool> { Ok(self.0) }
}
/// `X` present and `X >= k`.
#[derive(Clone, Serialize)]
struct XGe(u32);
impl<P: Problem> Condition<P> for XGe {
    fn evaluate(&self, _p: &P, s: &mut State<P>) -> ExecResult<bool> { Ok(s.try_get_value::<X>().map(|v| v >= self.0).unwrap_or(false)) }
}
/// Replays a script of outcomes, one per evaluation; `false` when exhausted.
#[derive(Clone, Serialize)]
struct Script { #[serde(skip)] q: Arc<Mutex<VecDeque<char>>> }
impl<P: Problem> Condition<P> for Script {
    fn evaluate(&self, _p: &P, _s: &mut State<P>) -> ExecResult<bool> {
        let o = self.q.lock().unwrap().pop_front();
        match o {
            Some('t') => Ok(true),
            Some('e') => Err(eyre::eyre!("scripted trigger failure")),
            Some('p') => panic!("scripted trigger panic"),
            _ => Ok(false),
        }
    }
}

const NAMES: [&str; 6] = ["n0", "n1", "n2", "n3", "n4", "n5"];
#[derive(Clone)]
enum Src { X, Iter, Const(u32) }
#[derive(Clone)]
struct Named { k: usize, src: Src }
impl<P: Problem> EntryExtractor<P> for Named {
    fn extract_entry(&self, _p: &P, state: &State<P>) -> Entry {
        let v: Option<u32> = match self.src {
            Src::X => state.try_get_value::<X>().ok(),
            Src::Iter => state.try_get_value::<Iterations>().ok(),
            Src::Const(c) => Some(c),
        };
        Entry { name: NAMES[self.k % NAMES.len()], value: Box::new(v) }
    }
}

// ------------------------------------------------------------------------------------------------
// site `logger*`: programs over Block / Loop / Scope / Logger / SetX / AddX

/// Problem of the `logger*` / `exp*` programs: nothing to optimise, a settable name (`par_experiment`
/// names the log files `<problem>_<run>.cbor`).
#[derive(Clone)]
pub struct LP { name: String }
impl LP { fn new(name: &str) -> LP { LP { name: name.to_string() } } }
impl Problem for LP {
    type Encoding = u64;
    type Objective = SingleObjective;
    fn name(&self) -> &str { &self.name }
}
impl KnownOptimumProblem for LP {
    fn known_optimum(&self) -> SingleObjective { SingleObjective::try_from(0.0).unwrap() }
}
type TP = LP;

fn mk_trigger(t: &Sx) -> Box<dyn Condition<TP>> {
    if let Some(a) = t.atom() {
        return match a {
            "always" => Box::new(Const(true)),
            "never" => Box::new(Const(false)),
            // a trigger that needs `Logger::init` (its `Previous<L>` state is created there)
            "changed" => mahf::conditions::common::ChangeOf::new(Box::new(mahf::conditions::common::PartialEqChecker), ValueOf::<X>::new()),
            _ => panic!("trigger {a}"),
        };
    }
    let (h, a) = t.head().unwrap();
    match h {
        "every" => EveryN::iterations(a[0].nat().unwrap() as u32),
        "script" => Box::new(Script { q: Arc::new(Mutex::new(a.iter().map(|o| o.atom().unwrap().chars().next().unwrap()).collect())) }),
        "not" => Not::new(mk_trigger(&a[0])),
        _ => panic!("trigger {h}"),
    }
}
fn mk_extractor(e: &Sx) -> Box<dyn EntryExtractor<TP>> {
    if let Some(a) = e.atom() {
        return match a {
            "iterval" => ValueOf::<Iterations>::entry(),
            "iterid" => IdLens::<Iterations>::entry(),
            "evals" => ValueOf::<Evaluations>::entry(),
            "best" => BestObjectiveValueLens::<TP>::entry(),
            "xid" => IdLens::<X>::entry(),
            "xval" => ValueOf::<X>::entry(),
            _ => panic!("extractor {a}"),
        };
    }
    let (_, a) = e.head().unwrap();
    let k = a[0].nat().unwrap() as usize;
    let src = match &a[1] {
        Sx::A(s) if s == "x" => Src::X,
        Sx::A(_) => Src::Iter,
        l => Src::Const(l.items().unwrap()[1].nat().unwrap() as u32),
    };
    Box::new(Named { k, src })
}
fn build_prog(nodes: &[Sx], mut b: ConfigurationBuilder<TP>) -> ConfigurationBuilder<TP> {
    for n in nodes {
        let (h, a) = n.head().unwrap();
        b = match h {
            "log" => b.do_(Logger::new()),
            "setx" => b.do_(Box::new(SetX(a[0].nat().unwrap() as u32))),
            "addx" => b.do_(Box::new(AddX(a[0].nat().unwrap() as u32))),
            "loop" => { let body = a[1..].to_vec(); b.while_(LessThanN::iterations(a[0].nat().unwrap() as u32), move |bb| build_prog(&body, bb)) }
            "scope" => { let body = a.to_vec(); b.scope_(move |bb| build_prog(&body, bb)) }
            "ifx" => { let body = a[1..].to_vec(); b.if_(Box::new(XGe(a[0].nat().unwrap() as u32)), move |bb| build_prog(&body, bb)) }
            _ => panic!("node {h}"),
        };
    }
    b
}

/// Registers the rules of a `(rules …)` script (`noconfig`: no `configure_log` call at all).
fn apply_rules(state: &mut State<TP>, rules: &Sx) -> ExecResult<()> {
    if let Some((_, rs)) = rules.head() {
        let apply = |c: &mut mahf::logging::LogConfig<TP>, r: &Sx| {
            if r.atom() == Some("clear") { c.clear(); return; }
            let (h, a) = r.head().unwrap();
            if h == "many" {
                c.with_many(mk_trigger(&a[0]), a[1..].iter().map(mk_extractor).collect::<Vec<_>>());
            } else {
                // the identity-lens rules go through `with_auto` (also the way `with_common` registers)
                match a[1].atom() {
                    Some("xid") => { c.with_auto::<X>(mk_trigger(&a[0])); }
                    Some("iterid") => { c.with_auto::<Iterations>(mk_trigger(&a[0])); }
                    _ => { c.with(mk_trigger(&a[0]), mk_extractor(&a[1])); }
                }
            }
        };
        if rs.len() >= 2 && rs.len() % 2 == 0 {
            // "repeated calls of this method access the same LogConfig": one call per rule
            for r in rs { state.configure_log(|c| { apply(c, r); Ok(()) })?; }
        } else {
            state.configure_log(|c| { for r in rs { apply(c, r); } Ok(()) })?;
        }
    }
    Ok(())
}

fn run_program(input: &Sx) -> String {
    let items = input.items().unwrap();
    let rules = &items[1];
    let (_, tree) = items[2].head().unwrap();
    let config: Configuration<TP> = build_prog(tree, Configuration::builder()).build();
    let problem = LP::new("tag");
    let r = catch(|| {
        config.optimize_with(&problem, |state| {
            state.insert(Random::new(0));
            apply_rules(state, rules)
        })
    });
    match r {
        None => "(res panic)".into(),
        Some(Err(_)) => "(res err)".into(),
        Some(Ok(state)) => match export_log(&state.log(), &items.get(3).map(Pre::parse).unwrap_or_else(Pre::fresh)) {
            Ok([raw, j, c]) => list(["res".into(), "ok".into(), raw, j, c]),
            Err(e) => format!("(res export-{e})"),
        },
    }
}

/// Sites `logger-runs` / `logger-rerun-after-err`: input `(lgs RULES (runs (run N*)…))` — ONE caller-owned `State`
/// (prepared as `Configuration::optimize_with` prepares it, rules registered once), then one
/// `Configuration::run(&problem, &mut state)` per `(run …)` — each with its own configuration — whatever the
/// earlier runs returned. Output `(res (outs ok|err…) (raw …) (json …) (cbor …))`: the outcome of every run and
/// the log the state holds at the end.
fn run_runs(input: &Sx) -> String {
    let items = input.items().unwrap();
    let rules = &items[1];
    let (_, runs) = items[2].head().unwrap();
    let problem = LP::new("tag");
    let r = catch(|| {
        let mut state: State<TP> = State::new();
        state.insert(mahf::logging::Log::new());
        state.insert(mahf::state::common::Populations::<TP>::new());
        state.insert(Random::new(0));
        if apply_rules(&mut state, rules).is_err() { return None; }
        let mut outs: Vec<String> = vec!["outs".into()];
        for run in runs {
            let (_, tree) = run.head().unwrap();
            let config: Configuration<TP> = build_prog(tree, Configuration::builder()).build();
            outs.push(if config.run(&problem, &mut state).is_ok() { "ok".into() } else { "err".into() });
        }
        let ex = export_log(&state.log(), &Pre::fresh());
        Some((list(outs), ex))
    });
    match r {
        None => "(res panic)".into(),
        Some(None) => "(res err)".into(),
        Some(Some((outs, Ok([raw, j, c])))) => list(["res".into(), outs, raw, j, c]),
        Some(Some((_, Err(e)))) => format!("(res export-{e})"),
    }
}

// ------------------------------------------------------------------------------------------------
// site `exp*`: a sequence of real `par_experiment` calls into ONE folder.
// input  `(exp (pre PREFILE…) (calls (call RULES (tree N…) RUNS LOG (probs NAME…))…))`,
//        PREFILE = `(cfgfile KIND)` | `(logfile NAME RUN KIND)`, KIND = `(junk n)` | `(older k)`, LOG = t | f
// output `(exp (call RES (cfg TREE) (logs (f NAME RUN STATE)…) (other FILE…))…)` — after every call the folder is
// read: `configuration.ron` as a tree (RON reader), every `<problem>_<run>.cbor` this call has to write decoded in full.

fn exp_snapshot(dir: &std::path::Path, probs: &[String], runs: u64, log: bool) -> Vec<String> {
    let cfg = match std::fs::read_to_string(dir.join("configuration.ron")) {
        Err(_) => "missing".to_string(),
        Ok(t) => ron_to_sexp(&t).unwrap_or_else(|| "unparsable".into()),
    };
    let mut expected: BTreeSet<String> = BTreeSet::new();
    expected.insert("configuration.ron".into());
    let mut logs = vec![];
    if log {
        for r in 0..runs {
            for p in probs {
                let fname = format!("{p}_{r}.cbor");
                let st = match std::fs::read(dir.join(&fname)) {
                    Err(_) => "missing".to_string(),
                    Ok(bytes) => match decode_cbor_file(&bytes) {
                        Ok((n, s)) => tagged("cbor", [tagged("names", n), tagged("steps", s)]),
                        Err(e) => e.to_string(),
                    },
                };
                expected.insert(fname);
                logs.push(list(["f".into(), p.clone(), r.to_string(), st]));
            }
        }
    }
    let mut other: Vec<String> = std::fs::read_dir(dir).map(|rd| rd.filter_map(|e| e.ok())
        .map(|e| e.file_name().to_string_lossy().to_string()).filter(|n| !expected.contains(n)).collect()).unwrap_or_default();
    other.sort();
    vec![list(["cfg".into(), cfg]), tagged("logs", logs), tagged("other", other)]
}

/// Runs in the CHILD process (`par_experiment` prints to stdout and draws a progress bar).
fn exp_child(input: &Sx, dir: &std::path::Path) -> String {
    let (_, a) = input.head().unwrap();
    let (_, pre) = a[0].head().unwrap();
    let (_, calls) = a[1].head().unwrap();
    let _ = std::fs::remove_dir_all(dir);
    for f in pre {
        let (h, x) = f.head().unwrap();
        let _ = std::fs::create_dir_all(dir);
        let (path, kind, json) = match h {
            "cfgfile" => (dir.join("configuration.ron"), PreKind::parse(&x[0]), true),
            _ => (dir.join(format!("{}_{}.cbor", x[0].atom().unwrap(), x[1].nat().unwrap())), PreKind::parse(&x[2]), false),
        };
        prepare_path(&path, &kind, json, &|_| {});
    }
    let mut out = vec![];
    for c in calls {
        let (_, x) = c.head().unwrap();
        let rules = &x[0];
        let (_, tree) = x[1].head().unwrap();
        let runs = x[2].nat().unwrap();
        let log = x[3].atom() == Some("t");
        let probs: Vec<String> = x[4].head().unwrap().1.iter().map(|p| p.atom().unwrap().to_string()).collect();
        let problems: Vec<LP> = probs.iter().map(|p| LP::new(p)).collect();
        let config: Configuration<TP> = build_prog(tree, Configuration::builder()).build();
        let r = catch(|| mahf::experiments::par_experiment(&config, |state: &mut State<TP>| apply_rules(state, rules), &problems, runs, dir, log));
        let mut items = vec!["call".to_string()];
        match r {
            Some(Ok(())) => { items.push("ok".into()); items.extend(exp_snapshot(dir, &probs, runs, log)); }
            // a failing run aborts the experiment; which other runs were finished is not determined
            Some(Err(_)) => { items.push("err".into()); items.push(exp_snapshot(dir, &probs, 0, false).remove(0)); }
            None => { items.push("panic".into()); items.push(exp_snapshot(dir, &probs, 0, false).remove(0)); }
        }
        out.push(list(items));
    }
    tagged("exp", out)
}

/// Runs the cases in ONE child process (`par_experiment` prints to stdout and draws a progress bar).
fn run_exp_batch(inputs: &[String]) -> Vec<String> {
    static N: std::sync::atomic::AtomicU64 = std::sync::atomic::AtomicU64::new(0);
    let k = N.fetch_add(1, std::sync::atomic::Ordering::SeqCst);
    let dir = tmp_dir().join(format!("exp-{k}"));
    let (inf, outf) = (tmp_dir().join(format!("exp-{k}.in")), tmp_dir().join(format!("exp-{k}.out")));
    let _ = std::fs::remove_file(&outf);
    let _ = std::fs::create_dir_all(&dir);
    std::fs::write(&inf, inputs.join("\n")).expect("exp inputs");
    let st = std::process::Command::new(std::env::current_exe().unwrap())
        .args(["--exp-child", inf.to_str().unwrap(), dir.to_str().unwrap(), outf.to_str().unwrap()])
        .stdin(std::process::Stdio::null()).stdout(std::process::Stdio::null()).stderr(std::process::Stdio::null()).status();
    let res: Vec<String> = match (st, std::fs::read_to_string(&outf)) {
        (Ok(s), Ok(t)) if s.success() && t.lines().count() == inputs.len() => t.lines().map(|l| l.to_string()).collect(),
        _ => inputs.iter().map(|_| "(exp child-failed)".to_string()).collect(),
    };
    let _ = std::fs::remove_dir_all(&dir);
    let _ = std::fs::remove_file(&inf);
    let _ = std::fs::remove_file(&outf);
    res
}
fn run_exp(input: &Sx) -> String { run_exp_batch(&[input.render()]).remove(0) }

fn has_root_loop(tree: &[Sx]) -> bool {
    tree.iter().any(|n| match n.head() {
        Some(("loop", _)) => true,
        Some(("ifx", a)) => has_root_loop(&a[1..]),
        _ => false,
    })
}

// site `logger-float`: loop n { Y := v[iteration]; Logger } with the rule (always, IdLens<Y>)
#[derive(Clone, Default, Serialize, Tid, derive_more::Deref, derive_more::DerefMut)]
pub struct Y(pub f64);
impl CustomState<'_> for Y {}
#[derive(Clone, Serialize)]
struct SetYSeq(Vec<f64>);
impl<P: Problem> Component<P> for SetYSeq {
    fn execute(&self, _p: &P, state: &mut State<P>) -> ExecResult<()> {
        let i = state.iterations() as usize;
        if let Some(v) = self.0.get(i) { state.insert(Y(*v)); }
        Ok(())
    }
}
fn run_floats(input: &Sx) -> String {
    let (_, a) = input.head().unwrap();
    let vals: Vec<f64> = a.iter().map(|v| v.float().unwrap()).collect();
    let n = vals.len() as u32;
    let config: Configuration<TP> = Configuration::builder()
        .while_(LessThanN::iterations(n), move |b| b.do_(Box::new(SetYSeq(vals.clone()))).do_(Logger::new()))
        .build();
    let r = catch(|| config.optimize_with(&LP::new("tag"), |state| {
        state.insert(Random::new(0));
        state.configure_log(|c| { c.with_auto::<Y>(Box::new(Const(true))); Ok(()) })
    }));
    match r {
        None => "(res panic)".into(),
        Some(Err(_)) => "(res err)".into(),
        Some(Ok(state)) => match export_log(&state.log(), &Pre::fresh()) {
            Ok([raw, j, c]) => list(["res".into(), "ok".into(), raw, j, c]),
            Err(e) => format!("(res export-{e})"),
        },
    }
}

// ------------------------------------------------------------------------------------------------
// site `template-log`: every shipped template with a log configuration; a snapshot of the sources
// is taken just before each `Logger` executes (witness).

const N_ITER: &str = "mahf::state::common::Iterations";
const N_EVAL: &str = "mahf::state::common::Evaluations";
const N_PROG: &str = "mahf::state::common::Progress<mahf::lens::common::ValueOf<mahf::state::common::Iterations>>";

struct LogRun { rules: Vec<(u32, String, String)>, seed: u64, pre: Pre }
impl ConfigUser for LogRun {
    type Out = String;
    fn use_config<P: HProblem>(self, config: &Configuration<P>, problem: &P) -> String {
        let snaps: Arc<Mutex<Vec<String>>> = Default::default();
        let sn = snaps.clone();
        let rules = self.rules.clone();
        let seed = self.seed;
        let r = catch(|| {
            config.optimize_with(problem, |state: &mut State<P>| {
                state.insert(Random::new(seed));
                state.insert_evaluator(mahf::problems::Sequential::<P>::new());
                state.configure_log(|c| {
                    for (k, name, kind) in &rules {
                        let t = EveryN::iterations(*k);
                        match (name.as_str(), kind.as_str()) {
                            (N_ITER, "valueof") => { c.with(t, ValueOf::<Iterations>::entry()); }
                            (N_ITER, "idlens") => { c.with(t, IdLens::<Iterations>::entry()); }
                            (N_EVAL, "valueof") => { c.with(t, ValueOf::<Evaluations>::entry()); }
                            (N_EVAL, "idlens") => { c.with_auto::<Evaluations>(t); }
                            (N_EVAL, "common") => { c.with_common(t); }
                            (N_PROG, "common-2nd") => {}
                            (N_ITER, "auto") => { c.with_auto::<Iterations>(t); }
                            (N_PROG, _) => { c.with_auto::<Progress<ValueOf<Iterations>>>(t); }
                            ("BestObjectiveValue", _) => { c.with(t, BestObjectiveValueLens::<P>::entry()); }
                            ("PopulationSize", _) => { c.with(t, PopulationSizeLens::<P>::entry()); }
                            ("c15::X", _) => { c.with(t, IdLens::<X>::entry()); }
                            other => panic!("rule {other:?}"),
                        }
                    }
                    Ok(())
                })?;
                state.insert(StepObserver::<P>(Box::new(move |ph, name, _idx, st: &State<P>| {
                    if ph == Phase::Before && name.ends_with("::Logger") {
                        let mut vals = vec![];
                        let it = st.try_get_value::<Iterations>().ok();
                        if let Some(it) = it { vals.push(list([N_ITER.to_string(), it.to_string()])); }
                        if let Ok(e) = st.try_get_value::<Evaluations>() { vals.push(list([N_EVAL.to_string(), e.to_string()])); }
                        if let Ok(p) = st.try_get_value::<Progress<ValueOf<Iterations>>>() { vals.push(list([N_PROG.to_string(), fx(p)])); }
                        if let Some(o) = st.best_objective_value() { vals.push(list(["BestObjectiveValue".to_string(), fx(o.value())])); }
                        if let Some(p) = st.populations().get_current() { vals.push(list(["PopulationSize".to_string(), p.len().to_string()])); }
                        let mut items = vec!["snap".to_string(), it.map(|i| i.to_string()).unwrap_or("none".into())];
                        items.extend(vals);
                        sn.lock().unwrap().push(list(items));
                    }
                })));
                Ok(())
            })
        });
        match r {
            None => "(res panic)".into(),
            Some(Err(_)) => "(res err)".into(),
            Some(Ok(state)) => match export_log(&state.log(), &self.pre) {
                Ok([raw, j, c]) => {
                    let wit = tagged("wit", snaps.lock().unwrap().clone());
                    list(["res".into(), "ok".into(), wit, raw, j, c])
                }
                Err(e) => format!("(res export-{e})"),
            },
        }
    }
}

fn run_template_log(input: &Sx) -> String {
    // (tl (rules (r (every k) NAME KIND)*) name variant instance iters seed)
    let it = input.items().unwrap();
    let (_, rs) = it[1].head().unwrap();
    let rules = rs.iter().map(|r| {
        let a = r.items().unwrap();
        (a[1].items().unwrap()[1].nat().unwrap() as u32, a[2].atom().unwrap().to_string(), a[3].atom().unwrap().to_string())
    }).collect();
    let name = it[2].atom().unwrap();
    let (v, inst, iters, seed) = (it[3].nat().unwrap() as u32, it[4].nat().unwrap() as u32, it[5].nat().unwrap() as u32, it[6].nat().unwrap());
    let pre = it.get(7).map(Pre::parse).unwrap_or_else(Pre::fresh);
    match with_template(name, v, inst, iters, LogRun { rules, seed, pre }) {
        Ok(s) => s,
        Err(_) => "(res ctor-err)".into(),
    }
}

// ------------------------------------------------------------------------------------------------
// RON reader: the text written by `Configuration::to_ron` → the S-expression form of `hcommon::sertree`
// (`(S Name (field v)…)`, `(N Name v)`, `(T Name v…)`, `(U Name)`, `(seq v…)`, `(map (k v)…)`, `(tuple v…)`,
// `(str s)`, `none`, `(some v)`, integers as digits, floats as `x` + bits). `None` unless the WHOLE text is one value.

struct Rp<'a> { s: &'a [u8], i: usize }
impl<'a> Rp<'a> {
    fn ws(&mut self) {
        loop {
            while self.i < self.s.len() && (self.s[self.i] as char).is_ascii_whitespace() { self.i += 1; }
            if self.s[self.i..].starts_with(b"//") { while self.i < self.s.len() && self.s[self.i] != b'\n' { self.i += 1; } } else { break; }
        }
    }
    fn peek(&mut self) -> Option<u8> { self.ws(); self.s.get(self.i).copied() }
    fn ident(&mut self) -> Option<String> {
        self.ws();
        let st = self.i;
        while self.i < self.s.len() && (self.s[self.i].is_ascii_alphanumeric() || self.s[self.i] == b'_') { self.i += 1; }
        if st == self.i { None } else { std::str::from_utf8(&self.s[st..self.i]).ok().map(|t| t.to_string()) }
    }
    fn string(&mut self) -> Option<String> {
        // opening quote already seen at self.i
        self.i += 1;
        let mut out = Vec::new();
        loop {
            let c = *self.s.get(self.i)?;
            self.i += 1;
            match c {
                b'"' => break,
                b'\\' => {
                    let e = *self.s.get(self.i)?;
                    self.i += 1;
                    match e { b'n' => out.push(b'\n'), b't' => out.push(b'\t'), b'r' => out.push(b'\r'), b'0' => out.push(0),
                              b'u' | b'x' => return None, other => out.push(other) }
                }
                c => out.push(c),
            }
        }
        String::from_utf8(out).ok()
    }
    /// items between an opening bracket (already consumed) and `close`: `(optional field name, value)`
    fn items(&mut self, close: u8) -> Option<Vec<(Option<String>, String)>> {
        let mut v = vec![];
        loop {
            if self.peek()? == close { self.i += 1; return Some(v); }
            // `name: value`?
            let save = self.i;
            let mut field = None;
            if let Some(id) = self.ident() {
                if self.peek() == Some(b':') && self.s.get(self.i + 1) != Some(&b':') { self.i += 1; field = Some(id); } else { self.i = save; }
            }
            let val = self.value()?;
            v.push((field, val));
            match self.peek()? { b',' => self.i += 1, c if c == close => {} _ => return None }
        }
    }
    fn compound(name: Option<&str>, items: Vec<(Option<String>, String)>) -> String {
        let named = !items.is_empty() && items.iter().all(|(f, _)| f.is_some());
        match name {
            Some("Some") if items.len() == 1 => format!("(some {})", items[0].1),
            Some(n) if named => tagged(&format!("S {}", atomise(n)), items.into_iter().map(|(f, v)| list([f.unwrap(), v]))),
            Some(n) if items.len() == 1 => format!("(N {} {})", atomise(n), items[0].1),
            Some(n) if items.is_empty() => format!("(S {})", atomise(n)),
            Some(n) => tagged(&format!("T {}", atomise(n)), items.into_iter().map(|(_, v)| v)),
            None if named => tagged("S _", items.into_iter().map(|(f, v)| list([f.unwrap(), v]))),
            None if items.is_empty() => "unit".into(),
            None => tagged("tuple", items.into_iter().map(|(_, v)| v)),
        }
    }
    fn value(&mut self) -> Option<String> {
        match self.peek()? {
            b'[' => { self.i += 1; let it = self.items(b']')?; Some(tagged("seq", it.into_iter().map(|(_, v)| v))) }
            b'(' => { self.i += 1; let it = self.items(b')')?; Some(Self::compound(None, it)) }
            b'{' => {
                self.i += 1;
                let mut kv = vec![];
                loop {
                    if self.peek()? == b'}' { self.i += 1; break; }
                    let k = self.value()?;
                    if self.peek()? != b':' { return None; }
                    self.i += 1;
                    let v = self.value()?;
                    kv.push(list([k, v]));
                    match self.peek()? { b',' => self.i += 1, b'}' => {} _ => return None }
                }
                Some(tagged("map", kv))
            }
            b'"' => self.string().map(|t| format!("(str {})", atomise(&t))),
            b'\'' => {
                let c = *self.s.get(self.i + 1)?;
                if self.s.get(self.i + 2) != Some(&b'\'') { return None; }
                self.i += 3;
                Some(atomise(&(c as char).to_string()))
            }
            c if c.is_ascii_digit() || c == b'-' || c == b'+' || c == b'.' => {
                let st = self.i;
                self.i += 1;
                while self.i < self.s.len() && (self.s[self.i].is_ascii_alphanumeric() || matches!(self.s[self.i], b'.' | b'-' | b'+' | b'_')) { self.i += 1; }
                let t = std::str::from_utf8(&self.s[st..self.i]).ok()?;
                if t.contains(['.', 'e', 'E']) || t.ends_with("inf") || t.ends_with("NaN") { t.parse::<f64>().ok().map(fx) }
                else if t.strip_prefix(['-', '+']).unwrap_or(t).bytes().all(|b| b.is_ascii_digit()) { Some(t.trim_start_matches('+').to_string()) }
                else { None }
            }
            _ => {
                let id = self.ident()?;
                match id.as_str() {
                    "true" | "false" => return Some(id),
                    "None" => return Some("none".into()),
                    "inf" => return Some(fx(f64::INFINITY)),
                    "NaN" => return Some(fx(f64::NAN)),
                    _ => {}
                }
                // a struct name may be followed by its fields
                let save = self.i;
                if self.peek() == Some(b'(') { self.i += 1; let it = self.items(b')')?; Some(Self::compound(Some(&id), it)) }
                else { self.i = save; Some(format!("(U {})", atomise(&id))) }
            }
        }
    }
}
fn ron_to_sexp(text: &str) -> Option<String> {
    let mut p = Rp { s: text.as_bytes(), i: 0 };
    let v = p.value()?;
    p.ws();
    if p.i == text.len() { Some(v) } else { None }
}

// ------------------------------------------------------------------------------------------------
// configuration export

/// What the `.ron` path holds before `Configuration::to_ron` writes to it.
enum RonPre<'a> { Fresh, Junk(u64), Text(&'a str) }
/// The text `to_ron` leaves at a path in the state `pre` (the whole file).
fn ron_of_pre<P: Problem>(config: &Configuration<P>, tag: &str, pre: RonPre) -> Result<String, ()> {
    let p = tmp_dir().join(format!("{tag}.ron"));
    let _ = std::fs::remove_file(&p);
    match pre {
        RonPre::Fresh => {}
        RonPre::Junk(n) => { let _ = std::fs::write(&p, junk_bytes(n)); }
        RonPre::Text(t) => { let _ = std::fs::write(&p, t); }
    }
    let r = catch(|| config.to_ron(&p));
    let out = match r {
        Some(Ok(())) => std::fs::read_to_string(&p).map_err(|_| ()),
        _ => Err(()),
    };
    let _ = std::fs::remove_file(&p);
    out
}
fn ron_of<P: Problem>(config: &Configuration<P>, tag: &str) -> Result<String, ()> { ron_of_pre(config, tag, RonPre::Fresh) }
/// The export read back (`unparsable` unless the whole text is one RON value).
fn ron_tree(text: &Result<String, ()>) -> Result<String, ()> {
    match text { Ok(t) => Ok(ron_to_sexp(t).unwrap_or_else(|| "unparsable".into())), Err(()) => Err(()) }
}
fn json_of<P: Problem>(config: &Configuration<P>) -> Result<String, ()> {
    match catch(|| serde_json::to_string(config.heuristic())) {
        Some(Ok(s)) => Ok(s),
        _ => Err(()),
    }
}
fn okerr<T, E>(r: &Result<T, E>) -> String { if r.is_ok() { "ok".into() } else { "err".into() } }

/// Base identifier of a `type_name`: last path segment before the generic arguments.
fn base_ident(type_name: &str) -> String {
    let head = type_name.split('<').next().unwrap_or(type_name);
    head.rsplit("::").next().unwrap_or(head).to_string()
}

struct SerTemplate;
impl ConfigUser for SerTemplate {
    type Out = String;
    fn use_config<P: HProblem>(self, config: &Configuration<P>, problem: &P) -> String {
        // the export replaces whatever the path held (here: more junk than any template's export is long) and parses as a whole
        let ron = ron_of_pre(config, "t", RonPre::Junk(300_000)).and_then(|t| if ron_to_sexp(&t).is_some() { Ok(t) } else { Err(()) });
        let json = json_of(config);
        let cl = config.clone();
        let clone_eq = ron_of(&cl, "tc") == ron && json_of(&cl) == json && ron.is_ok();
        // every component type that executes in a short run must be named in the RON export
        let seen: Arc<Mutex<BTreeSet<String>>> = Default::default();
        let s2 = seen.clone();
        let _ = catch(|| {
            config.optimize_with(problem, |state: &mut State<P>| {
                state.insert(Random::new(1));
                state.insert_evaluator(mahf::problems::Sequential::<P>::new());
                state.insert(StepObserver::<P>(Box::new(move |_ph, name, _i, _st: &State<P>| {
                    s2.lock().unwrap().insert(base_ident(name));
                })));
                Ok(())
            })
        });
        let mut missing = vec![];
        if let Ok(text) = &ron {
            for n in seen.lock().unwrap().iter() {
                // `Block` is serde(transparent): it is the bracketed sequence itself; `LoopPass` is the hook's pseudo-name
                if n == "Block" || n == "LoopPass" { continue; }
                if !text.contains(n.as_str()) { missing.push(n.clone()); }
            }
        }
        list(["ser".into(), list(["ron".into(), okerr(&ron)]), list(["json".into(), okerr(&json)]),
              list(["clone".into(), b(clone_eq)]), tagged("missing", missing)])
    }
}

/// (bytes of junk the `.ron` path holds before the export)
struct SerBoth(u64);
impl ConfigUser for SerBoth {
    type Out = Ser3;
    fn use_config<P: HProblem>(self, config: &Configuration<P>, _problem: &P) -> Self::Out {
        let (r, j, t) = (ron_of_pre(config, "p", RonPre::Junk(self.0)), json_of(config), tree_of(config));
        let r = r.and_then(|t| if ron_to_sexp(&t).is_some() { Ok(t) } else { Err(()) });
        let cl = config.clone();
        let ceq = ron_of(&cl, "pc") == r && json_of(&cl) == j && tree_of(&cl) == t;
        let rt = ron_tree(&r);
        (r, j, ceq, t, rt)
    }
}

/// (RON text, JSON text, clone exports identically, name-preserving traversal, RON text read back)
type Ser3 = (Result<String, ()>, Result<String, ()>, bool, Result<String, ()>, Result<String, ()>);
fn tree_of<P: Problem>(config: &Configuration<P>) -> Result<String, ()> {
    match catch(|| hcommon::sertree::to_sexp(config.heuristic())) {
        Some(Ok(s)) => Ok(s),
        _ => Err(()),
    }
}
fn pair_out(a: &Ser3, bb: &Ser3, json_relevant: bool) -> String {
    let a_ok = a.0.is_ok() && a.1.is_ok();
    let b_ok = bb.0.is_ok() && bb.1.is_ok();
    list(["pair".into(),
          list(["a".into(), if a_ok { "ok".into() } else { "err".to_string() }]),
          list(["b".into(), if b_ok { "ok".into() } else { "err".to_string() }]),
          list(["ron-eq".into(), b(a.0 == bb.0)]),
          list(["tree-eq".into(), b(a.3 == bb.3 && a.3.is_ok())]),
          list(["json-eq".into(), if json_relevant { b(a.1 == bb.1) } else { "-".into() }]),
          list(["clone-eq".into(), b(a.2 && bb.2)])])
}

// generated trees of real components --------------------------------------------------------------
// A tree is described in the shape its export must denote: `(n Name (p PARAM…) KID…)` — every struct
// (component, condition, lens, identifier wrapper, `PhantomData`), every sequence (`seq`, a `Block`
// is serde(transparent)) and every `None` (`none`) is a node; scalars are parameter values
// (u32 digits, f64 as `x` + IEEE bits); a type name written by the export is the parameter
// `(ty PATH ARG…)`; a type parameter held as plain `PhantomData<I>` is `(ph (ty …))`.
type SP = Sphere;

/// Harness-defined generic state: `G<A>` and `G<B>` differ only in the type parameter.
#[derive(Clone, Serialize, Tid, derive_more::Deref, derive_more::DerefMut)]
#[serde(bound = "")]
pub struct G<I: 'static>(#[deref] #[deref_mut] pub u32, #[serde(skip)] std::marker::PhantomData<fn() -> I>);
impl<I: 'static> CustomState<'_> for G<I> {}

fn ty(path: &str, args: &[String]) -> String {
    let mut v = vec!["ty".to_string(), path.to_string()];
    v.extend(args.iter().cloned());
    list(v)
}
fn ty_id(i: &str) -> String { ty(&format!("mahf::identifier::inner::{i}"), &[]) }
/// `type_name` elides a generic argument that equals its default (`NormalMutation<Global>` prints as `NormalMutation`).
fn id_args(i: &str) -> Vec<String> { if i == "Global" { vec![] } else { vec![ty_id(i)] } }
fn ty_value_of(t: String) -> String { ty("mahf::lens::common::ValueOf", &[t]) }
fn ty_u32_state(k: &str) -> String {
    match k {
        "Iterations" => ty("mahf::state::common::Iterations", &[]),
        "Evaluations" => ty("mahf::state::common::Evaluations", &[]),
        "X" => ty("c15::X", &[]),
        "G<A>" => ty("c15::G", &[ty_id("A")]),
        "G<B>" => ty("c15::G", &[ty_id("B")]),
        _ => panic!("u32 state {k}"),
    }
}
/// Short key of a structured type: last path segment + generic arguments.
fn ty_key(t: &Sx) -> String {
    let it = t.items().unwrap();
    let path = it[1].atom().unwrap();
    let base = path.rsplit("::").next().unwrap().to_string();
    if it.len() == 2 { base } else { format!("{base}<{}>", it[2..].iter().map(ty_key).collect::<Vec<_>>().join(",")) }
}

#[derive(Clone, Debug, PartialEq)]
struct T { name: String, params: Vec<String>, kids: Vec<T>, cat: &'static str }
impl T {
    fn new(name: &str, params: Vec<String>, kids: Vec<T>) -> T { T { name: name.into(), params, kids, cat: "" } }
    fn cat(mut self, c: &'static str) -> T { self.cat = c; self }
    fn render(&self) -> String {
        let mut items = vec!["n".to_string(), self.name.clone(), tagged("p", self.params.clone())];
        items.extend(self.kids.iter().map(|k| k.render()));
        list(items)
    }
    fn count(&self) -> usize { 1 + self.kids.iter().map(|k| k.count()).sum::<usize>() }
    fn nth_mut(&mut self, n: &mut usize) -> Option<&mut T> {
        if *n == 0 { return Some(self); }
        *n -= 1;
        for k in &mut self.kids { if let Some(t) = k.nth_mut(n) { return Some(t); } }
        None
    }
}
/// `PopulationSizeLens<P>(PhantomData<fn() -> P>)`: serde ignores `skip` on the only field of a newtype struct.
fn pop_size_lens() -> T { T::new("PopulationSizeLens", vec![], vec![T::new("PhantomData", vec![], vec![])]) }
fn seq(kids: Vec<T>) -> T { T::new("seq", vec![], kids) }
fn none_t() -> T { T::new("none", vec![], vec![]) }

// menus of type-carrying nodes; within one menu and one node name the entries differ ONLY in a type parameter
const U32_STATES: [&str; 5] = ["Iterations", "Evaluations", "X", "G<A>", "G<B>"];
fn u32_lens(i: usize) -> T { T::new("ValueOf", vec![ty_u32_state(U32_STATES[i])], vec![]).cat("u32lens") }
const N_F64IN: usize = 6;
fn f64in_lens(i: usize) -> T {
    if i < 4 {
        let k = ["Iterations", "Evaluations", "G<A>", "G<B>"][i];
        T::new("ValueOf", vec![ty("mahf::state::common::Progress", &[ty_value_of(ty_u32_state(k))])], vec![]).cat("f64in")
    } else {
        let d = ["DimensionWiseDiversity", "PairwiseDistanceDiversity"][i - 4];
        T::new("NormalizedDiversityLens", vec![ty(&format!("mahf::components::diversity::{d}"), &[])], vec![]).cat("f64in")
    }
}
const N_F64OUT: usize = 8;
fn f64out_lens(i: usize) -> T {
    let (st, m, id) = [("MutationRate", "NormalMutation", "Global"), ("MutationRate", "NormalMutation", "A"), ("MutationRate", "NormalMutation", "B"),
        ("MutationRate", "UniformMutation", "Global"), ("MutationRate", "UniformMutation", "A"),
        ("MutationStrength", "NormalMutation", "Global"), ("MutationStrength", "NormalMutation", "A"), ("MutationStrength", "NormalMutation", "B")][i];
    let comp = ty(&format!("mahf::components::mutation::common::{m}"), &id_args(id));
    T::new("ValueOf", vec![ty(&format!("mahf::components::mutation::{st}"), &[comp])], vec![]).cat("f64out")
}
const IDS: [&str; 4] = ["Global", "A", "B", "I0"];
fn id_node(i: usize) -> T { T::new("Id", vec![ty_id(IDS[i])], vec![]).cat("id") }
fn ph_node(i: usize) -> T { T::new("PhantomData", vec![format!("(ph {})", ty_id(IDS[i]))], vec![]).cat("phid") }
fn menu_len(cat: &str) -> usize { match cat { "u32lens" => 5, "f64in" => N_F64IN, "f64out" => N_F64OUT, "id" => 4, "phid" => 3, "f64in_p" => 2, "f64out_p" => 3, _ => 0 } }
fn menu(cat: &'static str, i: usize) -> T {
    match cat {
        "u32lens" => u32_lens(i), "f64in" => f64in_lens(i), "f64out" => f64out_lens(i), "id" => id_node(i), "phid" => ph_node(i),
        "f64in_p" => f64in_lens(i).cat("f64in_p"), "f64out_p" => f64out_lens(i).cat("f64out_p"),
        _ => panic!("menu {cat}"),
    }
}

// building the real components ---------------------------------------------------------------------
fn node_parts(n: &Sx) -> (&str, &[Sx], &[Sx]) {
    let it = n.items().unwrap();
    (it[1].atom().unwrap(), &it[2].items().unwrap()[1..], &it[3..])
}
fn pu(a: &[Sx], i: usize) -> u32 { a[i].nat().unwrap() as u32 }
fn pf(a: &[Sx], i: usize) -> f64 { a[i].float().unwrap() }
/// (node name, key of its type parameter) of a lens / identifier node.
fn tkey(n: &Sx) -> (String, String) {
    let (name, ps, _) = node_parts(n);
    let key = match ps.first() {
        None => String::new(),
        Some(p) => match p.head() { Some(("ph", a)) => ty_key(&a[0]), _ => ty_key(p) },
    };
    (name.to_string(), key)
}
macro_rules! with_u32_lens { ($n:expr, |$L:ident| $body:expr) => {{
    let (ln, k) = tkey($n);
    match (ln.as_str(), k.as_str()) {
        ("ValueOf", "Iterations") => { type $L = ValueOf<Iterations>; $body }
        ("ValueOf", "Evaluations") => { type $L = ValueOf<Evaluations>; $body }
        ("ValueOf", "X") => { type $L = ValueOf<X>; $body }
        ("ValueOf", "G<A>") => { type $L = ValueOf<G<mahf::identifier::A>>; $body }
        ("ValueOf", "G<B>") => { type $L = ValueOf<G<mahf::identifier::B>>; $body }
        other => panic!("u32 lens {other:?}"),
    }
}}}
macro_rules! with_f64in { ($n:expr, |$L:ident| $body:expr) => {{
    use mahf::components::diversity::{DimensionWiseDiversity, NormalizedDiversityLens, PairwiseDistanceDiversity};
    let (ln, k) = tkey($n);
    match (ln.as_str(), k.as_str()) {
        ("ValueOf", "Progress<ValueOf<Iterations>>") => { type $L = ValueOf<Progress<ValueOf<Iterations>>>; $body }
        ("ValueOf", "Progress<ValueOf<Evaluations>>") => { type $L = ValueOf<Progress<ValueOf<Evaluations>>>; $body }
        ("ValueOf", "Progress<ValueOf<G<A>>>") => { type $L = ValueOf<Progress<ValueOf<G<mahf::identifier::A>>>>; $body }
        ("ValueOf", "Progress<ValueOf<G<B>>>") => { type $L = ValueOf<Progress<ValueOf<G<mahf::identifier::B>>>>; $body }
        ("NormalizedDiversityLens", "DimensionWiseDiversity") => { type $L = NormalizedDiversityLens<DimensionWiseDiversity>; $body }
        ("NormalizedDiversityLens", "PairwiseDistanceDiversity") => { type $L = NormalizedDiversityLens<PairwiseDistanceDiversity>; $body }
        other => panic!("f64 input lens {other:?}"),
    }
}}}
macro_rules! with_f64out { ($n:expr, |$L:ident| $body:expr) => {{
    use mahf::components::mutation::{MutationRate, MutationStrength, NormalMutation, UniformMutation};
    use mahf::identifier::{A, B};
    let (ln, k) = tkey($n);
    match (ln.as_str(), k.as_str()) {
        ("ValueOf", "MutationRate<NormalMutation>") => { type $L = ValueOf<MutationRate<NormalMutation>>; $body }
        ("ValueOf", "MutationRate<NormalMutation<A>>") => { type $L = ValueOf<MutationRate<NormalMutation<A>>>; $body }
        ("ValueOf", "MutationRate<NormalMutation<B>>") => { type $L = ValueOf<MutationRate<NormalMutation<B>>>; $body }
        ("ValueOf", "MutationRate<UniformMutation>") => { type $L = ValueOf<MutationRate<UniformMutation>>; $body }
        ("ValueOf", "MutationRate<UniformMutation<A>>") => { type $L = ValueOf<MutationRate<UniformMutation<A>>>; $body }
        ("ValueOf", "MutationStrength<NormalMutation>") => { type $L = ValueOf<MutationStrength<NormalMutation>>; $body }
        ("ValueOf", "MutationStrength<NormalMutation<A>>") => { type $L = ValueOf<MutationStrength<NormalMutation<A>>>; $body }
        ("ValueOf", "MutationStrength<NormalMutation<B>>") => { type $L = ValueOf<MutationStrength<NormalMutation<B>>>; $body }
        other => panic!("f64 output lens {other:?}"),
    }
}}}
/// the restricted menus of `Polynomial` (fewer instantiations)
macro_rules! with_f64in_p { ($n:expr, |$L:ident| $body:expr) => {{
    let (ln, k) = tkey($n);
    match (ln.as_str(), k.as_str()) {
        ("ValueOf", "Progress<ValueOf<Iterations>>") => { type $L = ValueOf<Progress<ValueOf<Iterations>>>; $body }
        ("ValueOf", "Progress<ValueOf<Evaluations>>") => { type $L = ValueOf<Progress<ValueOf<Evaluations>>>; $body }
        other => panic!("f64 input lens (Polynomial) {other:?}"),
    }
}}}
macro_rules! with_f64out_p { ($n:expr, |$L:ident| $body:expr) => {{
    use mahf::components::mutation::{MutationRate, NormalMutation};
    use mahf::identifier::{A, B};
    let (ln, k) = tkey($n);
    match (ln.as_str(), k.as_str()) {
        ("ValueOf", "MutationRate<NormalMutation>") => { type $L = ValueOf<MutationRate<NormalMutation>>; $body }
        ("ValueOf", "MutationRate<NormalMutation<A>>") => { type $L = ValueOf<MutationRate<NormalMutation<A>>>; $body }
        ("ValueOf", "MutationRate<NormalMutation<B>>") => { type $L = ValueOf<MutationRate<NormalMutation<B>>>; $body }
        other => panic!("f64 output lens (Polynomial) {other:?}"),
    }
}}}
macro_rules! with_id { ($n:expr, |$I:ident| $body:expr) => {{
    let (_, k) = tkey($n);
    match k.as_str() {
        "Global" => { type $I = mahf::identifier::Global; $body }
        "A" => { type $I = mahf::identifier::A; $body }
        "B" => { type $I = mahf::identifier::B; $body }
        "I0" => { type $I = mahf::identifier::I0; $body }
        other => panic!("identifier {other:?}"),
    }
}}}

fn mk_cond(n: &Sx) -> Box<dyn Condition<SP>> {
    use mahf::conditions::common::{ChangeOf, DeltaEqChecker, PartialEqChecker};
    let (name, ps, kids) = node_parts(n);
    match name {
        "LessThanN" => match node_parts(&kids[0]).0 {
            "PopulationSizeLens" => LessThanN::new(pu(ps, 0), PopulationSizeLens::<SP>::new()),
            _ => with_u32_lens!(&kids[0], |L| LessThanN::new(pu(ps, 0), <L>::default())),
        },
        "EveryN" => match node_parts(&kids[0]).0 {
            "PopulationSizeLens" => EveryN::new(pu(ps, 0), PopulationSizeLens::<SP>::new()),
            _ => with_u32_lens!(&kids[0], |L| EveryN::new(pu(ps, 0), <L>::default())),
        },
        "ChangeOf" => {
            let (cn, cps, _) = node_parts(&kids[0]);
            let checker: Box<dyn mahf::conditions::common::EqualityChecker<u32>> = match cn {
                "PartialEqChecker" => Box::new(PartialEqChecker),
                _ => DeltaEqChecker::new(pu(cps, 0)),
            };
            with_u32_lens!(&kids[1], |L| ChangeOf::new(checker, <L>::default()))
        }
        "RandomChance" => RandomChance::new(pf(ps, 0)),
        "Not" => Not::new(mk_cond(&kids[0])),
        "And" => And::new(node_parts(&kids[0]).2.iter().map(mk_cond).collect::<Vec<_>>()),
        "Or" => Or::new(node_parts(&kids[0]).2.iter().map(mk_cond).collect::<Vec<_>>()),
        _ => panic!("cond {name}"),
    }
}
fn mk_comp(n: &Sx) -> Box<dyn Component<SP>> {
    use mahf::components::mapping::{Linear, Polynomial};
    use mahf::components::swarm::{bh::BlackHoleParticlesUpdate, fa::FireflyPositionsUpdate, pso::PersonalBestParticlesInit};
    let (name, ps, kids) = node_parts(n);
    match name {
        "seq" => Block::new(kids.iter().map(mk_comp).collect::<Vec<_>>()),
        "Loop" => Loop::new(mk_cond(&kids[0]), mk_comp(&kids[1])),
        "Branch" => if node_parts(&kids[2]).0 == "none" { Branch::new(mk_cond(&kids[0]), mk_comp(&kids[1])) }
                    else { Branch::new_with_else(mk_cond(&kids[0]), mk_comp(&kids[1]), mk_comp(&kids[2])) },
        "Scope" => Scope::new_with(|_| Ok(()), mk_comp(&kids[0]), |_, _| Ok(())),
        "RandomSpread" => initialization::RandomSpread::new(pu(ps, 0)),
        "NormalMutation" => with_id!(&kids[0], |I| mutation::NormalMutation::<I>::new_with_id(pf(ps, 0), pf(ps, 1))),
        "UniformMutation" => with_id!(&kids[0], |I| mutation::UniformMutation::<I>::new_with_id(pf(ps, 0), pf(ps, 1))),
        "Tournament" => selection::Tournament::new(pu(ps, 0), pu(ps, 1)),
        "FullyRandom" => selection::FullyRandom::new(pu(ps, 0)),
        "LinearRank" => selection::LinearRank::new(pu(ps, 0)),
        "RouletteWheel" => selection::RouletteWheel::new(pu(ps, 0), pf(ps, 1)),
        "MuPlusLambda" => replacement::MuPlusLambda::new(pu(ps, 0)),
        "Generational" => replacement::Generational::new(pu(ps, 0)),
        "Merge" => replacement::Merge::new(),
        "DiscardOffspring" => replacement::DiscardOffspring::new(),
        "PopulationEvaluator" => with_id!(&kids[0], |I| mahf::components::evaluation::PopulationEvaluator::<I>::new_with()),
        "FireflyPositionsUpdate" => with_id!(&kids[0], |I| FireflyPositionsUpdate::<I>::new_with_id(pf(ps, 0), pf(ps, 1), pf(ps, 2))),
        "BlackHoleParticlesUpdate" => with_id!(&kids[0], |I| BlackHoleParticlesUpdate::<I>::new_with_id()),
        "PersonalBestParticlesInit" => with_id!(&kids[0], |I| PersonalBestParticlesInit::<I>::new()),
        "Linear" => with_f64in!(&kids[0], |LI| with_f64out!(&kids[1], |LO| Linear::new(pf(ps, 0), pf(ps, 1), <LI>::default(), <LO>::default()))),
        "Polynomial" => with_f64in_p!(&kids[0], |LI| with_f64out_p!(&kids[1], |LO| Polynomial::new(pf(ps, 0), pf(ps, 1), pf(ps, 2), <LI>::default(), <LO>::default()))),
        "BestIndividualUpdate" => mahf::components::evaluation::BestIndividualUpdate::new(),
        "Logger" => Logger::new(),
        "Noop" => Noop::new(),
        _ => panic!("comp {name}"),
    }
}
fn ser_tree(n: &Sx, tag: &str, pre: RonPre) -> Ser3 {
    match catch(|| Configuration::<SP>::new(mk_comp(n))) {
        None => (Err(()), Err(()), false, Err(()), Err(())),
        Some(config) => {
            let (r, j, t) = (ron_of_pre(&config, tag, pre), json_of(&config), tree_of(&config));
            let cl = config.clone();
            let ceq = ron_of(&cl, "gc") == r && json_of(&cl) == j && tree_of(&cl) == t;
            let rt = ron_tree(&r);
            (r, j, ceq, t, rt)
        }
    }
}

const UVALS: [&str; 9] = ["0", "1", "2", "3", "5", "8", "300", "70000", "4294967295"];
const FVALS: [f64; 10] = [0.1, 0.25, 0.5, 1.0, 2.0, 0.0, 0.3, 0.1 + 0.2, 1.0 / 3.0, 1.2345678e-7];
/// (name, parameter kinds, extra child category) — `u` u32, `f` f64
const LEAVES: [(&str, &str, &str); 20] = [
    ("RandomSpread", "u", ""), ("NormalMutation", "ff", "phid"), ("UniformMutation", "ff", "phid"), ("Tournament", "uu", ""),
    ("FullyRandom", "u", ""), ("LinearRank", "u", ""), ("RouletteWheel", "uf", ""), ("MuPlusLambda", "u", ""),
    ("Generational", "u", ""), ("Merge", "", ""), ("DiscardOffspring", "", ""), ("PopulationEvaluator", "", "id"),
    ("BestIndividualUpdate", "", ""), ("Logger", "", ""), ("Noop", "", ""),
    ("FireflyPositionsUpdate", "fff", "id"), ("BlackHoleParticlesUpdate", "", "id"), ("PersonalBestParticlesInit", "", "id"),
    ("Linear", "ff", "map"), ("Polynomial", "fff", "map_p"),
];
fn gen_params(r: &mut Sm, kinds: &str) -> Vec<String> {
    kinds.chars().map(|c| if c == 'u' { r.pick(&UVALS).to_string() } else { fx(*r.pick(&FVALS)) }).collect()
}
fn pick_menu(r: &mut Sm, cat: &'static str) -> T { menu(cat, r.below(menu_len(cat) as u64) as usize) }
fn leaf_of(r: &mut Sm, i: usize, default_types: bool) -> T {
    let (n, k, extra) = LEAVES[i];
    let kids = match extra {
        "" => vec![],
        "map" => if default_types { vec![menu("f64in", 0), menu("f64out", 0)] } else { vec![pick_menu(r, "f64in"), pick_menu(r, "f64out")] },
        "map_p" => if default_types { vec![menu("f64in_p", 0), menu("f64out_p", 0)] } else { vec![pick_menu(r, "f64in_p"), pick_menu(r, "f64out_p")] },
        cat => if default_types || r.chance(1, 2) { vec![menu(cat, 0)] } else { vec![pick_menu(r, cat)] },
    };
    T::new(n, gen_params(r, k), kids)
}
fn gen_leaf(r: &mut Sm) -> T { let i = r.below(LEAVES.len() as u64) as usize; leaf_of(r, i, false) }
fn gen_u32_lens(r: &mut Sm) -> T {
    match r.below(8) { 0..=2 => u32_lens(0), 3 => u32_lens(1), 4 => pop_size_lens(), _ => pick_menu(r, "u32lens") }
}
fn gen_cond(r: &mut Sm, depth: u32) -> T {
    let c = if depth == 0 { r.below(4) } else { r.below(7) };
    match c {
        0 => T::new("LessThanN", vec![r.pick(&UVALS).to_string()], vec![gen_u32_lens(r)]),
        1 => T::new("EveryN", vec![r.pick(&UVALS).to_string()], vec![gen_u32_lens(r)]),
        2 => T::new("RandomChance", vec![fx(*r.pick(&FVALS))], vec![]),
        3 => {
            let checker = if r.chance(1, 2) { T::new("PartialEqChecker", vec![], vec![]) } else { T::new("DeltaEqChecker", vec![r.pick(&UVALS).to_string()], vec![]) };
            T::new("ChangeOf", vec![], vec![checker, pick_menu(r, "u32lens")])
        }
        4 => T::new("Not", vec![], vec![gen_cond(r, depth - 1)]),
        5 => T::new("And", vec![], vec![seq((0..r.below(3)).map(|_| gen_cond(r, depth - 1)).collect()).cat("condseq")]),
        _ => T::new("Or", vec![], vec![seq((0..r.below(3)).map(|_| gen_cond(r, depth - 1)).collect()).cat("condseq")]),
    }
}
fn gen_block(r: &mut Sm, depth: u32) -> T {
    let n = r.below(4);
    seq((0..n).map(|_| gen_comp(r, depth)).collect())
}
fn gen_comp(r: &mut Sm, depth: u32) -> T {
    if depth == 0 || r.chance(1, 2) { return gen_leaf(r); }
    match r.below(5) {
        0 => T::new("Loop", vec![], vec![gen_cond(r, 2), gen_block(r, depth - 1)]),
        1 => T::new("Branch", vec![], vec![gen_cond(r, 2), gen_block(r, depth - 1), none_t()]),
        2 => T::new("Branch", vec![], vec![gen_cond(r, 2), gen_block(r, depth - 1), gen_block(r, depth - 1)]),
        3 => T::new("Scope", vec![], vec![gen_block(r, depth - 1)]),
        _ => gen_block(r, depth - 1),
    }
}
const COND_NAMES: [&str; 7] = ["LessThanN", "EveryN", "RandomChance", "ChangeOf", "Not", "And", "Or"];
/// Changes exactly one parameter value (→ "param"), exactly one type parameter (→ "typaram-…") or
/// exactly one node (→ "node"); `None` if the chosen node offers nothing to change.
fn mutate(r: &mut Sm, t: &T) -> Option<(T, &'static str)> {
    let mut t2 = t.clone();
    let mut idx = r.below(t.count() as u64) as usize;
    let node = t2.nth_mut(&mut idx)?;
    let what = r.below(4);
    if node.cat == "condseq" {
        // one operand more / one fewer
        if !node.kids.is_empty() && r.chance(1, 2) {
            let i = r.below(node.kids.len() as u64) as usize;
            node.kids.remove(i);
        } else {
            let i = r.below(node.kids.len() as u64 + 1) as usize;
            node.kids.insert(i, gen_cond(r, 1));
        }
        return Some((t2, "node"));
    }
    if !node.cat.is_empty() && (what == 3 || node.kids.is_empty()) {
        // another instantiation of the same lens / identifier wrapper: only the type parameter differs
        let cat = node.cat;
        let cands: Vec<T> = (0..menu_len(cat)).map(|i| menu(cat, i)).filter(|m| m.name == node.name && *m != *node).collect();
        if cands.is_empty() { return None; }
        *node = r.pick(&cands).clone();
        return Some((t2, match cat { "id" => "typaram-id", "phid" => "typaram-phantom", _ => "typaram-lens" }));
    }
    let plain: Vec<usize> = (0..node.params.len()).filter(|i| !node.params[*i].starts_with('(')).collect();
    if what == 0 && !plain.is_empty() {
        let i = *r.pick(&plain);
        let old = node.params[i].clone();
        let pool: Vec<String> = if old.starts_with('x') { FVALS.iter().map(|f| fx(*f)).collect() } else { UVALS.iter().map(|u| u.to_string()).collect() };
        let others: Vec<&String> = pool.iter().filter(|v| **v != old).collect();
        node.params[i] = (*r.pick(&others)).clone();
        return Some((t2, "param"));
    }
    if what == 1 {
        // same-shaped node of another type
        let swaps: [(&str, &str); 14] = [("MuPlusLambda", "Generational"), ("Generational", "MuPlusLambda"), ("Merge", "DiscardOffspring"),
            ("DiscardOffspring", "Noop"), ("Noop", "Logger"), ("Logger", "BestIndividualUpdate"), ("BestIndividualUpdate", "Merge"),
            ("NormalMutation", "UniformMutation"), ("UniformMutation", "NormalMutation"), ("And", "Or"), ("Or", "And"),
            ("LessThanN", "EveryN"), ("BlackHoleParticlesUpdate", "PersonalBestParticlesInit"), ("PersonalBestParticlesInit", "PopulationEvaluator")];
        if let Some((_, to)) = swaps.iter().find(|(from, _)| *from == node.name) {
            node.name = to.to_string();
            return Some((t2, "node"));
        }
        if node.name == "FullyRandom" { node.name = "LinearRank".into(); return Some((t2, "node")); }
        if node.name == "LinearRank" { node.name = "FullyRandom".into(); return Some((t2, "node")); }
    }
    if what == 2 && COND_NAMES.contains(&node.name.as_str()) {
        // one negation more / one fewer
        if node.name == "Not" && r.chance(1, 2) { let inner = node.kids[0].clone(); *node = inner; }
        else { let inner = node.clone(); *node = T::new("Not", vec![], vec![inner]); }
        return Some((t2, "node"));
    }
    if node.name == "Scope" {
        // the same body without its own scope
        node.name = "seq".into();
        return Some((t2, "node"));
    }
    // structural: one more / one fewer child in a sequence of components
    if node.name == "seq" {
        if !node.kids.is_empty() && r.chance(1, 2) {
            let i = r.below(node.kids.len() as u64) as usize;
            node.kids.remove(i);
        } else if r.chance(1, 6) && node.kids.len() == 1 && node.kids[0].name == "seq" {
            // a sequence nested once more
            let inner = node.clone();
            node.kids = vec![inner];
        } else {
            let i = r.below(node.kids.len() as u64 + 1) as usize;
            node.kids.insert(i, gen_leaf(r));
        }
        return Some((t2, "node"));
    }
    if node.name == "Branch" {
        node.kids[2] = if node.kids[2].name == "none" { seq(vec![]) } else { none_t() };
        return Some((t2, "node"));
    }
    None
}
/// Site of a pair case: by the kind of difference.
fn pair_site(kind: &str) -> String {
    match kind { "typaram-lens" => "cfg-typair-lens".into(), "typaram-id" => "cfg-typair-id".into(), "typaram-phantom" => "cfg-typair-phantom".into(), _ => "cfg-pair".into() }
}
fn pair_out_trees(a: &Ser3, bb: &Ser3, json_relevant: bool) -> String {
    let base = pair_out(a, bb, json_relevant);
    let tr = |t: &Result<String, ()>| t.clone().unwrap_or_else(|_| "err".into());
    format!("{} (ta {}) (tb {}) (ra {}) (rb {}))", &base[..base.len() - 1], tr(&a.3), tr(&bb.3), tr(&a.4), tr(&bb.4))
}

fn run_cfg(input: &Sx) -> String {
    let it = input.items().unwrap();
    match it[1].atom().unwrap() {
        "template" => {
            let (name, v, iters) = (it[2].atom().unwrap(), it[3].nat().unwrap() as u32, it[4].nat().unwrap() as u32);
            with_template(name, v, 0, iters, SerTemplate).unwrap_or_else(|_| "(ser ctor-err)".into())
        }
        "tpair" => {
            let name = it[2].atom().unwrap();
            let a = with_template(name, it[3].nat().unwrap() as u32, 0, it[4].nat().unwrap() as u32, SerBoth(0));
            let bb = with_template(name, it[5].nat().unwrap() as u32, 0, it[6].nat().unwrap() as u32, SerBoth(300_000));
            match (a, bb) {
                (Ok(a), Ok(bb)) => pair_out(&a, &bb, true),
                _ => "(pair ctor-err)".into(),
            }
        }
        "pair" => {
            let kind = it[2].atom().unwrap();
            // `a` replaces junk, `b` is written to the path that holds the export of `a` (longer, shorter or equally long)
            let a = ser_tree(&it[3], "ga", RonPre::Junk(20_000));
            let bb = match &a.0 { Ok(t) => ser_tree(&it[4], "ga", RonPre::Text(t)), Err(()) => ser_tree(&it[4], "ga", RonPre::Fresh) };
            pair_out_trees(&a, &bb, kind == "same" || kind == "param" || kind.starts_with("typaram"))
        }
        other => panic!("cfg {other}"),
    }
}

// ------------------------------------------------------------------------------------------------

fn run_case(input: &Sx) -> String {
    match input.head().map(|h| h.0) {
        Some("lg") => run_program(input),
        Some("lgs") => run_runs(input),
        Some("tl") => run_template_log(input),
        Some("fl") => run_floats(input),
        Some("cfg") => run_cfg(input),
        Some("exp") => run_exp(input),
        _ => panic!("unknown case"),
    }
}
fn site_of(input: &Sx, output: &str) -> String {
    let it = input.items().unwrap();
    match it[0].atom().unwrap() {
        // a run that comes AFTER a failed run on the same state, or only completed runs / a failure at the very end
        "lgs" => {
            let n_runs = it[2].items().map(|r| r.len() - 1).unwrap_or(0);
            let outs: Vec<String> = Sx::parse(output).and_then(|o| o.items().and_then(|i| i.get(1).and_then(|x| x.head().map(|(_, a)| a.iter().map(|y| y.render()).collect())))).unwrap_or_default();
            let first_err = outs.iter().position(|o| o == "err");
            if first_err.map(|i| i + 1 < n_runs).unwrap_or(false) { "logger-rerun-after-err".into() } else { "logger-runs".into() }
        }
        "lg" => {
            let (_, tree) = it[2].head().unwrap();
            if has_root_loop(tree) { "logger".into() } else { "logger-noloop".into() }
        }
        "tl" => "template-log".into(),
        "exp" => {
            let fresh = it[1].items().map(|p| p.len() == 1).unwrap_or(false) && it[2].items().map(|c| c.len() == 2).unwrap_or(false);
            if fresh { "exp".into() } else { "exp-reuse".into() }
        }
        "fl" => if it[1..].iter().all(|v| v.float().map(|f| f.is_finite()).unwrap_or(false)) { "logger-float".into() } else { "logger-float-nonfinite".into() },
        _ => if it[1].atom() == Some("pair") { pair_site(it[2].atom().unwrap()) } else { format!("cfg-{}", it[1].atom().unwrap()) },
    }
}

fn gen_trig(r: &mut Sm) -> String {
    match r.below(8) {
        0 | 1 => "always".into(),
        2 => "never".into(),
        3 | 4 => format!("(every {})", r.range(0, 3)),
        5 => "(not (every 2))".into(),
        6 => format!("(not {})", *r.pick(&["always", "never"])),
        _ => {
            let n = r.below(7);
            let mut v = vec!["script".to_string()];
            for _ in 0..n { v.push((*r.pick(&["t", "t", "f", "f", "t", "f", "e"])).into()); }
            list(v)
        }
    }
}
fn gen_ext(r: &mut Sm) -> String {
    match r.below(10) {
        0 => "iterval".into(), 1 => "iterid".into(), 2 => "evals".into(), 3 => "best".into(),
        4 => "xid".into(), 5 => "xval".into(),
        6 => format!("(named {} x)", r.below(3)),
        7 => format!("(named {} iter)", r.below(3)),
        _ => format!("(named {} (const {}))", r.below(3), r.below(10)),
    }
}
fn gen_nodes(r: &mut Sm, depth: u32, len: u64) -> Vec<String> {
    (0..len).map(|_| {
        let c = r.below(if depth == 0 { 6 } else { 11 });
        match c {
            10 => { let k = r.below(6); let l = r.range(1, 3); tagged(&format!("ifx {k}"), gen_nodes(r, depth - 1, l)) }
            0..=2 => "(log)".to_string(),
            3 => format!("(setx {})", r.below(10)),
            4 | 5 => format!("(addx {})", r.range(1, 3)),
            6..=8 => { let n = r.below(5); let l = r.range(1, 3); tagged(&format!("loop {n}"), gen_nodes(r, depth - 1, l)) }
            _ => { let l = r.range(1, 3); tagged("scope", gen_nodes(r, depth - 1, l)) }
        }
    }).collect()
}

/// States of an export path before the export: missing, the same export, junk and older exports that are
/// shorter / about as long / (much) longer than the new export.
const PRE_MENU: [&str; 14] = ["fresh", "same", "(junk 0)", "(junk 1)", "(junk 17)", "(junk 300)", "(junk 5000)", "(junk 40000)",
    "(older 0)", "(older 1)", "(older 3)", "(older 12)", "(older 60)", "(older 400)"];
fn gen_pre(r: &mut Sm) -> String { format!("(pre {} {})", r.pick(&PRE_MENU), r.pick(&PRE_MENU)) }

/// Rule sets of the `exp*` cases (no scripted failure unless asked for: a failing run aborts the experiment).
fn gen_exp_rules(r: &mut Sm, allow_err: bool) -> String {
    let nr = r.range(1, 3);
    tagged("rules", (0..nr).map(|_| {
        let t = loop { let t = gen_trig(r); if allow_err || !t.contains(" e") { break t; } };
        format!("(r {} {})", t, gen_ext(r))
    }))
}
/// A program with a loop at the root.
fn gen_exp_tree(r: &mut Sm) -> String {
    let len = r.range(1, 3);
    let mut tree = gen_nodes(r, 2, len);
    if !tree.iter().any(|t| t.starts_with("(loop")) {
        let n = r.below(6);
        let l = r.range(1, 3);
        let body = gen_nodes(r, 1, l);
        let pos = r.below(tree.len() as u64 + 1) as usize;
        tree.insert(pos, tagged(&format!("loop {n}"), body));
    }
    tagged("tree", tree)
}
/// The same text with exactly one number replaced by another one (a parameter value of one node).
fn change_one_number(r: &mut Sm, t: &str) -> String {
    let b = t.as_bytes();
    let mut spans = vec![];
    let mut i = 0;
    while i < b.len() {
        if b[i].is_ascii_digit() { let st = i; while i < b.len() && b[i].is_ascii_digit() { i += 1; } spans.push((st, i)); } else { i += 1; }
    }
    if spans.is_empty() { return t.to_string(); }
    let (st, en) = *r.pick(&spans);
    let old: u64 = t[st..en].parse().unwrap();
    let new = loop { let v = *r.pick(&[0u64, 1, 2, 3, 4, 5, 7, 12, 40]); if v != old { break v; } };
    format!("{}{}{}", &t[..st], new, &t[en..])
}
fn exp_call(rules: &str, tree: &str, runs: u64, log: bool, probs: &[&str]) -> String {
    format!("(call {rules} {tree} {runs} {} {})", b(log), tagged("probs", probs.iter().map(|p| p.to_string())))
}

fn main() {
    quiet_panics();
    {
        let v: Vec<String> = std::env::args().collect();
        if v.len() == 5 && v[1] == "--exp-child" {
            // one input per line of v[2] → one output per line of v[4]; every case in its own (fresh) folder under v[3]
            let inputs = std::fs::read_to_string(&v[2]).expect("exp inputs");
            let mut res = String::new();
            for (i, line) in inputs.lines().enumerate() {
                let sx = Sx::parse(line).expect("bad exp input");
                let dir = std::path::Path::new(&v[3]).join(format!("e{i}"));
                let one = catch(|| exp_child(&sx, &dir)).unwrap_or_else(|| "(exp child-panic)".into());
                let _ = std::fs::remove_dir_all(&dir);
                res.push_str(&one);
                res.push('\n');
            }
            std::fs::write(&v[4], res).expect("write result");
            let _ = std::fs::remove_dir_all(tmp_dir());
            return;
        }
    }
    let a = args();
    let mut out = Out::new();
    if let Some(r) = a.replay {
        let sx = Sx::parse(&r).expect("bad replay input");
        let o = run_case(&sx);
        out.case(&site_of(&sx, &o), &r, &o);
        out.finish();
        let _ = std::fs::remove_dir_all(tmp_dir());
        return;
    }
    let mut emit = |input: String| {
        let sx = Sx::parse(&input).unwrap();
        let o = run_case(&sx);
        out.case(&site_of(&sx, &o), &input, &o);
    };
    let mut r = Sm::new(a.seed);

    // 1. log configurations × logger placements × iteration counts 0..5
    let rule_sets: Vec<&str> = vec![
        "noconfig",
        "(rules)",
        "(rules (r always xid))",
        "(rules (r never xid))",
        "(rules (r always iterval))",
        "(rules (r always xid) (r always iterid) (r always iterval))",
        "(rules (r (every 2) xid) (r always (named 1 iter)))",
        "(rules (r (every 2) xval) (r (every 3) (named 0 x)))",
        "(rules (r always (named 1 (const 7))) (r always (named 1 (const 9))))",
        "(rules (r (every 2) (named 1 (const 7))) (r always (named 1 x)) (r always (named 1 (const 3))))",
        "(rules (r never (named 1 (const 7))) (r always (named 1 (const 9))) (r always xid) (r always xval))",
        "(rules (r always evals) (r always best))",
        "(rules (r (every 2) evals) (r (not (every 2)) best) (r never xid))",
        "(rules (r (script t f t f t f t f) xid))",
        "(rules (r (script f f t) xid) (r (script t t f f t) (named 2 iter)))",
        "(rules (r (script t t e) xid))",
        "(rules (r always xid) (r (script f e) xval) (r always (named 0 (const 1))))",
        "(rules (r (not never) (named 0 x)) (r (not always) (named 1 x)))",
        "(rules (r (every 1) iterid) (r (every 1) xid))",
        "(rules (r (every 3) (named 2 (const 4))) (r (every 2) (named 2 (const 5))) (r always (named 2 (const 6))))",
        "(rules (many (every 2) xid iterval (named 0 x)) (r always xval))",
        "(rules (many always evals best xid) (many (not (every 3)) (named 1 iter) (named 1 x)))",
        "(rules (r always (named 3 (const 1))) (many always xid xval) clear (r (every 2) xid))",
        "(rules (r always xid) clear)",
        "(rules (r (every 0) xid) (r always (named 0 iter)) (r (not (every 0)) (named 1 x)))",
        // ChangeOf triggers (initialised by Logger::init); only in programs without a scope
        "(rules (r changed xid))",
        "(rules (r (every 2) (named 0 x)) (r changed xval) (r never xid))",
        "(rules (r (not changed) (named 1 iter)) (r always (named 2 (const 3))))",
    ];
    let placements: Vec<Box<dyn Fn(u64) -> String>> = vec![
        Box::new(|n| format!("(tree (log) (loop {n} (addx 1)))")),
        Box::new(|n| format!("(tree (setx 0) (log) (loop {n} (addx 1)))")),
        Box::new(|n| format!("(tree (setx 0) (loop {n} (addx 1) (log)))")),
        Box::new(|n| format!("(tree (loop {n} (log) (setx 4)))")),
        Box::new(|n| format!("(tree (setx 1) (loop {n} (addx 2)) (log))")),
        Box::new(|n| format!("(tree (setx 0) (loop {n} (log) (addx 1) (log)))")),
        Box::new(|n| format!("(tree (setx 0) (log) (loop {n} (log) (addx 1)) (log))")),
        Box::new(|n| format!("(tree (setx 0) (loop {n} (scope (log) (addx 1))))")),
        Box::new(|n| format!("(tree (scope (setx 3) (loop {n} (log) (addx 1))) (log) (loop 1 (log)))")),
        Box::new(|n| format!("(tree (loop 2 (scope (setx 5) (loop {n} (log) (addx 1))) (log)))")),
        Box::new(|n| format!("(tree (setx 0) (loop {n} (loop 2 (log) (addx 1))))")),
        Box::new(|n| format!("(tree (setx 0) (loop {n} (log)) (loop {} (addx 1) (log)))", n + 2)),
        Box::new(|n| format!("(tree (setx 0) (loop {n} (addx 1) (ifx 2 (log))))")),
        Box::new(|n| format!("(tree (setx 3) (ifx 1 (loop {n} (log) (addx 1))) (ifx 9 (log)) (log))")),
        // no loop counter reachable from the root
        Box::new(|n| format!("(tree (setx {n}) (ifx 2 (log)))")),
        Box::new(|_| "(tree (log))".to_string()),
        Box::new(|n| format!("(tree (setx {n}) (log) (log))")),
        Box::new(|_| "(tree (scope (setx 2) (log)))".to_string()),
        Box::new(|n| format!("(tree (scope (loop {n} (log))) (log))")),
        Box::new(|n| format!("(tree (scope (setx 1) (loop {n} (log) (addx 1))))")),
    ];
    let mut k = 0usize;
    for rs in &rule_sets {
        for p in &placements {
            for n in 0..=5u64 {
                let tree = p(n);
                if rs.contains("changed") && tree.contains("(scope") { continue; }
                // every second case exports to paths that already hold something (walking through all pairs of the menu)
                k += 1;
                if k % 2 == 0 {
                    let j = (k / 2) % (PRE_MENU.len() * PRE_MENU.len());
                    emit(format!("(lg {} {} (pre {} {}))", rs, tree, PRE_MENU[j % PRE_MENU.len()], PRE_MENU[j / PRE_MENU.len()]));
                } else {
                    emit(format!("(lg {} {})", rs, tree));
                }
            }
        }
    }
    // 2. random programs and rule sets
    let n_rand = if a.thorough { 100000 } else { 2500 };
    for _ in 0..n_rand {
        let len = r.range(1, 4);
        let mut tree = gen_nodes(&mut r, 2, len);
        if r.chance(9, 10) && !tree.iter().any(|t| t.starts_with("(loop")) {
            // (a loop only inside a branch also gives the root a counter; adding another loop is harmless)
            let n = r.below(6);
            let l = r.range(1, 3);
            let body = gen_nodes(&mut r, 1, l);
            let pos = r.below(tree.len() as u64 + 1) as usize;
            tree.insert(pos, tagged(&format!("loop {n}"), body));
        }
        // at most one ChangeOf trigger per rule set, and only in programs without a scope
        let mut changed_left = !tree.iter().any(|t| t.contains("(scope"));
        let nr = r.below(5);
        let rules = if r.chance(1, 25) { "noconfig".to_string() } else {
            let items: Vec<String> = (0..nr).map(|_| match r.below(12) {
                0 => "clear".to_string(),
                1 | 2 => {
                    // with_many clones the trigger: only stateless triggers here
                    let t = loop { let t = gen_trig(&mut r); if !t.contains("script") { break t; } };
                    let k = r.range(1, 3);
                    tagged(&format!("many {t}"), (0..k).map(|_| gen_ext(&mut r)))
                }
                3 if changed_left => {
                    changed_left = false;
                    format!("(r {} {})", *r.pick(&["changed", "changed", "(not changed)"]), gen_ext(&mut r))
                }
                _ => format!("(r {} {})", gen_trig(&mut r), gen_ext(&mut r)),
            }).collect();
            tagged("rules", items)
        };
        if r.chance(1, if a.thorough { 5 } else { 2 }) { emit(format!("(lg {} {} {})", rules, tagged("tree", tree), gen_pre(&mut r))); }
        else { emit(format!("(lg {} {})", rules, tagged("tree", tree))); }
    }

    // 2a. SEQUENCES of runs on one caller-owned state (Configuration::run again on the same State), with and
    //     without failing runs in between: scripted flaky triggers, shipped triggers that fail while their source
    //     is missing (ChangeOf over a missing X, EveryN::iterations before any Loop inserted the counter)
    {
        let run_rule_sets: Vec<&str> = vec![
            "noconfig",
            "(rules)",
            "(rules (r always xid))",
            "(rules (r (every 2) xid) (r always (named 1 iter)))",
            "(rules (r (script t t e t t t t t t t t t) xid))",
            "(rules (r always xid) (r (script f e f f e) xval) (r always (named 0 (const 1))))",
            "(rules (r (script e) xid) (r (script t e t f t) iterval))",
            "(rules (r (script t f t e) (named 2 x)) (r (not (script f f e)) (named 1 iter)) (r never xid))",
            "(rules (r changed xid))",
            "(rules (r (every 1) (named 0 iter)) (r always xid))",
            "(rules (r (every 2) xid) (r changed (named 1 x)) (r always evals))",
            "(rules (r (not changed) (named 1 iter)) (r (script t t t e) (named 2 (const 3))))",
        ];
        let seqs: Vec<Box<dyn Fn(u64) -> Vec<String>>> = vec![
            Box::new(|n| vec![format!("(run (setx 0) (loop {n} (log) (addx 1)))")]),
            Box::new(|n| vec![format!("(run (setx 0) (loop {n} (log) (addx 1)))"); 2]),
            Box::new(|n| vec![format!("(run (setx 0) (loop {n} (log) (addx 1)))"); 3]),
            Box::new(|n| vec!["(run (log))".into(), "(run (setx 1) (log))".into(), format!("(run (loop {n} (log) (addx 1)))")]),
            Box::new(|n| vec![format!("(run (log) (loop {n} (addx 1)))"), format!("(run (setx 2) (loop {n} (log)))")]),
            Box::new(|n| vec![format!("(run (setx 0) (loop {n} (log) (addx 1)))"), "(run (log))".into(), "(run (addx 1) (log) (log))".into()]),
            Box::new(|n| vec![format!("(run (loop {n} (log)))"), format!("(run (setx 3) (loop {} (log) (addx 1)) (log))", n + 1)]),
            Box::new(|n| vec!["(run)".into(), format!("(run (setx 1) (loop {n} (log) (log)))"), "(run)".into()]),
            Box::new(|n| vec![format!("(run (scope (setx 1) (loop {n} (log))))"), "(run (log) (loop 2 (log)))".into()]),
            Box::new(|n| vec![format!("(run (setx 0) (loop 2 (scope (loop {n} (log) (addx 1))) (log)))"), format!("(run (loop {n} (ifx 0 (log)) (addx 2)))")]),
        ];
        for rs in &run_rule_sets {
            for sq in &seqs {
                for n in 0..=3u64 {
                    let runs = sq(n);
                    if rs.contains("changed") && runs.iter().any(|t| t.contains("(scope")) { continue; }
                    emit(format!("(lgs {} {})", rs, tagged("runs", runs)));
                }
            }
        }
        let n_runs_rand = if a.thorough { 30000 } else { 900 };
        for _ in 0..n_runs_rand {
            let k = r.range(2, 3);
            let with_changed = r.chance(1, 4);
            let runs: Vec<String> = (0..k).map(|_| {
                let len = r.below(4);
                let mut tree = gen_nodes(&mut r, 2, len);
                if with_changed { tree.retain(|t| !t.contains("(scope")); }
                if r.chance(7, 10) && !tree.iter().any(|t| t.starts_with("(loop")) {
                    let n = r.below(5);
                    let l = r.range(1, 3);
                    let mut body = gen_nodes(&mut r, 1, l);
                    if with_changed { body.retain(|t| !t.contains("(scope")); }
                    let pos = r.below(tree.len() as u64 + 1) as usize;
                    tree.insert(pos, tagged(&format!("loop {n}"), body));
                }
                tagged("run", tree)
            }).collect();
            let mut changed_left = with_changed;
            let nr = r.range(1, 4);
            let rules = if r.chance(1, 30) { "noconfig".to_string() } else {
                let items: Vec<String> = (0..nr).map(|_| {
                    if changed_left && r.chance(1, 2) {
                        changed_left = false;
                        return format!("(r {} {})", *r.pick(&["changed", "changed", "(not changed)"]), gen_ext(&mut r));
                    }
                    // failing triggers are the point: a script with an `e` in every second rule
                    let t = if r.chance(1, 2) {
                        let n = r.range(1, 8);
                        let mut v = vec!["script".to_string()];
                        for _ in 0..n { v.push((*r.pick(&["t", "t", "t", "f", "e"])).into()); }
                        if r.chance(1, 4) { format!("(not {})", list(v)) } else { list(v) }
                    } else { gen_trig(&mut r) };
                    format!("(r {} {})", t, gen_ext(&mut r))
                }).collect();
                tagged("rules", items)
            };
            emit(format!("(lgs {} {})", rules, tagged("runs", runs)));
        }
    }

    // 2b. float values through the exports (bit-exact), finite and non-finite
    let specials = [0.0f64, -0.0, 1.0, -1.5, 0.1, 1e300, -1e-300, 5e-324, f64::MAX, f64::MIN_POSITIVE, 1.0 / 3.0, 123456789.125];
    emit(tagged("fl", specials.iter().map(|v| fx(*v))));
    for _ in 0..(if a.thorough { 400 } else { 60 }) {
        let n = r.range(1, 6);
        emit(tagged("fl", (0..n).map(|_| {
            let f = f64::from_bits(r.next());
            fx(if f.is_finite() { f } else { r.unit() })
        })));
    }
    emit(tagged("fl", [fx(1.0), fx(f64::INFINITY)]));
    emit(tagged("fl", [fx(f64::NEG_INFINITY), fx(2.0)]));

    // 3. every template with a log configuration
    let tl_rules = |k1: u64, k2: u64, k3: u64| -> String {
        tagged("rules", [
            format!("(r (every {k1}) BestObjectiveValue lens)"),
            format!("(r (every {k2}) {N_EVAL} valueof)"),
            format!("(r (every {k3}) {N_ITER} valueof)"),
            format!("(r (every {k1}) {N_EVAL} idlens)"),
            format!("(r (every {k1}) {N_PROG} idlens)"),
            format!("(r (every {k2}) PopulationSize lens)"),
            format!("(r (every {k3}) c15::X idlens)"),
            format!("(r (every {k2}) {N_ITER} idlens)"),
            format!("(r (every {k3}) {N_EVAL} idlens)"),
            format!("(r (every {k2}) {N_EVAL} common)"),
            format!("(r (every {k2}) {N_PROG} common-2nd)"),
            format!("(r (every {k3}) {N_EVAL} common)"),
            format!("(r (every {k3}) {N_PROG} common-2nd)"),
            format!("(r (every {k1}) {N_ITER} auto)"),
        ])
    };
    let variants: Vec<u32> = if a.thorough { (0..N_VARIANTS).collect() } else { vec![(a.seed % N_VARIANTS as u64) as u32, ((a.seed + 1) % N_VARIANTS as u64) as u32] };
    for name in TEMPLATES {
        for &v in &variants {
            let reps = if a.thorough { 6 } else { 2 };
            for _ in 0..reps {
                let (k1, k2, k3) = (r.range(0, 3), r.range(1, 4), r.range(0, 5));
                let iters = r.below(8);
                let (inst, sd) = (r.below(N_INSTANCES as u64), r.below(1000));
                if r.chance(1, 2) { emit(format!("(tl {} {} {} {} {} {} {})", tl_rules(k1, k2, k3), name, v, inst, iters, sd, gen_pre(&mut r))); }
                else { emit(format!("(tl {} {} {} {} {} {})", tl_rules(k1, k2, k3), name, v, inst, iters, sd)); }
            }
        }
    }

    // 4. configuration export: all templates × variants; variant/iteration pairs; generated trees
    for name in TEMPLATES {
        for v in 0..N_VARIANTS {
            for iters in [0u32, 5] {
                emit(format!("(cfg template {name} {v} {iters})"));
            }
        }
        let pts: Vec<(u32, u32)> = (0..N_VARIANTS).flat_map(|v| [(v, 3u32), (v, 4u32)]).collect();
        for i in 0..pts.len() {
            for j in i..pts.len() {
                if i == j && i > 0 { continue; }
                emit(format!("(cfg tpair {name} {} {} {} {})", pts[i].0, pts[i].1, pts[j].0, pts[j].1));
            }
        }
    }
    // 4b. pairs that differ ONLY in a type parameter (lens target, identifier), each inside
    //     `while LessThanN::iterations(100) { … }`: every pair of every menu under every host component
    {
        let ctx = |inner: T| T::new("Loop", vec![], vec![T::new("LessThanN", vec!["100".into()], vec![u32_lens(0)]), seq(vec![inner])]);
        let mut hosts: Vec<(&'static str, Box<dyn Fn(T) -> T>)> = vec![];
        hosts.push(("u32lens", Box::new(|l| T::new("Branch", vec![], vec![T::new("LessThanN", vec!["7".into()], vec![l]), seq(vec![]), none_t()]))));
        hosts.push(("u32lens", Box::new(|l| T::new("Branch", vec![], vec![T::new("EveryN", vec!["3".into()], vec![l]), seq(vec![]), none_t()]))));
        hosts.push(("u32lens", Box::new(|l| T::new("Branch", vec![], vec![T::new("Not", vec![], vec![T::new("ChangeOf", vec![], vec![T::new("PartialEqChecker", vec![], vec![]), l])]), seq(vec![]), none_t()]))));
        hosts.push(("f64in", Box::new(|l| T::new("Linear", vec![fx(0.9), fx(0.1)], vec![l, f64out_lens(0)]))));
        hosts.push(("f64out", Box::new(|l| T::new("Linear", vec![fx(0.9), fx(0.1)], vec![f64in_lens(0), l]))));
        hosts.push(("f64in_p", Box::new(|l| T::new("Polynomial", vec![fx(0.9), fx(0.1), fx(2.0)], vec![l, menu("f64out_p", 0)]))));
        hosts.push(("f64out_p", Box::new(|l| T::new("Polynomial", vec![fx(0.9), fx(0.1), fx(2.0)], vec![menu("f64in_p", 1), l]))));
        hosts.push(("id", Box::new(|l| T::new("PopulationEvaluator", vec![], vec![l]))));
        hosts.push(("id", Box::new(|l| T::new("FireflyPositionsUpdate", vec![fx(0.2), fx(1.0), fx(0.5)], vec![l]))));
        hosts.push(("id", Box::new(|l| T::new("BlackHoleParticlesUpdate", vec![], vec![l]))));
        hosts.push(("id", Box::new(|l| T::new("PersonalBestParticlesInit", vec![], vec![l]))));
        hosts.push(("phid", Box::new(|l| T::new("NormalMutation", vec![fx(0.1), fx(0.5)], vec![l]))));
        hosts.push(("phid", Box::new(|l| T::new("UniformMutation", vec![fx(0.1), fx(0.5)], vec![l]))));
        for (cat, host) in &hosts {
            for i in 0..menu_len(cat) {
                for j in i..menu_len(cat) {
                    if i == j && i > 0 { continue; }
                    let (x, y) = (menu(cat, i), menu(cat, j));
                    let kind = if i == j { "same" } else if x.name != y.name { "node" }
                        else { match *cat { "id" => "typaram-id", "phid" => "typaram-phantom", _ => "typaram-lens" } };
                    emit(format!("(cfg pair {kind} {} {})", ctx(host(x)).render(), ctx(host(y)).render()));
                }
            }
        }
    }
    // 4c. random trees: a copy with exactly one value / type parameter / node changed, or none
    let n_pairs = if a.thorough { 20000 } else { 700 };
    for i in 0..n_pairs {
        let t = gen_block(&mut r, 3);
        if i % 10 == 0 {
            emit(format!("(cfg pair same {} {})", t.render(), t.render()));
            continue;
        }
        for _ in 0..8 {
            if let Some((t2, kind)) = mutate(&mut r, &t) {
                if t2 != t {
                    emit(format!("(cfg pair {kind} {} {})", t.render(), t2.render()));
                    break;
                }
            }
        }
    }
    // 5. experiments: sequences of `par_experiment` calls into one folder (run in batches, one child process each)
    let mut exp_inputs: Vec<String> = vec![];
    {
        let mut emit = |input: String| exp_inputs.push(input);
        let r1 = "(rules (r always xid) (r (every 2) (named 1 iter)))";
        let r2 = "(rules (r (every 2) xval))";
        let t = |n: u64, v: u64| format!("(tree (setx {v}) (loop {n} (log) (addx 1)))");
        let base = exp_call(r1, &t(3, 0), 2, true, &["p0", "p1"]);
        // a fresh folder
        emit(format!("(exp (pre) (calls {base}))"));
        emit(format!("(exp (pre) (calls {}))", exp_call(r1, &t(3, 0), 0, true, &["p0"])));
        emit(format!("(exp (pre) (calls {}))", exp_call(r1, &t(3, 0), 2, false, &["p0"])));
        emit(format!("(exp (pre) (calls {}))", exp_call("noconfig", &t(3, 0), 1, true, &["p0"])));
        emit(format!("(exp (pre) (calls {}))", exp_call(r1, &t(3, 0), 2, true, &[])));
        // the folder of an earlier experiment that differed in exactly one respect
        let seconds = [
            exp_call(r1, &t(5, 0), 2, true, &["p0", "p1"]),   // a parameter value: more iterations (longer logs)
            exp_call(r1, &t(1, 0), 2, true, &["p0", "p1"]),   // … fewer (shorter logs)
            exp_call(r1, &t(0, 0), 2, true, &["p0", "p1"]),   // … none (empty logs)
            exp_call(r1, &t(3, 4), 2, true, &["p0", "p1"]),   // another parameter value, logs equally long
            exp_call(r1, &t(40, 0), 2, true, &["p0", "p1"]),
            exp_call(r2, &t(3, 0), 2, true, &["p0", "p1"]),   // the same configuration, a sparser log
            exp_call(r1, &t(3, 0), 1, true, &["p0", "p1"]),   // fewer runs
            exp_call(r1, &t(3, 0), 3, true, &["p0", "p1"]),   // more runs
            exp_call(r1, &t(3, 0), 2, true, &["p1"]),         // fewer problems
            exp_call(r1, &t(3, 0), 2, true, &["p1", "p2"]),   // other problems
            exp_call(r1, &t(3, 0), 2, false, &["p0", "p1"]),  // no logs this time
            exp_call(r1, "(tree (setx 0) (loop 3 (log) (addx 1)) (log))", 2, true, &["p0", "p1"]),   // one node more
            exp_call(r1, "(tree (loop 3 (log) (addx 1)))", 2, true, &["p0", "p1"]),                   // one node fewer
            exp_call(r1, "(tree (setx 0) (loop 3 (scope (log)) (addx 1)))", 2, true, &["p0", "p1"]),  // other nesting
            base.clone(),                                     // the identical experiment again
        ];
        for s2 in &seconds {
            emit(format!("(exp (pre) (calls {base} {s2}))"));
            emit(format!("(exp (pre) (calls {s2} {base}))"));
        }
        // a folder that holds junk / older exports under the names the experiment writes to
        for kind in ["(junk 0)", "(junk 40)", "(junk 20000)", "(older 2)", "(older 300)"] {
            emit(format!("(exp (pre (cfgfile {kind})) (calls {base}))"));
            emit(format!("(exp (pre (logfile p0 0 {kind}) (logfile p1 1 {kind})) (calls {base}))"));
            emit(format!("(exp (pre (cfgfile {kind}) (logfile p0 1 {kind}) (logfile p0 7 {kind})) (calls {base} {}))", seconds[1]));
        }
        // a failing run aborts the experiment; the next experiment in the folder is on its own again
        let failing = exp_call("(rules (r (script t t e) xid))", &t(3, 0), 2, true, &["p0"]);
        emit(format!("(exp (pre) (calls {failing}))"));
        emit(format!("(exp (pre) (calls {failing} {base}))"));
        emit(format!("(exp (pre) (calls {base} {failing} {}))", seconds[1]));
        // random sequences
        let n_exp = if a.thorough { 2500 } else { 110 };
        let prob_sets: [&[&str]; 5] = [&["p0"], &["p0"], &["p0", "p1"], &["p1"], &["tag", "p0"]];
        for _ in 0..n_exp {
            let ncalls = r.range(1, 3);
            let mut calls: Vec<String> = vec![];
            let (mut rules, mut tree) = (String::new(), String::new());
            for i in 0..ncalls {
                // the next call: the same experiment with exactly one parameter value changed, with other rules, or another one altogether
                match if i == 0 { 9 } else { r.below(4) } {
                    0 | 1 => { tree = change_one_number(&mut r, &tree); }
                    2 => { rules = gen_exp_rules(&mut r, false); }
                    _ => { tree = gen_exp_tree(&mut r); let e = r.chance(1, 16); rules = gen_exp_rules(&mut r, e); }
                }
                // (a ChangeOf trigger is not generated here; `noconfig` sometimes)
                let rl = if r.chance(1, 20) { "noconfig".to_string() } else { rules.clone() };
                calls.push(exp_call(&rl, &tree, r.range(0, 3), !r.chance(1, 6), *r.pick(&prob_sets)));
            }
            let mut pre: Vec<String> = vec![];
            if r.chance(1, 3) {
                for _ in 0..r.range(1, 3) {
                    let kind = *r.pick(&["(junk 0)", "(junk 9)", "(junk 700)", "(junk 30000)", "(older 0)", "(older 5)", "(older 100)"]);
                    pre.push(if r.chance(1, 3) { format!("(cfgfile {kind})") } else { format!("(logfile {} {} {kind})", *r.pick(&["p0", "p1", "tag"]), r.below(3)) });
                }
            }
            emit(format!("(exp {} {})", tagged("pre", pre), tagged("calls", calls)));
        }
    }
    for chunk in exp_inputs.chunks(250) {
        for (input, res) in chunk.iter().zip(run_exp_batch(chunk)) {
            let sx = Sx::parse(input).unwrap();
            out.case(&site_of(&sx, &res), input, &res);
        }
    }
    out.finish();
    let _ = std::fs::remove_dir_all(tmp_dir());
}
