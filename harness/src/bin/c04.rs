//! C04 — population stack. Drives the real `Populations` (inside a real `State`, at the top level or inside
//! nested child scopes) and the stack utility components through histories; prints every return value and the
//! final stack. Individuals carry a unique tag as solution and an optional objective value; both are printed on
//! every read: `N` = evaluated with objective `N`, `(N M)` = evaluated with objective `M`, `(N u)` = not evaluated.
//!
//! Witnesses printed for the model: `(ok LOWER UPPER)` after a successful `SplitPopulationByObjectiveValue` (the order
//! of equal objective values is the sort's business), `(panic H)` after a panic inside a component (`H` = stack height
//! afterwards; whether the component had already popped is not promised anywhere).
//!
//! Programs: besides plain operations an element of `(ops …)` may be `(fail)` (a step returning `Err`), `(failing OP)`
//! (performs `OP`, then returns `Err`), `(try ITEM)` (the caller looks at the result and carries on) or a scope
//! `(cl ITEM*)` (`State::with_inner_state` closure chaining its steps with `?`), `(sc ITEM*)` (`Scope::new` executed as a
//! component), `(cf ITEM*)` (`ConfigurationBuilder::scope_` + `Configuration::run`), `(if ITEM*)` / `(mf ITEM*)`
//! (`Scope::new_with` with a failing `state_init` / `states_merge`). `RotatePopulations` on too low a stack is a real
//! component that returns `Err`. Inside a scope the first failing step ends the body; the top level carries on after
//! every result. One output per program node in program order: `skip` = never reached, `failed`, `sok` / `serr` /
//! `spanic` for a scope. A final read of the stack that panics is printed as `(stack panic)`.
//!
//! Shipped pop-process-push components: `(c-eval)` / `(c-eval-a)` = `PopulationEvaluator` with identifier `Global` / `A`
//! (sequential evaluator of `TagProblem`: objective = tag); `(c-comp NAME ARG*)` = a selection (`sel-*`, reads the
//! current population and pushes one), a replacement (`rep-*`, 2 -> 1), the real mutation / recombination drivers with
//! a harness operator (`mut-*`, `rec-*`, 1 -> 1), `ElitistArchiveUpdate` (`arch-upd`, 1 -> 1 untouched) and
//! `ElitistArchiveIntoPopulation` (`arch-into`). Output `(ok P*)` = the populations it put back (top first; witness:
//! WHAT a component puts back is not this property's business), `(err H)` / `(panic H)` = failed, height afterwards.
//! `(hold OP*)` / `(hold-err OP*)` = `State::holding::<Populations>` with the operations performed on the held stack
//! and the closure returning `Ok` / `Err`; outputs `sok` / `serr` for the call and one per operation.
use hcommon::problems::TagProblem;
use hcommon::*;
use mahf::components::utils::populations::*;
use mahf::state::common::Populations;
use mahf::components::Scope;
use mahf::components::{archive, evaluation::PopulationEvaluator, mutation, recombination, replacement, selection};
use mahf::components::recombination::OptionalPair;
use mahf::{Component, Configuration, ExecResult, Individual, Random, State};
use serde::Serialize;
use std::sync::{Arc, Mutex};

type P = TagProblem;

fn ind_s(i: &Individual<P>) -> String {
    let t = *i.solution();
    match i.get_objective() {
        None => format!("({t} u)"),
        Some(o) => {
            let v = o.value();
            if v == t as f64 { t.to_string() }
            else if v >= 0.0 && v.fract() == 0.0 && v < 1e18 { format!("({t} {})", v as u64) }
            else { format!("({t} {})", fx(v)) }
        }
    }
}
fn pop_s(p: &[Individual<P>]) -> String {
    list(p.iter().map(ind_s))
}
fn mk_ind(t: &Sx) -> Individual<P> {
    if let Some(tag) = t.nat() {
        return Individual::new(tag, mahf::SingleObjective::try_from(tag as f64).unwrap());
    }
    let v = t.items().unwrap();
    let tag = v[0].nat().unwrap();
    match v[1].atom().unwrap() {
        "u" => Individual::new_unevaluated(tag),
        m => Individual::new(tag, mahf::SingleObjective::try_from(m.parse::<u64>().unwrap() as f64).unwrap()),
    }
}
fn mk(p: &Sx) -> Vec<Individual<P>> {
    p.items().unwrap().iter().map(mk_ind).collect()
}

/// An in-place edit of the vector handed out by `current_mut` / `get_current_mut`.
fn apply_edit(c: &mut Vec<Individual<P>>, e: &Sx) {
    let u = |x: &Sx| x.nat().unwrap() as usize;
    match e.head() {
        Some(("e-push", a)) => c.push(mk_ind(&a[0])),
        Some(("e-extend", a)) => c.extend(mk(&a[0])),
        Some(("e-truncate", a)) => c.truncate(u(&a[0])),
        Some(("e-swaprm", a)) => { c.swap_remove(u(&a[0])); }
        Some(("e-remove", a)) => { c.remove(u(&a[0])); }
        Some(("e-insert", a)) => c.insert(u(&a[0]), mk_ind(&a[1])),
        Some(("e-swap", a)) => c.swap(u(&a[0]), u(&a[1])),
        Some(("e-reverse", _)) => c.reverse(),
        Some(("e-clear", _)) => c.clear(),
        Some(("e-retain", _)) => c.retain(|i| i.is_evaluated()),
        _ => *c = mk(e),
    }
}

/// Harness operator driven by the REAL mutation driver (`mutation::mutation`: pop, mutate every solution, push).
#[derive(Clone, Serialize)]
struct TagMutation { fail: bool }
impl mutation::Mutation<P> for TagMutation {
    fn mutate(&self, solution: &mut u64, _: &P, _: &mut State<P>) -> ExecResult<()> {
        if self.fail { return Err(eyre::eyre!("mutation failed")); }
        *solution += 1_000_000;
        Ok(())
    }
}
impl Component<P> for TagMutation {
    fn execute(&self, problem: &P, state: &mut State<P>) -> ExecResult<()> { mutation::mutation(self, problem, state) }
}
/// Harness operator driven by the REAL recombination driver (pop, pairs, push): 0 = no child, 1 = one, 2 = two.
#[derive(Clone, Serialize)]
struct TagRecombination { children: u64 }
impl recombination::Recombination<P> for TagRecombination {
    fn recombine(&self, a: &u64, b: &u64, _: &mut Random) -> OptionalPair<u64> {
        match self.children { 0 => OptionalPair::None, 1 => OptionalPair::Single(a + b + 2_000_000), _ => OptionalPair::Both([*b + 2_000_000, *a + 2_000_000]) }
    }
}
impl Component<P> for TagRecombination {
    fn execute(&self, problem: &P, state: &mut State<P>) -> ExecResult<()> { recombination::recombination(self, problem, state) }
}

/// Number of populations a `(c-comp NAME ..)` puts back (the Lean model has the same table).
fn puts_of(name: &str) -> usize {
    if name == "arch-upd" { 0 } else { 1 }
}
fn frame_comp(name: &str, a: &[Sx]) -> Box<dyn Component<P>> {
    let n = |i: usize| a.get(i).and_then(|x| x.nat()).unwrap_or(1) as u32;
    match name {
        "sel-all" => selection::All::new(),
        "sel-none" => selection::None::new(),
        "sel-clone" => selection::CloneSingle::new(n(0)),
        "sel-rand" => selection::FullyRandom::new(n(0)),
        "sel-norep" => selection::RandomWithoutRepetition::new(n(0)),
        "sel-tour" => selection::Tournament::new(n(0), n(1)),
        "sel-rank" => selection::LinearRank::new(n(0)),
        "sel-roul" => selection::RouletteWheel::new(n(0), 1.0),
        "rep-merge" => replacement::Merge::new(),
        "rep-discard" => replacement::DiscardOffspring::new(),
        "rep-mpl" => replacement::MuPlusLambda::new(n(0)),
        "rep-gen" => replacement::Generational::new(n(0)),
        "rep-rand" => replacement::RandomReplacement::new(n(0)),
        "rep-kbi" => replacement::KeepBetterAtIndex::new(),
        "mut-tag" => Box::new(TagMutation { fail: false }),
        "mut-err" => Box::new(TagMutation { fail: true }),
        "rec-tag" => Box::new(TagRecombination { children: n(0) as u64 }),
        "arch-upd" => archive::ElitistArchiveUpdate::new(n(0) as usize),
        "arch-into" => archive::ElitistArchiveIntoPopulation::new(),
        _ => panic!("unknown component {name}"),
    }
}

/// A `Populations` API operation on a stack that is held (`State::holding`), i.e. not reachable through the state.
fn pops_op(pops: &mut Populations<P>, op: &Sx) -> String {
    let (name, a) = op.head().unwrap();
    let arg = |i: usize| a[i].nat().unwrap() as usize;
    let r: Option<String> = match name {
        "push" => catch(|| { pops.push(mk(&a[0])); "ok".to_string() }),
        "pop" => catch(|| pop_s(&pops.pop())),
        "trypop" => catch(|| pops.try_pop().map(|p| pop_s(&p)).unwrap_or("none".into())),
        "cur" => catch(|| pop_s(pops.current())),
        "getcur" => catch(|| pops.get_current().map(pop_s).unwrap_or("none".into())),
        "edit" => catch(|| { apply_edit(pops.current_mut(), &a[0]); "ok".to_string() }),
        "tryedit" => catch(|| pops.get_current_mut().map(|c| { apply_edit(c, &a[0]); "ok".to_string() }).unwrap_or("none".into())),
        "peek" => catch(|| pop_s(pops.peek(arg(0)))),
        "trypeek" => catch(|| pops.try_peek(arg(0)).map(pop_s).unwrap_or("none".into())),
        "rot" => catch(|| { pops.rotate(arg(0)); "ok".to_string() }),
        "len" => catch(|| pops.len().to_string()),
        "empty" => catch(|| b(pops.is_empty())),
        "reset" => catch(|| { *pops = Populations::<P>::default(); "ok".to_string() }),
        _ => panic!("not a Populations operation: {name}"),
    };
    r.unwrap_or("panic".into())
}

/// One operation on the state it is given (which may be a child scope); panics are caught here, so that none ever
/// crosses `with_inner_state`.
fn exec_op(state: &mut State<P>, op: &Sx) -> String {
    let (name, a) = op.head().unwrap();
    let problem = TagProblem;
    let arg = |i: usize| a[i].nat().unwrap() as usize;
    let r: Option<String> = match name {
        "in" => Some(scoped(state, a[0].nat().unwrap(), &a[1])),
        "push" => catch(|| { state.populations_mut().push(mk(&a[0])); "ok".to_string() }),
        "pop" => catch(|| pop_s(&state.populations_mut().pop())),
        "trypop" => catch(|| state.populations_mut().try_pop().map(|p| pop_s(&p)).unwrap_or("none".into())),
        "cur" => catch(|| pop_s(state.populations().current())),
        "getcur" => catch(|| state.populations().get_current().map(pop_s).unwrap_or("none".into())),
        "edit" => catch(|| { apply_edit(state.populations_mut().current_mut(), &a[0]); "ok".to_string() }),
        "tryedit" => catch(|| state.populations_mut().get_current_mut().map(|c| { apply_edit(c, &a[0]); "ok".to_string() }).unwrap_or("none".into())),
        "peek" => catch(|| pop_s(state.populations().peek(arg(0)))),
        "trypeek" => catch(|| state.populations().try_peek(arg(0)).map(pop_s).unwrap_or("none".into())),
        "rot" => catch(|| { state.populations_mut().rotate(arg(0)); "ok".to_string() }),
        "len" => catch(|| state.populations().len().to_string()),
        "empty" => catch(|| b(state.populations().is_empty())),
        "reset" => catch(|| { *state.populations_mut() = Populations::<P>::default(); "ok".to_string() }),
        "c-rot" | "c-clear" | "c-dup" | "c-ileave" | "c-split" => {
            let c: Box<dyn Component<P>> = match name {
                "c-rot" => RotatePopulations::new(arg(0)),
                "c-clear" => ClearPopulation::new(),
                "c-dup" => DuplicatePopulation::new(),
                "c-split" => SplitPopulationByObjectiveValue::new(),
                _ => InterleavePopulations::new(),
            };
            let r = catch(|| match c.execute(&problem, state) {
                Ok(()) => "ok".to_string(),
                Err(_) => "(e exec)".to_string(),
            });
            Some(match r {
                None => catch(|| state.populations().len()).map(|h| format!("(panic {h})")).unwrap_or("panic".into()),
                Some(s) if s == "ok" && name == "c-split" => catch(|| {
                    let pops = state.populations();
                    let l = pops.try_peek(0).map(pop_s).unwrap_or("none".into());
                    let u = pops.try_peek(1).map(pop_s).unwrap_or("none".into());
                    format!("(ok {l} {u})")
                }).unwrap_or("panic".into()),
                Some(s) => s,
            })
        }
        "c-eval" | "c-eval-a" => {
            let c: Box<dyn Component<P>> = if name == "c-eval" { PopulationEvaluator::new() } else { PopulationEvaluator::<mahf::identifier::A>::new_with() };
            let r = catch(|| match c.execute(&problem, state) { Ok(()) => "ok".to_string(), Err(_) => "(e exec)".to_string() });
            Some(r.unwrap_or_else(|| catch(|| state.populations().len()).map(|h| format!("(panic {h})")).unwrap_or("panic".into())))
        }
        "c-comp" => {
            let cname = a[0].atom().unwrap();
            let c = frame_comp(cname, &a[1..]);
            let r = catch(|| c.execute(&problem, state).is_ok());
            let height = |state: &State<P>| catch(|| state.populations().len());
            Some(match r {
                Some(true) => catch(|| {
                    let pops = state.populations();
                    let new: Vec<String> = (0..puts_of(cname)).map(|d| pops.try_peek(d).map(pop_s).unwrap_or("none".into())).collect();
                    tagged("ok", new)
                }).unwrap_or("panic".into()),
                Some(false) => height(state).map(|h| format!("(err {h})")).unwrap_or("panic".into()),
                None => height(state).map(|h| format!("(panic {h})")).unwrap_or("panic".into()),
            })
        }
        _ => panic!("unknown op {name}"),
    };
    r.unwrap_or("panic".into())
}

/// `op` executed inside `k` nested child scopes.
fn scoped(state: &mut State<P>, k: u64, op: &Sx) -> String {
    if k == 0 { return exec_op(state, op); }
    let mut out = String::new();
    let r = state.with_inner_state(|s| { out = scoped(s, k - 1, op); Ok(()) });
    if r.is_err() { return "(e scope)".into(); }
    out
}

// ---------------------------------------------------------------- programs with scopes and failing steps

/// A program node; the number is its position in program order (= index of its output).
enum Node {
    Op(usize, Sx),
    Fail(usize),
    Failing(usize, Sx),
    Try(Box<Node>),
    Scope(usize, String, Arc<Vec<Node>>),
    /// `State::holding::<Populations>`: operations on the held stack, then `Ok` (true) or `Err`.
    Hold(usize, bool, Vec<(usize, Sx)>),
}
const KINDS: [&str; 5] = ["cl", "sc", "cf", "if", "mf"];

fn parse_node(x: &Sx, next: &mut usize) -> Node {
    let mut id = || { *next += 1; *next - 1 };
    let (name, a) = x.head().unwrap();
    match name {
        "fail" => Node::Fail(id()),
        "failing" => Node::Failing(id(), a[0].clone()),
        "try" => Node::Try(Box::new(parse_node(&a[0], next))),
        "hold" | "hold-err" => {
            let me = id();
            Node::Hold(me, name == "hold", a.iter().map(|y| (id(), y.clone())).collect())
        }
        k if KINDS.contains(&k) => {
            let me = id();
            Node::Scope(me, k.to_string(), Arc::new(a.iter().map(|y| parse_node(y, next)).collect()))
        }
        _ => Node::Op(id(), x.clone()),
    }
}

type Log = Arc<Mutex<Vec<Option<String>>>>;
fn log_set(log: &Log, id: usize, s: String) {
    log.lock().unwrap()[id] = Some(s);
}
fn step_err() -> eyre::Report {
    eyre::eyre!("step failed")
}

/// A program node as a component (so that real `Block`s / `Scope`s / `Configuration`s can be built from programs).
#[derive(Clone, Serialize)]
struct NodeComp {
    idx: usize,
    #[serde(skip)]
    body: Arc<Vec<Node>>,
    #[serde(skip)]
    log: Log,
}
impl Component<P> for NodeComp {
    fn execute(&self, _: &P, state: &mut State<P>) -> ExecResult<()> {
        exec_node(state, &self.body[self.idx], &self.log)
    }
}
fn comps(body: &Arc<Vec<Node>>, log: &Log) -> Vec<Box<dyn Component<P>>> {
    (0..body.len()).map(|idx| Box::new(NodeComp { idx, body: body.clone(), log: log.clone() }) as Box<dyn Component<P>>).collect()
}

/// Executes the node on the state it is given; `Err` = the step failed (the caller decides what that means).
fn exec_node(state: &mut State<P>, n: &Node, log: &Log) -> ExecResult<()> {
    match n {
        Node::Op(id, sx) => {
            let o = exec_op(state, sx);
            let failed = o == "(e exec)" || o.starts_with("(err ");
            log_set(log, *id, o);
            if failed { Err(step_err()) } else { Ok(()) }
        }
        Node::Fail(id) => { log_set(log, *id, "failed".into()); Err(step_err()) }
        Node::Failing(id, sx) => { let o = exec_op(state, sx); log_set(log, *id, o); Err(step_err()) }
        Node::Try(inner) => { let _ = exec_node(state, inner, log); Ok(()) }
        Node::Hold(id, ok, ops) => {
            let r = catch(|| state.holding::<Populations<P>>(|pops, _rest| {
                for (i, op) in ops { log_set(log, *i, pops_op(pops, op)); }
                if *ok { Ok(()) } else { Err(step_err()) }
            }));
            log_set(log, *id, match &r { None => "spanic", Some(Ok(())) => "sok", Some(Err(_)) => "serr" }.into());
            match r { Some(Ok(())) => Ok(()), _ => Err(step_err()) }
        }
        Node::Scope(id, kind, body) => {
            let problem = TagProblem;
            let r: Option<ExecResult<()>> = catch(|| match kind.as_str() {
                "cl" => state.with_inner_state(|s| { for b in body.iter() { exec_node(s, b, log)?; } Ok(()) }).map(|_| ()),
                "sc" => Scope::new(comps(body, log)).execute(&problem, state),
                "cf" => {
                    let cs = comps(body, log);
                    let config = Configuration::builder().scope_(|b| cs.into_iter().fold(b, |b, c| b.do_(c))).build();
                    config.run(&problem, state)
                }
                "if" => Scope::new_with(|_| Err(eyre::eyre!("state_init failed")), comps(body, log), |_, _| Ok(())).execute(&problem, state),
                _ => Scope::new_with(|_| Ok(()), comps(body, log), |_, _| Err(eyre::eyre!("states_merge failed"))).execute(&problem, state),
            });
            log_set(log, *id, match &r { None => "spanic", Some(Ok(())) => "sok", Some(Err(_)) => "serr" }.into());
            match r { Some(Ok(())) => Ok(()), _ => Err(step_err()) }
        }
    }
}

fn run_case(input: &Sx) -> String {
    let (_, ops) = input.head().unwrap();
    let mut state: State<P> = State::new();
    state.insert(Populations::<P>::new());
    // what the shipped components need besides the stack, all in the root registry
    state.insert(Random::new(0));
    state.insert(mahf::state::common::Evaluations(0));
    state.insert_evaluator(mahf::problems::Sequential::<P>::new());
    state.insert_evaluator_as::<mahf::identifier::A>(mahf::problems::Sequential::<P>::new());
    let _ = archive::ElitistArchiveUpdate::new::<P>(1).init(&TagProblem, &mut state);
    let mut n = 0usize;
    let nodes: Vec<Node> = ops.iter().map(|x| parse_node(x, &mut n)).collect();
    let log: Log = Arc::new(Mutex::new(vec![None; n]));
    // the caller of the top level carries on with the same state whatever a step returns
    for node in &nodes { let _ = exec_node(&mut state, node, &log); }
    let outs: Vec<String> = log.lock().unwrap().iter().map(|o| o.clone().unwrap_or("skip".into())).collect();
    // final stack, top first, through the public accessors only
    let stack = catch(|| {
        let pops = state.populations();
        (0..pops.len()).map(|d| pop_s(pops.peek(d))).collect::<Vec<_>>()
    }).unwrap_or(vec!["panic".into()]);
    list([tagged("outs", outs), tagged("stack", stack)])
}

const BIG: [u64; 3] = [1 << 32, 1 << 63, u64::MAX];

/// How a generated history fills its individuals.
#[derive(Clone, Copy, PartialEq)]
enum Flavour { Plain, Ties, Mixed }

struct Gen { rng: Sm, next_tag: u64, fl: Flavour }
impl Gen {
    fn ind(&mut self) -> String {
        self.next_tag += 1;
        let t = self.next_tag;
        match self.fl {
            Flavour::Plain => t.to_string(),
            Flavour::Ties => format!("({t} {})", self.rng.below(3)),
            Flavour::Mixed => match self.rng.below(10) {
                0..=1 => format!("({t} u)"),
                2..=5 => format!("({t} {})", self.rng.below(4)),
                _ => t.to_string(),
            },
        }
    }
    fn pop(&mut self, max: u64) -> String {
        let n = self.rng.below(max + 1);
        list((0..n).map(|_| self.ind()))
    }
    /// An argument around the height, sometimes far above it.
    fn near(&mut self, h: u64, slack: u64) -> u64 {
        if self.rng.chance(1, 25) { *self.rng.pick(&BIG) } else { self.rng.below(h + slack) }
    }
    fn edit(&mut self) -> String {
        match self.rng.below(14) {
            0..=2 => self.pop(3),
            3..=4 => format!("(e-push {})", self.ind()),
            5 => format!("(e-extend {})", self.pop(3)),
            6 => format!("(e-truncate {})", self.near(3, 2)),
            7 => format!("(e-swaprm {})", self.near(3, 1)),
            8 => format!("(e-remove {})", self.near(3, 1)),
            9 => format!("(e-insert {} {})", self.near(3, 2), self.ind()),
            10 => format!("(e-swap {} {})", self.near(3, 1), self.near(3, 1)),
            11 => "(e-reverse)".into(),
            12 => "(e-clear)".into(),
            _ => "(e-retain)".into(),
        }
    }
    /// A shipped pop-process-push component with small parameters (0 included).
    fn comp(&mut self) -> String {
        let n = self.rng.below(4);
        let c = match self.rng.below(20) {
            0 => "sel-all".to_string(), 1 => "sel-none".to_string(), 2 => format!("sel-clone {n}"), 3 => format!("sel-rand {n}"),
            4 => format!("sel-norep {n}"), 5 => format!("sel-tour {n} {}", 1 + self.rng.below(3)), 6 => format!("sel-rank {n}"),
            7 => format!("sel-roul {n}"), 8 => "rep-merge".to_string(), 9 => "rep-discard".to_string(), 10 => format!("rep-mpl {n}"),
            11 => format!("rep-gen {n}"), 12 => format!("rep-rand {n}"), 13 => "rep-kbi".to_string(), 14 => "mut-tag".to_string(),
            15 => if self.rng.chance(1, 3) { "mut-err".to_string() } else { "mut-tag".to_string() },
            16 | 17 => format!("rec-tag {}", self.rng.below(3)), 18 => format!("arch-upd {}", 1 + n), _ => "arch-into".to_string(),
        };
        format!("(c-comp {c})")
    }
    /// An operation of the `Populations` API (no component).
    fn api_op(&mut self, h: u64) -> String {
        loop { let o = self.op(h); if !o.starts_with("(c-") { return o; } }
    }
    fn hold(&mut self, h: &mut i64) -> String {
        let n = self.rng.below(5);
        let mut ops = vec![];
        for _ in 0..n {
            let o = self.api_op((*h).max(0) as u64);
            Self::track(&o, h);
            ops.push(o);
        }
        tagged(if self.rng.chance(1, 4) { "hold-err" } else { "hold" }, ops)
    }
    fn track(o: &str, h: &mut i64) {
        if o.starts_with("(push") || o.starts_with("(c-split") || o.starts_with("(c-comp sel") { *h += 1 }
        else if o.starts_with("(pop") || o.starts_with("(trypop") || o.starts_with("(c-ileave") || o.starts_with("(c-comp rep") { *h = (*h - 1).max(0) }
        else if o.starts_with("(reset") { *h = 0 }
    }
    fn op(&mut self, h: u64) -> String {
        let r = self.rng.below(128);
        match r {
            104..=110 => "(c-eval)".into(),
            111..=112 => "(c-eval-a)".into(),
            113..=127 => self.comp(),
            0..=21 => format!("(push {})", self.pop(4)),
            22..=29 => "(pop)".into(),
            30..=35 => "(trypop)".into(),
            36..=39 => "(cur)".into(),
            40..=43 => "(getcur)".into(),
            44..=48 => format!("(edit {})", self.edit()),
            49..=51 => format!("(tryedit {})", self.edit()),
            52..=58 => format!("(peek {})", self.near(h, 2)),
            59..=66 => format!("(trypeek {})", self.near(h, 2)),
            67..=78 => format!("(rot {})", self.near(h, 2)),
            79..=81 => "(len)".into(),
            82..=83 => "(empty)".into(),
            84..=90 => format!("(c-rot {})", self.near(h, 3)),
            91..=92 => "(c-clear)".into(),
            93..=94 => "(c-dup)".into(),
            95..=98 => "(c-split)".into(),
            99..=102 => "(c-ileave)".into(),
            _ => "(reset)".into(),
        }
    }
    /// A random item of a scope body at nesting depth `d` (1 = directly inside a top-level scope).
    fn item(&mut self, h: &mut i64, d: u64) -> String {
        match self.rng.below(100) {
            0..=5 => "(fail)".into(),
            6..=13 => { let o = self.tracked_op(h); format!("(failing {o})") }
            14..=19 => format!("(try {})", self.item(h, d)),
            20..=37 if d < 3 => self.scope(h, d + 1),
            38..=45 => format!("(c-rot {})", (*h).max(0) as u64 + 1 + self.rng.below(2)),
            46..=55 => self.hold(h),
            _ => self.tracked_op(h),
        }
    }
    fn tracked_op(&mut self, h: &mut i64) -> String {
        let o = self.op((*h).max(0) as u64);
        Self::track(&o, h);
        o
    }
    /// A scope of a random kind with a random body (height tracking is a heuristic only: failing steps cut bodies short).
    fn scope(&mut self, h: &mut i64, d: u64) -> String {
        let kind = match self.rng.below(20) { 0..=6 => "cl", 7..=12 => "sc", 13..=17 => "cf", 18 => "if", _ => "mf" };
        let n = self.rng.below(6);
        let body: Vec<String> = (0..n).map(|_| self.item(h, d)).collect();
        tagged(kind, body)
    }
    /// A random program: a top-level history in which about every third element is a scope tree, a failing step or a
    /// `try`.
    fn program(&mut self, len: u64) -> Vec<String> {
        let mut h: i64 = 0;
        (0..len).map(|_| match self.rng.below(13) {
            0..=2 => self.scope(&mut h, 1),
            3 => self.item(&mut h, 0),
            12 => self.hold(&mut h),
            _ => self.tracked_op(&mut h),
        }).collect()
    }
    /// A random history; `wrap` puts every operation into 0..=4 nested child scopes.
    fn history(&mut self, len: u64, wrap: bool) -> Vec<String> {
        let mut ops = vec![];
        let mut h: i64 = 0;
        for _ in 0..len {
            let o = self.op(h.max(0) as u64);
            Self::track(&o, &mut h);
            ops.push(if wrap { format!("(in {} {o})", self.rng.below(5)) } else { o });
        }
        ops
    }
}

/// All op shapes used by the exhaustive enumeration (small parameters, boundary arguments, every kind of individual).
fn alphabet(tag: &mut u64) -> Vec<String> {
    let mut t = || { *tag += 1; *tag };
    let mut v = vec![
        format!("(push ({}))", t()), format!("(push ({} {}))", t(), t()), "(push ())".into(),
        "(pop)".into(), "(trypop)".into(), "(cur)".into(), "(getcur)".into(),
        format!("(edit ({}))", t()), format!("(tryedit ({}))", t()),
        "(len)".into(), "(empty)".into(), "(c-clear)".into(), "(c-dup)".into(), "(c-ileave)".into(), "(c-split)".into(),
        format!("(push ({} {} {}))", t() + 7, t(), t() + 3),
        // equal objective values, an individual that is not evaluated
        format!("(push (({} 5) ({} 5) ({} 1)))", t(), t(), t()), format!("(push (({} u) {}))", t(), t()),
        // in-place edits, one of them panicking inside the edit on short populations
        format!("(edit (e-push {}))", t()), "(tryedit (e-swaprm 1))".into(), "(edit (e-truncate 1))".into(),
        "(reset)".into(),
        format!("(peek {})", u64::MAX), format!("(trypeek {})", u64::MAX), format!("(rot {})", u64::MAX), format!("(c-rot {})", u64::MAX),
    ];
    for d in 0..3 { v.push(format!("(peek {d})")); v.push(format!("(trypeek {d})")); }
    for n in 0..4 { v.push(format!("(rot {n})")); v.push(format!("(c-rot {n})")); }
    v
}

fn main() {
    quiet_panics();
    let a = args();
    let mut out = Out::new();
    if let Some(r) = a.replay {
        let sx = Sx::parse(&r).expect("bad replay input");
        out.case("replay", &r, &run_case(&sx));
        out.finish();
        return;
    }
    let mut emit = |site: &str, ops: Vec<String>| {
        let input = tagged("ops", ops);
        let sx = Sx::parse(&input).unwrap();
        out.case(site, &input, &run_case(&sx));
    };
    // 1. exhaustive: a fixed prefix that builds height 0..3, then every sequence of L ops.
    let depth = if a.thorough { 3 } else { 2 };
    let mut tag = 100;
    let alpha = alphabet(&mut tag);
    for h in 0..=3u64 {
        let prefix: Vec<String> = (0..h).map(|i| format!("(push ({} {}))", 2 * i + 1, 2 * i + 2)).collect();
        let mut idx = vec![0usize; depth];
        loop {
            let mut ops = prefix.clone();
            ops.extend(idx.iter().map(|&i| alpha[i].clone()));
            emit("exh", ops);
            let mut k = 0;
            while k < depth { idx[k] += 1; if idx[k] < alpha.len() { break; } idx[k] = 0; k += 1; }
            if k == depth { break; }
        }
    }
    // 2. rotation: for every height h ≤ 6 and every n ≤ h + 1, n successive rotations.
    for h in 0..=6u64 {
        for n in 0..=h + 1 {
            let mut ops: Vec<String> = (0..h).map(|i| format!("(push ({}))", i + 1)).collect();
            for _ in 0..n.max(1) { ops.push(format!("(rot {n})")); ops.push("(peek 0)".into()); }
            emit("rotn", ops);
            let mut ops: Vec<String> = (0..h).map(|i| format!("(push ({}))", i + 1)).collect();
            for _ in 0..n.max(1) { ops.push(format!("(c-rot {n})")); }
            emit("c-rotn", ops);
        }
    }
    // 3. boundary arguments: every height h ≤ 4, every depth-taking accessor, arguments h-1, h, h+1 and far above.
    for h in 0..=4u64 {
        let mut args: Vec<u64> = vec![h.saturating_sub(1), h, h + 1];
        args.extend(BIG);
        args.push(u64::MAX - 1);
        for &x in &args {
            for name in ["peek", "trypeek", "rot", "c-rot"] {
                let mut ops: Vec<String> = (0..h).map(|i| format!("(push ({} {}))", 2 * i + 1, 2 * i + 2)).collect();
                ops.push(format!("({name} {x})"));
                ops.push("(len)".into());
                ops.push("(trypeek 0)".into());
                emit("bound", ops);
            }
        }
    }
    // 4. in-place edits: every edit with every index around the length, through both accessors, heights 0..2.
    {
        let mut tag = 500u64;
        for h in 0..=2u64 {
            for size in 0..=3u64 {
                if h == 0 && size > 0 { continue; }
                let mut edits: Vec<String> = vec!["(e-reverse)".into(), "(e-clear)".into(), "(e-retain)".into(),
                    "(e-push 900)".into(), "(e-push (901 u))".into(), "(e-extend (902 (903 2)))".into(), "(e-extend ())".into(), "(904 905)".into(), "()".into()];
                let mut idxs: Vec<u64> = (0..=size + 1).collect();
                idxs.push(u64::MAX);
                for &i in &idxs {
                    edits.push(format!("(e-truncate {i})"));
                    edits.push(format!("(e-swaprm {i})"));
                    edits.push(format!("(e-remove {i})"));
                    edits.push(format!("(e-insert {i} 906)"));
                    for &j in &idxs { edits.push(format!("(e-swap {i} {j})")); }
                }
                for e in edits {
                    for acc in ["edit", "tryedit"] {
                        let mut ops: Vec<String> = (0..h).map(|k| {
                            let n = if k + 1 == h { size } else { 2 };
                            let inds: Vec<String> = (0..n).map(|_| { tag += 1; if tag % 3 == 0 { format!("({tag} u)") } else { tag.to_string() } }).collect();
                            format!("(push {})", list(inds))
                        }).collect();
                        ops.push(format!("({acc} {e})"));
                        ops.push("(getcur)".into());
                        emit("edit", ops);
                    }
                }
            }
        }
    }
    // 5. seeded random histories (three flavours of individuals), at the top level and inside nested child scopes
    let n_rand = if a.thorough { 20000 } else { 4000 };
    let mut g = Gen { rng: Sm::new(a.seed), next_tag: 1000, fl: Flavour::Plain };
    for i in 0..n_rand {
        g.fl = [Flavour::Plain, Flavour::Ties, Flavour::Mixed][i % 3];
        let len = g.rng.range(10, if a.thorough { 200 } else { 60 });
        let ops = g.history(len, false);
        emit("rand", ops);
    }
    let n_scoped = if a.thorough { 4000 } else { 1000 };
    for i in 0..n_scoped {
        g.fl = [Flavour::Plain, Flavour::Mixed][i % 2];
        let len = g.rng.range(5, if a.thorough { 80 } else { 40 });
        let ops = g.history(len, true);
        emit("scoped", ops);
    }
    // 5b. failing steps inside scopes, systematically: depth 1..3, the kinds of scope, 0..2 populations below, steps
    //     before the failing one, every kind of failing step, skipped steps behind it at every level, then operations
    //     of the caller on the same state — also a caller that is itself a scope body (`try` around the failing scope).
    {
        let mut tag = 700u64;
        let mut t = || { tag += 1; tag };
        let after = |t: &mut dyn FnMut() -> u64| -> Vec<String> {
            vec!["(len)".into(), "(trypeek 0)".into(), format!("(push ({}))", t()), "(peek 1)".into(), "(c-dup)".into(), "(trypop)".into(), "(getcur)".into()]
        };
        for d in 1..=3usize {
            for kinds in [["cl", "cl", "cl"], ["sc", "sc", "sc"], ["cf", "cf", "cf"], ["sc", "cl", "cf"], ["cl", "cf", "sc"]] {
                for h in 0..=2u64 {
                    for pre in 0..3 {
                        for f in 0..9 {
                            for tried in [false, true] {
                                if tried && d == 1 { continue; }
                                let pre_ops: Vec<String> = match pre {
                                    0 => vec![],
                                    1 => vec![format!("(push ({} {}))", t(), t())],
                                    _ => vec![format!("(push ({}))", t()), format!("(rot {})", (h + 1).min(2)), format!("(edit (e-push {}))", t())],
                                };
                                let hh = h + (pre > 0) as u64;
                                let failing = match f {
                                    0 => "(fail)".to_string(),
                                    1 => format!("(failing (push ({})))", t()),
                                    2 => format!("(c-rot {})", hh + 1),
                                    3 => "(failing (trypop))".to_string(),
                                    4 => format!("(failing (rot {}))", hh.min(2)),
                                    5 => format!("(if (push ({})))", t()),
                                    6 => format!("(mf (push ({})) (c-rot {}))", t(), (hh + 1).min(2)),
                                    7 => format!("(failing (edit ({})))", t()),
                                    _ => format!("(c-rot {})", u64::MAX),
                                };
                                // innermost body
                                let mut body: Vec<String> = pre_ops;
                                body.push(failing);
                                body.push(format!("(push ({}))", t()));
                                let mut scope = tagged(kinds[d - 1], body);
                                for lvl in (0..d - 1).rev() {
                                    let inner = if tried && lvl == d - 2 { format!("(try {scope})") } else { scope };
                                    let mut b = vec![format!("(push ({}))", t()), inner];
                                    if tried && lvl == d - 2 { b.extend(["(len)".to_string(), "(trypeek 0)".to_string(), "(c-rot 1)".to_string()]); }
                                    b.push("(pop)".into());
                                    scope = tagged(kinds[lvl], b);
                                }
                                let mut ops: Vec<String> = (0..h).map(|_| format!("(push ({} {}))", t(), t())).collect();
                                ops.push(scope);
                                ops.extend(after(&mut t));
                                emit("scope-err", ops);
                            }
                        }
                    }
                }
            }
        }
    }
    // 5d. State::holding::<Populations> at scope depth 0..3: the stack is held and edited in the innermost scope (closure
    //     returning Ok / Err), read inside the scopes on the way out and by the caller afterwards.
    {
        let mut tag = 3000u64;
        let mut t = || { tag += 1; tag };
        for d in 0..=3usize {
            for kinds in [["cl", "cl", "cl"], ["sc", "sc", "sc"], ["cf", "cf", "cf"], ["sc", "cl", "cf"], ["cl", "cf", "sc"]] {
                if d == 0 && kinds[0] != "cl" { continue; }
                for h in 0..=2u64 {
                    for held in 0..5 {
                        for ok in [true, false] {
                            let held_ops: Vec<String> = match held {
                                0 => vec![],
                                1 => vec![format!("(push ({} {}))", t(), t()), format!("(rot {})", h + 1), format!("(tryedit (e-push {}))", t())],
                                2 => vec!["(trypop)".into(), "(len)".into(), format!("(push ({}))", t())],
                                3 => vec![format!("(push ())"), "(cur)".into(), format!("(peek {h})")],
                                _ => vec!["(reset)".into(), format!("(push ({}))", t()), "(trypeek 1)".into()],
                            };
                            let mut item = tagged(if ok { "hold" } else { "hold-err" }, held_ops);
                            for lvl in (0..d).rev() {
                                let inner = if !ok && lvl + 1 == d { format!("(try {item})") } else { item };
                                item = tagged(kinds[lvl], vec![inner, "(len)".to_string(), "(trypeek 0)".to_string()]);
                            }
                            let mut ops: Vec<String> = (0..h).map(|_| format!("(push ({} {}))", t(), t())).collect();
                            ops.push(item);
                            ops.extend(["(len)".to_string(), "(trypeek 0)".to_string(), format!("(push ({}))", t()), "(peek 1)".to_string(),
                                "(c-dup)".to_string(), "(trypop)".to_string(), "(getcur)".to_string()]);
                            emit("hold", ops);
                        }
                    }
                }
            }
        }
    }
    // 5e. every shipped pop-process-push component on EMPTY, singleton and larger current populations (evaluated, one
    //     flavour with an individual that is not), a second population of 0 / 2 individuals and 0..1 more below, at scope
    //     depth 0..2, followed by reads at the caller's level; and evaluations inside scopes followed by evaluations outside.
    {
        let mut tag = 5000u64;
        let mut t = || { tag += 1; tag };
        let comps: Vec<String> = ["c-eval", "c-eval-a", "c-clear", "c-dup", "c-comp sel-all", "c-comp sel-none", "c-comp sel-clone 2", "c-comp sel-rand 0",
            "c-comp sel-rand 2", "c-comp sel-norep 1", "c-comp sel-tour 2 2", "c-comp sel-rank 2", "c-comp sel-roul 1", "c-comp rep-merge",
            "c-comp rep-discard", "c-comp rep-mpl 0", "c-comp rep-mpl 2", "c-comp rep-gen 2", "c-comp rep-rand 1", "c-comp rep-kbi",
            "c-comp mut-tag", "c-comp mut-err", "c-comp rec-tag 0", "c-comp rec-tag 1", "c-comp rec-tag 2", "c-comp arch-upd 1", "c-comp arch-upd 3",
            "c-comp arch-into"].iter().map(|c| format!("({c})")).collect();
        for c in &comps {
            for top in [0u64, 1, 2, 5] {
                for second in [0u64, 2] {
                    for below in 0..=1u64 {
                        for depth in 0..=2usize {
                            for uneval in [false, true] {
                                if uneval && (top == 0 || depth > 0) { continue; }
                                let mut ops: Vec<String> = (0..below).map(|_| format!("(push ({} {} {}))", t(), t(), t())).collect();
                                ops.push(format!("(push {})", list((0..second).map(|_| t().to_string()))));
                                let inds: Vec<String> = (0..top).map(|i| if uneval && i == 0 { format!("({} u)", t()) } else { t().to_string() }).collect();
                                ops.push(format!("(push {})", list(inds)));
                                if depth == 0 && c.contains("arch-into") { ops.push("(c-comp arch-upd 2)".into()); }
                                let mut item = c.clone();
                                for lvl in 0..depth { item = tagged(["sc", "cl"][lvl], vec![item]); }
                                ops.push(item);
                                ops.extend(["(len)".to_string(), "(trypeek 0)".to_string(), "(trypeek 1)".to_string(), "(trypeek 2)".to_string(),
                                    format!("(c-rot {})", below + 2), "(c-eval)".to_string(), "(getcur)".to_string(), format!("(peek {})", below + 1)]);
                                emit("comp", ops);
                            }
                        }
                    }
                }
            }
        }
        for kind in KINDS {
            for depth in 1..=3usize {
                for ev in ["(c-eval)", "(c-eval-a)"] {
                    for top in [0u64, 1, 3] {
                        for rounds in 1..=2 {
                            let mut ops = vec![format!("(push ({} {}))", t(), t()), format!("(push {})", list((0..top).map(|_| format!("({} u)", t()))))];
                            for _ in 0..rounds {
                                let mut item = ev.to_string();
                                for _ in 0..depth { item = tagged(kind, vec![item, "(len)".to_string()]); }
                                ops.push(item);
                                ops.push(ev.to_string());
                                ops.push("(c-clear)".to_string());
                                ops.push("(c-eval)".to_string());
                                ops.push("(c-rot 2)".to_string());
                            }
                            ops.extend(["(len)".to_string(), "(trypeek 0)".to_string(), "(trypeek 1)".to_string()]);
                            emit("scope-eval", ops);
                        }
                    }
                }
            }
        }
    }
    // 5c. random programs: scopes of every kind nested up to depth 3, failing steps, `try`, callers that carry on
    let n_prog = if a.thorough { 10000 } else { 2500 };
    for i in 0..n_prog {
        g.fl = [Flavour::Plain, Flavour::Mixed, Flavour::Plain][i % 3];
        let len = g.rng.range(4, if a.thorough { 40 } else { 20 });
        let ops = g.program(len);
        emit("scope-rand", ops);
    }
    // 6. split: populations of 0..9 individuals with few distinct objective values, sometimes one not evaluated,
    //    on top of 0..2 other populations; reads afterwards.
    let n_split = if a.thorough { 6000 } else { 1500 };
    for i in 0..n_split {
        g.fl = if i % 4 == 3 { Flavour::Mixed } else { Flavour::Ties };
        let below = g.rng.below(3);
        let mut ops: Vec<String> = (0..below).map(|_| format!("(push {})", g.pop(2))).collect();
        // mostly small; sometimes large enough that `sort_unstable` really leaves insertion sort (> 20 elements)
        let n = if g.rng.chance(1, 6) { g.rng.range(21, 48) } else { g.rng.below(10) };
        let inds: Vec<String> = (0..n).map(|_| g.ind()).collect();
        ops.push(format!("(push {})", list(inds)));
        if g.rng.chance(1, 5) { ops.push("(c-dup)".into()); }
        ops.push("(c-split)".into());
        ops.push("(peek 0)".into());
        ops.push("(trypeek 1)".into());
        if g.rng.chance(1, 2) { ops.push("(c-ileave)".into()); ops.push("(c-split)".into()); }
        ops.push("(len)".into());
        emit("split", ops);
    }
    // 7. deep stacks and larger populations: 15..40 populations, then rotations / peeks near the height.
    let n_deep = if a.thorough { 600 } else { 150 };
    for _ in 0..n_deep {
        g.fl = Flavour::Plain;
        let h = g.rng.range(15, 40);
        let mut ops: Vec<String> = (0..h).map(|_| format!("(push {})", g.pop(12))).collect();
        for _ in 0..g.rng.range(5, 25) {
            let x = match g.rng.below(4) { 0 => h, 1 => h - 1, 2 => h + 1, _ => g.rng.below(h + 2) };
            ops.push(match g.rng.below(6) {
                0 => format!("(peek {x})"),
                1 => format!("(trypeek {x})"),
                2 | 3 => format!("(rot {x})"),
                4 => format!("(c-rot {x})"),
                _ => "(c-ileave)".into(),
            });
        }
        emit("deep", ops);
    }
    out.finish();
}
