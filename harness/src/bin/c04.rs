//! C04 — population stack. Drives the real `Populations` (inside a real `State`) and the stack
//! utility components through histories; prints every return value and the final stack.
use hcommon::problems::TagProblem;
use hcommon::*;
use mahf::components::utils::populations::*;
use mahf::state::common::Populations;
use mahf::{Component, Individual, State};

type P = TagProblem;

fn pop_s(p: &[Individual<P>]) -> String {
    nats(p.iter().map(|i| *i.solution()))
}
fn mk(p: &Sx) -> Vec<Individual<P>> {
    // evaluated individuals, objective value = tag (needed by SplitPopulationByObjectiveValue)
    p.items().unwrap().iter().map(|t| {
        let tag = t.nat().unwrap();
        Individual::new(tag, mahf::SingleObjective::try_from(tag as f64).unwrap())
    }).collect()
}

fn run_case(input: &Sx) -> String {
    let (_, ops) = input.head().unwrap();
    let mut state: State<P> = State::new();
    state.insert(Populations::<P>::new());
    let problem = TagProblem;
    let mut outs = vec![];
    for op in ops {
        let (name, a) = op.head().unwrap();
        let r: Option<String> = match name {
            "push" => catch(|| { state.populations_mut().push(mk(&a[0])); "ok".to_string() }),
            "pop" => catch(|| pop_s(&state.populations_mut().pop())),
            "trypop" => catch(|| state.populations_mut().try_pop().map(|p| pop_s(&p)).unwrap_or("none".into())),
            "cur" => catch(|| pop_s(state.populations().current())),
            "getcur" => catch(|| state.populations().get_current().map(pop_s).unwrap_or("none".into())),
            "edit" => catch(|| { *state.populations_mut().current_mut() = mk(&a[0]); "ok".to_string() }),
            "tryedit" => catch(|| state.populations_mut().get_current_mut().map(|c| { *c = mk(&a[0]); "ok".to_string() }).unwrap_or("none".into())),
            "peek" => catch(|| pop_s(state.populations().peek(a[0].nat().unwrap() as usize))),
            "trypeek" => catch(|| state.populations().try_peek(a[0].nat().unwrap() as usize).map(pop_s).unwrap_or("none".into())),
            "rot" => catch(|| { state.populations_mut().rotate(a[0].nat().unwrap() as usize); "ok".to_string() }),
            "len" => catch(|| state.populations().len().to_string()),
            "empty" => catch(|| b(state.populations().is_empty())),
            "c-rot" | "c-clear" | "c-dup" | "c-ileave" | "c-split" => {
                let c: Box<dyn Component<P>> = match name {
                    "c-rot" => RotatePopulations::new(a[0].nat().unwrap() as usize),
                    "c-clear" => ClearPopulation::new(),
                    "c-dup" => DuplicatePopulation::new(),
                    "c-split" => SplitPopulationByObjectiveValue::new(),
                    _ => InterleavePopulations::new(),
                };
                catch(|| match c.execute(&problem, &mut state) {
                    Ok(()) => "ok".to_string(),
                    Err(_) => "(e exec)".to_string(),
                })
            }
            _ => panic!("unknown op {name}"),
        };
        outs.push(r.unwrap_or("panic".into()));
    }
    // final stack, top first, through the public accessors only
    let pops = state.populations();
    let stack = (0..pops.len()).map(|d| pop_s(pops.peek(d)));
    list([tagged("outs", outs), tagged("stack", stack)])
}

struct Gen { rng: Sm, next_tag: u64 }
impl Gen {
    fn pop(&mut self, max: u64) -> String {
        let n = self.rng.below(max + 1);
        let v: Vec<u64> = (0..n).map(|_| { self.next_tag += 1; self.next_tag }).collect();
        nats(v)
    }
    fn op(&mut self, height_hint: u64) -> String {
        let r = self.rng.below(100);
        let h = height_hint;
        match r {
            0..=21 => format!("(push {})", self.pop(3)),
            22..=29 => "(pop)".into(),
            30..=35 => "(trypop)".into(),
            36..=39 => "(cur)".into(),
            40..=43 => "(getcur)".into(),
            44..=48 => format!("(edit {})", self.pop(3)),
            49..=51 => format!("(tryedit {})", self.pop(2)),
            52..=58 => format!("(peek {})", self.rng.below(h + 2)),
            59..=66 => format!("(trypeek {})", self.rng.below(h + 2)),
            67..=78 => format!("(rot {})", self.rng.below(h + 2)),
            79..=81 => "(len)".into(),
            82..=83 => "(empty)".into(),
            84..=90 => format!("(c-rot {})", self.rng.below(h + 3)),
            91..=92 => "(c-clear)".into(),
            93..=94 => "(c-dup)".into(),
            95..=96 => "(c-split)".into(),
            _ => "(c-ileave)".into(),
        }
    }
}

/// All op shapes used by the exhaustive enumeration (small parameters).
fn alphabet(tag: &mut u64) -> Vec<String> {
    let mut t = || { *tag += 1; *tag };
    let mut v = vec![
        format!("(push ({}))", t()), format!("(push ({} {}))", t(), t()), "(push ())".into(),
        "(pop)".into(), "(trypop)".into(), "(cur)".into(), "(getcur)".into(),
        format!("(edit ({}))", t()), format!("(tryedit ({}))", t()),
        "(len)".into(), "(empty)".into(), "(c-clear)".into(), "(c-dup)".into(), "(c-ileave)".into(), "(c-split)".into(),
        format!("(push ({} {} {}))", t() + 7, t(), t() + 3),
    ];
    for d in 0..3 { v.push(format!("(peek {d})")); v.push(format!("(trypeek {d})")); }
    for n in 0..4 { v.push(format!("(rot {n})")); v.push(format!("(c-rot {n})")); }
    v
}

fn main() {
    quiet_panics();
    let a = args();
    let mut out = Out::new();
    if let Some(r) = a.replay {
        let sx = Sx::parse(&r).expect("bad replay input");
        out.case("replay", &r, &run_case(&sx));
        out.finish();
        return;
    }
    let mut emit = |site: &str, ops: Vec<String>| {
        let input = tagged("ops", ops);
        let sx = Sx::parse(&input).unwrap();
        out.case(site, &input, &run_case(&sx));
    };
    // 1. exhaustive: a fixed prefix that builds height 0..3, then every sequence of L ops.
    let depth = if a.thorough { 3 } else { 2 };
    let mut tag = 100;
    let alpha = alphabet(&mut tag);
    for h in 0..=3u64 {
        let prefix: Vec<String> = (0..h).map(|i| format!("(push ({} {}))", 2 * i + 1, 2 * i + 2)).collect();
        let mut idx = vec![0usize; depth];
        loop {
            let mut ops = prefix.clone();
            ops.extend(idx.iter().map(|&i| alpha[i].clone()));
            emit("exh", ops);
            let mut k = 0;
            while k < depth { idx[k] += 1; if idx[k] < alpha.len() { break; } idx[k] = 0; k += 1; }
            if k == depth { break; }
        }
    }
    // 2. rotation: for every height h ≤ 6 and every n ≤ h + 1, n successive rotations.
    for h in 0..=6u64 {
        for n in 0..=h + 1 {
            let mut ops: Vec<String> = (0..h).map(|i| format!("(push ({}))", i + 1)).collect();
            for _ in 0..n.max(1) { ops.push(format!("(rot {n})")); ops.push("(peek 0)".into()); }
            emit("rotn", ops);
            let mut ops: Vec<String> = (0..h).map(|i| format!("(push ({}))", i + 1)).collect();
            for _ in 0..n.max(1) { ops.push(format!("(c-rot {n})")); }
            emit("c-rotn", ops);
        }
    }
    // 3. random long histories
    let n_rand = if a.thorough { 20000 } else { 1500 };
    let mut g = Gen { rng: Sm::new(a.seed), next_tag: 1000 };
    for _ in 0..n_rand {
        let len = g.rng.range(10, if a.thorough { 200 } else { 60 });
        let mut ops = vec![];
        let mut h: i64 = 0;
        for _ in 0..len {
            let o = g.op(h.max(0) as u64);
            if o.starts_with("(push") || o.starts_with("(c-split") { h += 1 } else if o.starts_with("(pop") || o.starts_with("(trypop") || o.starts_with("(c-ileave") { h = (h - 1).max(0) }
            ops.push(o);
        }
        emit("rand", ops);
    }
    out.finish();
}
