//! C17 — simulated-annealing acceptance (Metropolis rule) and geometric cooling.
//! Runs the REAL `ExponentialAnnealingAcceptance` / `GeometricCooling` on prepared states with a
//! scripted generator (exact decisions around the threshold), on seeded streams (acceptance
//! frequencies), and observes both inside `real_sa` / `permutation_sa` template runs.
#[path = "../c17_script_rng.rs"]
mod script;

use std::sync::{Arc, Mutex};

use better_any::{Tid, TidAble};
use derive_more::{Deref, DerefMut};
use hcommon::problems::TagProblem;
use hcommon::templates::{run_template, EvalKind, HProblem, Outcome, Visitor};
use hcommon::*;
use mahf::components::mapping::sa::GeometricCooling;
use mahf::components::replacement::sa::{ExponentialAnnealingAcceptance, Temperature};
use mahf::lens::ValueOf;
use mahf::components::{Block, Loop, Scope};
use mahf::conditions::LessThanN;
use mahf::state::common::{Iterations, Populations};
use mahf::verif::Phase;
use mahf::{Component, CustomState, ExecResult, Individual, Random, SingleObjective, State};
use serde::Serialize;
use script::*;

type P = TagProblem;

fn ind(tag: u64, obj: f64) -> Individual<P> {
    Individual::new(tag, SingleObjective::try_from(obj).unwrap())
}
fn pop_of(sx: &Sx) -> Vec<Individual<P>> {
    sx.items().unwrap().iter().map(|i| {
        let v = i.items().unwrap();
        ind(v[0].nat().unwrap(), v[1].float().unwrap())
    }).collect()
}
fn pop_s(p: &[Individual<P>]) -> String {
    list(p.iter().map(|i| list([i.solution().to_string(), fx(i.objective().value())])))
}
fn stack_s(state: &State<P>) -> String {
    let pops = state.populations();
    tagged("stack", (0..pops.len()).map(|d| pop_s(pops.peek(d))))
}
fn field<'a>(args: &'a [Sx], name: &str) -> &'a [Sx] {
    for a in args {
        if let Some((h, rest)) = a.head() {
            if h == name { return rest; }
        }
    }
    panic!("missing field {name}")
}

/// `(accept (t xT) (fb n) (words w*) (stack P*))`, stack top first.
fn run_accept(args: &[Sx]) -> String {
    let t = field(args, "t")[0].float().unwrap();
    let fb = field(args, "fb")[0].nat().unwrap();
    let words: Vec<u64> = field(args, "words").iter().map(|w| w.nat().unwrap()).collect();
    let pops: Vec<Vec<Individual<P>>> = field(args, "stack").iter().map(pop_of).collect();
    let (id, scr) = register(words, fb);
    let mut state: State<P> = State::new();
    state.insert(Populations::<P>::new());
    state.insert(Random::with_rng::<ScriptRng>(id));
    state.insert(Temperature(t));
    for p in pops.into_iter().rev() {
        state.populations_mut().push(p);
    }
    let c = ExponentialAnnealingAcceptance::new::<P>(1.0);
    let r = catch(|| c.execute(&TagProblem, &mut state));
    unregister(id);
    let status = match r { Some(Ok(())) => "ok", Some(Err(_)) => "err", None => "panic" };
    // after a panic the RefCell guards were released by unwinding; the state is still readable
    let stack = catch(|| stack_s(&state)).unwrap_or("(stack-unreadable)".into());
    let t_after = catch(|| state.get_value::<Temperature>()).unwrap_or(f64::NAN);
    list([status.to_string(), stack, tagged("t", [fx(t_after)]), tagged("used", [scr.used().to_string()])])
}

/// `(freq (kind chacha|sm) (cur x) (cand x) (t x) (n N) (seed s) [(it v)])` → `((acc k) (bad b) (used d))`
fn run_freq(args: &[Sx]) -> String {
    let kind = field(args, "kind")[0].atom().unwrap().to_string();
    let cur = field(args, "cur")[0].float().unwrap();
    let cand = field(args, "cand")[0].float().unwrap();
    let t = field(args, "t")[0].float().unwrap();
    let n = field(args, "n")[0].nat().unwrap();
    let seed = field(args, "seed")[0].nat().unwrap();
    let mut state: State<P> = State::new();
    state.insert(Populations::<P>::new());
    let (id, scr) = register(vec![], seed);
    if kind == "sm" { state.insert(Random::with_rng::<ScriptRng>(id)); } else { state.insert(Random::new(seed)); }
    state.insert(Temperature(t));
    // optional `(it v)`: the state also holds an `Iterations` counter that stays at v during all n executions
    for a in args {
        if let Some(("it", rest)) = a.head() { state.insert(Iterations(rest[0].nat().unwrap() as u32)); }
    }
    // optional `(same 1)`: candidate and current encode the SAME solution (tag 1); the survivor is then told by its objective
    let mut cand_tag = 2u64;
    for a in args {
        if let Some(("same", rest)) = a.head() { if rest[0].nat().unwrap() == 1 { cand_tag = 1; } }
    }
    let c = ExponentialAnnealingAcceptance::new::<P>(1.0);
    let mut acc = 0u64;
    let mut bad = 0u64;
    for _ in 0..n {
        state.populations_mut().push(vec![ind(1, cur)]);
        state.populations_mut().push(vec![ind(cand_tag, cand)]);
        let r = catch(|| c.execute(&TagProblem, &mut state));
        let ok = matches!(r, Some(Ok(())));
        let (h, who) = { let p = state.populations(); (p.len(), p.get_current().and_then(|c| c.first().map(|i| (*i.solution(), i.objective().value().to_bits())))) };
        if !ok || h != 1 { bad += 1; }
        match who {
            Some(w) if w == (cand_tag, cand.to_bits()) => acc += 1, // (an individual identical to the current one counts as the candidate)
            Some(w) if w == (1, cur.to_bits()) => {}
            _ => bad += 1,
        }
        while state.populations().len() > 0 { state.populations_mut().pop(); }
    }
    unregister(id);
    list([tagged("acc", [acc.to_string()]), tagged("bad", [bad.to_string()]), tagged("used", [scr.used().to_string()])])
}

/// `(chain (fb n) (cur (tag obj)) (rest P*) (steps (tag obj xT word)*))` — a sequence of passes on ONE state: every step sets
/// the temperature, pushes its single-individual candidate population and executes the real acceptance (fresh scripted
/// generator holding the step's word). → `(status (trace ((tag obj) used)*) (stack P*))`; the trace has one entry per step
/// that ended `ok` (the individual in the top population afterwards), the chain stops at the first step that did not.
fn run_chain(args: &[Sx]) -> String {
    let fb = field(args, "fb")[0].nat().unwrap();
    let c0 = field(args, "cur")[0].items().unwrap();
    let cur = vec![ind(c0[0].nat().unwrap(), c0[1].float().unwrap())];
    let rest: Vec<Vec<Individual<P>>> = field(args, "rest").iter().map(pop_of).collect();
    let mut state: State<P> = State::new();
    state.insert(Populations::<P>::new());
    state.insert(Random::new(fb));
    state.insert(Temperature(1.0));
    for p in rest.into_iter().rev() { state.populations_mut().push(p); }
    state.populations_mut().push(cur);
    let c = ExponentialAnnealingAcceptance::new::<P>(1.0);
    let mut status = "ok";
    let mut trace = vec![];
    for st in field(args, "steps") {
        let v = st.items().unwrap();
        let (tag, obj, t, w) = (v[0].nat().unwrap(), v[1].float().unwrap(), v[2].float().unwrap(), v[3].nat().unwrap());
        let (id, scr) = register(vec![w], fb);
        state.insert(Random::with_rng::<ScriptRng>(id));
        state.insert(Temperature(t));
        state.populations_mut().push(vec![ind(tag, obj)]);
        let r = catch(|| c.execute(&TagProblem, &mut state));
        unregister(id);
        match r {
            Some(Ok(())) => {
                let top = catch(|| { let p = state.populations(); pop_s(p.current()) }).unwrap_or("(unreadable)".into());
                trace.push(list([top, scr.used().to_string()]));
            }
            Some(Err(_)) => { status = "err"; break; }
            None => { status = "panic"; break; }
        }
    }
    let stack = catch(|| stack_s(&state)).unwrap_or("(stack-unreadable)".into());
    list([status.to_string(), tagged("trace", trace), stack])
}

/// `(cool (t x) (alpha x) (n k))` → `(ok x*)` temperatures after each execution, or `(e ctor)`.
fn run_cool(args: &[Sx]) -> String {
    let t = field(args, "t")[0].float().unwrap();
    let alpha = field(args, "alpha")[0].float().unwrap();
    let n = field(args, "n")[0].nat().unwrap();
    let c: Box<dyn Component<P>> = match GeometricCooling::new::<P>(alpha, ValueOf::<Temperature>::new()) {
        Ok(c) => c,
        Err(_) => return "(e ctor)".into(),
    };
    let mut state: State<P> = State::new();
    state.insert(Populations::<P>::new());
    state.insert(Random::new(0));
    state.insert(Temperature(t));
    let mut ts = vec![];
    for _ in 0..n {
        match catch(|| c.execute(&TagProblem, &mut state)) {
            Some(Ok(())) => ts.push(fx(state.get_value::<Temperature>())),
            Some(Err(_)) => return "(e exec)".into(),
            None => return "panic".into(),
        }
    }
    tagged("ok", ts)
}


// ------------------------------------------------------------------ cooling components inside programs
/// Further `f64` states a `ValueOf<_>` lens can point at (cell 0 is the real `Temperature`).
#[derive(Deref, DerefMut, Tid)]
struct CellB(f64);
impl CustomState<'_> for CellB {}
#[derive(Deref, DerefMut, Tid)]
struct CellC(f64);
impl CustomState<'_> for CellC {}

fn cell_value(state: &State<P>, cell: u64) -> Option<f64> {
    match cell {
        0 => state.try_get_value::<Temperature>().ok(),
        1 => state.try_get_value::<CellB>().ok(),
        2 => state.try_get_value::<CellC>().ok(),
        _ => panic!("cell {cell}"),
    }
}
fn opt_f(v: Option<f64>) -> String {
    v.map(fx).unwrap_or("none".into())
}

/// (Re)inserts `Iterations(v)` into the innermost scope.
#[derive(Clone, Serialize)]
struct SetIter(u32);
impl Component<P> for SetIter {
    fn execute(&self, _: &P, state: &mut State<P>) -> ExecResult<()> {
        state.insert(Iterations(self.0));
        Ok(())
    }
}
/// Placed directly behind every cooling component: records the value it left in its cell.
#[derive(Clone, Serialize)]
struct Snap {
    id: u64,
    cell: u64,
    #[serde(skip)]
    log: Arc<Mutex<Vec<String>>>,
}
impl Component<P> for Snap {
    fn execute(&self, _: &P, state: &mut State<P>) -> ExecResult<()> {
        let v = cell_value(state, self.cell);
        self.log.lock().unwrap().push(list([self.id.to_string(), self.cell.to_string(), opt_f(v)]));
        Ok(())
    }
}

/// Builds the REAL components: `GeometricCooling` (one instance per `cool` node, lens chosen by the
/// cell), `Block`, `Loop` + `LessThanN::iterations`, `Scope`. `Err(())` = a constructor refused.
fn build_prog(sx: &Sx, log: &Arc<Mutex<Vec<String>>>) -> Result<Vec<Box<dyn Component<P>>>, ()> {
    let (kind, args) = sx.head().unwrap();
    let seq = |items: &[Sx]| -> Result<Vec<Box<dyn Component<P>>>, ()> {
        let mut v = vec![];
        for i in items { v.extend(build_prog(i, log)?); }
        Ok(v)
    };
    Ok(match kind {
        "cool" => {
            let (id, cell, alpha) = (args[0].nat().unwrap(), args[1].nat().unwrap(), args[2].float().unwrap());
            let c = match cell {
                0 => GeometricCooling::new::<P>(alpha, ValueOf::<Temperature>::new()),
                1 => GeometricCooling::new::<P>(alpha, ValueOf::<CellB>::new()),
                2 => GeometricCooling::new::<P>(alpha, ValueOf::<CellC>::new()),
                _ => panic!("cell {cell}"),
            }.map_err(|_| ())?;
            vec![c, Box::new(Snap { id, cell, log: log.clone() })]
        }
        "seti" => vec![Box::new(SetIter(args[0].nat().unwrap() as u32))],
        "skip" => vec![],
        "seq" => seq(args)?,
        "loop" => vec![Loop::new(LessThanN::iterations(args[0].nat().unwrap() as u32), Block::new(build_prog(&args[1], log)?))],
        "scope" => vec![Scope::new(seq(args)?)],
        _ => panic!("unknown program node {kind}"),
    })
}

/// `(coolprog (iters none|v) (cells none|x ...) (prog P))` →
/// `(ok|err|panic (iters none|v) (cells ...) (trace (id cell x)*))` or `(e ctor)`.
/// The root is executed WITHOUT `init` on the prepared state (a `Scope` initialises its body itself).
fn run_coolprog(args: &[Sx]) -> String {
    let iters = &field(args, "iters")[0];
    let cells: Vec<Option<f64>> = field(args, "cells").iter().map(|c| if c.atom() == Some("none") { None } else { Some(c.float().unwrap()) }).collect();
    let log = Arc::new(Mutex::new(vec![]));
    let root = match build_prog(&field(args, "prog")[0], &log) {
        Ok(v) => Block::new(v),
        Err(()) => return "(e ctor)".into(),
    };
    let mut state: State<P> = State::new();
    state.insert(Populations::<P>::new());
    state.insert(Random::new(0));
    for (k, c) in cells.iter().enumerate() {
        if let Some(v) = *c {
            match k { 0 => { state.insert(Temperature(v)); } 1 => { state.insert(CellB(v)); } 2 => { state.insert(CellC(v)); } _ => panic!("cell {k}") }
        }
    }
    if iters.atom() != Some("none") { state.insert(Iterations(iters.nat().unwrap() as u32)); }
    let r = catch(|| root.execute(&TagProblem, &mut state));
    let status = match r { Some(Ok(())) => "ok", Some(Err(_)) => "err", None => "panic" };
    let it = catch(|| state.try_get_value::<Iterations>().ok()).flatten();
    let after: Vec<String> = (0..cells.len() as u64).map(|k| opt_f(catch(|| cell_value(&state, k)).flatten())).collect();
    let trace = log.lock().unwrap().clone();
    list([status.to_string(), tagged("iters", [it.map(|v| v.to_string()).unwrap_or("none".into())]), tagged("cells", after), tagged("trace", trace)])
}

/// Generator of `coolprog` programs: labels are assigned in preorder while printing.
struct PG { next: u64 }
impl PG {
    fn cool(&mut self, cell: u64, alpha: f64) -> String {
        let id = self.next;
        self.next += 1;
        format!("(cool {} {} {})", id, cell, fx(alpha))
    }
    fn cools(&mut self, spec: &[(u64, f64)]) -> Vec<String> {
        spec.iter().map(|&(c, a)| self.cool(c, a)).collect()
    }
    fn random(&mut self, rng: &mut Sm, depth: u32, in_loop: bool, ncells: u64) -> String {
        let alphas = [0.5, 0.9, 0.25, 0.99, 0.0, 0.75];
        let pick = if depth == 0 { rng.range(0, 2) } else { rng.range(0, 8) };
        match pick {
            0 | 1 | 2 => { let c = rng.range(0, ncells - 1); let a = alphas[rng.range(0, alphas.len() as u64 - 1) as usize]; self.cool(c, a) }
            3 if !in_loop => format!("(seti {})", rng.range(0, 4)),
            3 | 4 => { let k = rng.range(1, 3); let items: Vec<String> = (0..k).map(|_| self.random(rng, depth - 1, in_loop, ncells)).collect(); format!("(seq {})", items.join(" ")) }
            5 | 6 => { let n = rng.range(0, 4); let b = self.random(rng, depth - 1, true, ncells); format!("(loop {} {})", n, b) }
            _ => { let k = rng.range(1, 3); let items: Vec<String> = (0..k).map(|_| self.random(rng, depth - 1, in_loop, ncells)).collect(); format!("(scope {})", items.join(" ")) }
        }
    }
}
fn coolprog_input(iters: Option<u64>, cells: &[Option<f64>], prog: &str) -> String {
    format!("(coolprog (iters {}) {} (prog {}))", iters.map(|v| v.to_string()).unwrap_or("none".into()),
        tagged("cells", cells.iter().map(|c| opt_f(*c))), prog)
}
fn gen_coolprogs(rng: &mut Sm, thorough: bool) -> Vec<(&'static str, String)> {
    let mut out: Vec<(&'static str, String)> = vec![];
    let its: [Option<u64>; 4] = [None, Some(0), Some(3), Some(7)];
    let temps = [1.0, 100.0, 1e-3, 1e12, 5e-324, 1e-310, 2.2250738585072014e-308, 1.7e308, f64::INFINITY, 0.0, -3.0];
    // A. k manual executions in a row on a state with / without an (unchanged) Iterations counter
    for &it in &its {
        for &t in &temps {
            for k in [1usize, 2, 3, 5] {
                for &a in &[0.5, 0.9, 0.999999] {
                    if !thorough && (k == 5 || a == 0.999999) && rng.chance(1, 2) { continue; }
                    let mut g = PG { next: 0 };
                    let body = g.cools(&vec![(0, a); k]).join(" ");
                    out.push(("cool-prog-repeat", coolprog_input(it, &[Some(t)], &format!("(seq {})", body))));
                }
            }
        }
    }
    // A'. one component instance executed k times = (loop k) is covered below; same alpha 0 (legal) twice
    out.push(("cool-prog-repeat", coolprog_input(Some(2), &[Some(4.0)], "(seq (cool 0 0 x0000000000000000) (cool 1 0 x3fe0000000000000))")));
    // B. the counter is re-inserted between executions (same value again, another value)
    for &it in &its {
        for v in [0u64, 3, 9] {
            let mut g = PG { next: 0 };
            let c = g.cools(&[(0, 0.5), (0, 0.5), (0, 0.25), (0, 0.5), (0, 0.9)]);
            out.push(("cool-prog-seti", coolprog_input(it, &[Some(64.0)],
                &format!("(seq {} {} (seti {}) {} {} (seti {}) {})", c[0], c[1], v, c[2], c[3], v, c[4]))));
        }
    }
    // C/D. loops whose body holds several cooling components (same lens / two lenses / three lenses)
    let bodies: [&[(u64, f64)]; 6] = [&[(0, 0.5)], &[(0, 0.5), (0, 0.5)], &[(0, 0.9), (0, 0.5), (0, 0.25)], &[(0, 0.5), (1, 0.25)],
        &[(0, 0.5), (1, 0.25), (0, 0.9), (2, 0.5), (1, 0.5)], &[(1, 0.5), (1, 0.5)]];
    for &it in &[Some(0u64), Some(2), Some(5)] {
        for n in [0u64, 1, 3, 6] {
            for b in &bodies {
                let mut g = PG { next: 0 };
                let body = g.cools(b).join(" ");
                out.push(("cool-prog-loop", coolprog_input(it, &[Some(64.0), Some(3.0), Some(1e-3)], &format!("(loop {} (seq {}))", n, body))));
            }
        }
    }
    // H. a loop run again while the counter stands where the previous run stopped; continued; reset by hand
    for (a, b, mid) in [(3u64, 3u64, ""), (2, 4, ""), (3, 3, "(seti 0)"), (3, 5, "(seti 3)")] {
        let mut g = PG { next: 0 };
        let b1 = g.cools(&[(0, 0.5), (0, 0.5)]).join(" ");
        let one = g.cool(0, 0.9);
        let b2 = g.cools(&[(0, 0.5), (1, 0.5)]).join(" ");
        out.push(("cool-prog-loop", coolprog_input(Some(0), &[Some(1e6), Some(8.0)],
            &format!("(seq (loop {} (seq {})) {} {} (loop {} (seq {})))", a, b1, one, mid, b, b2))));
    }
    // E. scoped nested loops (every Scope gives its Loop a counter of its own), depth 3; unscoped nested loops share one
    {
        let mut g = PG { next: 0 };
        let (c0, c1, c2, c3, c4) = (g.cool(0, 0.5), g.cool(0, 0.9), g.cool(1, 0.5), g.cool(0, 0.5), g.cool(0, 0.99));
        for &it in &[None, Some(0u64), Some(1)] {
            out.push(("cool-prog-nested", coolprog_input(it, &[Some(1e9), Some(7.0)],
                &format!("(scope (loop 2 (seq {c0} (scope (loop 3 (seq {c1} {c2} (scope (loop 2 (seq {c3} {c3b})))))) {c4})))", c3b = c3.replace("(cool 3 ", "(cool 5 ")))));
            out.push(("cool-prog-nested", coolprog_input(it, &[Some(1e9), Some(7.0)],
                &format!("(seq {c0} (scope {c1} (scope {c3} (loop 2 {c4})) {c2}) {c0b})", c0b = c0.replace("(cool 0 ", "(cool 6 ")))));
        }
        out.push(("cool-prog-nested", coolprog_input(Some(0), &[Some(1e9), Some(7.0)], &format!("(loop 3 (seq {c0} (loop 2 (seq {c1} {c3}))))"))));
        out.push(("cool-prog-nested", coolprog_input(Some(0), &[Some(1e9), Some(7.0)], &format!("(loop 2 (seq {c0} (scope {c1} {c3}) (scope (loop 2 {c4}))))"))));
    }
    // F/G. error paths: lens target absent (first / later execution, inside a loop, inside a scope); loop without a counter
    for (it, cells, prog) in [
        (Some(0u64), vec![None, Some(1.0)], "(seq (cool 0 0 x3fe0000000000000))".to_string()),
        (Some(0), vec![Some(8.0), None], "(seq (cool 0 0 x3fe0000000000000) (cool 1 1 x3fe0000000000000) (cool 2 0 x3fe0000000000000))".to_string()),
        (Some(0), vec![Some(8.0), None], "(loop 3 (seq (cool 0 0 x3fe0000000000000) (cool 1 1 x3fe0000000000000)))".to_string()),
        (Some(1), vec![Some(8.0), None], "(seq (scope (loop 2 (seq (cool 0 0 x3fe0000000000000) (scope (cool 1 1 x3fe0000000000000))))) (cool 2 0 x3fe0000000000000))".to_string()),
        (None, vec![Some(8.0)], "(seq (cool 0 0 x3fe0000000000000) (loop 2 (cool 1 0 x3fe0000000000000)))".to_string()),
        (None, vec![Some(8.0)], "(seq (cool 0 0 x3fe0000000000000) (cool 1 0 x3ff8000000000000))".to_string()),
    ] {
        out.push(("cool-prog-err", coolprog_input(it, &cells, &prog)));
    }
    // I. random programs
    for _ in 0..(if thorough { 3000 } else { 250 }) {
        let mut g = PG { next: 0 };
        let ncells = rng.range(1, 3);
        let k = rng.range(1, 3);
        let depth = rng.range(1, 4) as u32;
        let items: Vec<String> = (0..k).map(|_| g.random(rng, depth, false, ncells)).collect();
        let cells: Vec<Option<f64>> = (0..ncells).map(|_| if rng.chance(1, 12) { None } else { Some(10f64.powf(rng.unit() * 24.0 - 12.0)) }).collect();
        let it = if rng.chance(1, 3) { None } else { Some(rng.range(0, 4)) };
        out.push(("cool-prog-random", coolprog_input(it, &cells, &format!("(seq {})", items.join(" ")))));
    }
    out
}

struct SaVisitor {
    steps: Vec<String>,
    pending: Option<(f64, f64, String, String, f64, usize)>,
    cool_before: Option<f64>,
    /// every acceptance of the run as a prepared `accept` case (input, observed output)
    accept_cases: Vec<(bool, String, String)>,
    swapped: bool,
    fb: u64,
    script: Option<std::sync::Arc<Script>>,
    id: u64,
    shadow: Sm,
    shadow_pos: usize,
    used_before: usize,
    tags: Option<(String, String)>,
    cand_tag: u64,
}
impl SaVisitor {
    fn new(seed: u64) -> Self {
        SaVisitor { steps: vec![], pending: None, cool_before: None, accept_cases: vec![], swapped: false, fb: seed, script: None,
                    id: 0, shadow: Sm::new(seed), shadow_pos: 0, used_before: 0, tags: None, cand_tag: 2 }
    }
}
impl Visitor for SaVisitor {
    fn step<Q: HProblem>(&mut self, phase: Phase, name: &'static str, _index: usize, state: &State<Q>, _problem: &Q) {
        if !self.swapped {
            // before the first draw of the run: a scripted (SplitMix-backed) generator whose words we can name
            let (id, s) = register(vec![], self.fb);
            *state.random_mut() = Random::with_rng::<ScriptRng>(id);
            self.script = Some(s);
            self.id = id;
            self.swapped = true;
        }
        let key = |i: &Individual<Q>| format!("{}@{}", Q::enc(i.solution()), fx(i.objective().value()));
        if name.contains("ExponentialAnnealingAcceptance") {
            let pops = state.populations();
            match phase {
                Phase::Before => {
                    if pops.len() >= 2 && !pops.peek(0).is_empty() && !pops.peek(1).is_empty()
                        && pops.peek(0)[0].is_evaluated() && pops.peek(1)[0].is_evaluated() {
                        let (cand, cur) = (&pops.peek(0)[0], &pops.peek(1)[0]);
                        self.pending = Some((cur.objective().value(), cand.objective().value(), key(cur), key(cand),
                                             state.get_value::<Temperature>(), pops.len()));
                        if pops.peek(0).len() != 1 || pops.peek(1).len() != 1 {
                            self.steps.push("(shape)".into());
                        }
                        self.used_before = self.script.as_ref().unwrap().used();
                        // the same frame as a prepared case: tags 2 = candidate, 1 = current (candidate also 1 when both encode
                        // the same solution), deeper populations by size only
                        self.cand_tag = if Q::enc(cand.solution()) == Q::enc(cur.solution()) { 1 } else { 2 };
                        let below: Vec<String> = (2..pops.len()).map(|d| list((0..pops.peek(d).len()).map(|k| format!("({} {})", 100 * d + k, fx(0.0))))).collect();
                        self.tags = Some((format!("(stack (({} {})) ((1 {})){}{})", self.cand_tag, fx(cand.objective().value()), fx(cur.objective().value()),
                            if below.is_empty() { "" } else { " " }, below.join(" ")), below.join(" ")));
                    } else {
                        self.steps.push("(shape)".into());
                    }
                }
                Phase::After => {
                    if let Some((cur, cand, kcur, kcand, t, h0)) = self.pending.take() {
                        let who = match pops.get_current().and_then(|c| if c.len() == 1 { c.first() } else { None }) {
                            Some(s) => {
                                let k = key(s);
                                if k == kcand && k == kcur { "both" } else if k == kcand { "cand" } else if k == kcur { "cur" } else { "none" }
                            }
                            None => "none",
                        };
                        self.steps.push(list(["acc".into(), fx(cur), fx(cand), fx(t), h0.to_string(), pops.len().to_string(), who.into()]));
                        if let Some((stack_in, below)) = self.tags.take() {
                            let used1 = self.script.as_ref().unwrap().used();
                            while self.shadow_pos < self.used_before { self.shadow.next(); self.shadow_pos += 1; }
                            let mut words = vec![];
                            while self.shadow_pos < used1 { words.push(self.shadow.next()); self.shadow_pos += 1; }
                            let nused = words.len();
                            if words.is_empty() { words.push(0); }
                            let input = accept_input(t, 0, &words, &stack_in);
                            let surv = match who { "cand" | "both" => format!("(({} {}))", self.cand_tag, fx(cand)), "cur" => format!("((1 {}))", fx(cur)), _ => "(lost)".into() };
                            let output = format!("(ok (stack {}{}{}) (t {}) (used {}))", surv, if below.is_empty() { "" } else { " " }, below, fx(t), nused);
                            self.accept_cases.push((cand <= cur, input, output));
                        }
                    }
                }
            }
        } else if name.contains("GeometricCooling") {
            let t = state.get_value::<Temperature>();
            match phase {
                Phase::Before => self.cool_before = Some(t),
                Phase::After => {
                    if let Some(b) = self.cool_before.take() {
                        self.steps.push(list(["cool".into(), fx(b), fx(t)]));
                    }
                }
            }
        } else if name == "mahf::verif::LoopPass" && phase == Phase::Before {
            self.steps.push("(pass)".into());
        }
    }
    fn done<Q: HProblem>(&mut self, _outcome: &Outcome, _state: Option<&State<Q>>, _problem: &Q) {
        if self.swapped { unregister(self.id); }
    }
}

const SA_T0: [f64; 3] = [1.0, 100.0, 1e-3];
const SA_ALPHA: [f64; 3] = [0.9, 0.99, 0.5];

/// `(run (tmpl name) (v k) (i k) (iters n) (seed s) (t0 x) (alpha x))`
fn run_run(args: &[Sx]) -> (String, Vec<(bool, String, String)>) {
    let name = field(args, "tmpl")[0].atom().unwrap().to_string();
    if name == "noisy_sa" { return run_noisy(args); }
    let v = field(args, "v")[0].nat().unwrap() as u32;
    let i = field(args, "i")[0].nat().unwrap() as u32;
    let iters = field(args, "iters")[0].nat().unwrap() as u32;
    let seed = field(args, "seed")[0].nat().unwrap();
    match run_template(&name, v, i, iters, seed, EvalKind::Sequential, SaVisitor::new(seed)) {
        Ok((vis, outcome)) => (list([outcome.tag().to_string(), tagged("steps", vis.steps)]), vis.accept_cases),
        Err(_) => ("(ctor-err (steps))".into(), vec![]),
    }
}

// ------------------------------------------------------------------ SA runs on a noisy objective (same solution, new measurement)
/// Solutions are tags; the k-th evaluation (whoever asks) returns the k-th value of a scripted sequence: a noisy /
/// time-dependent objective. Re-evaluating an unchanged solution therefore gives a candidate that encodes the SAME
/// solution as the current one but carries another objective value.
#[derive(Clone)]
struct NoisyTag {
    seq: Arc<Vec<f64>>,
    probe: hcommon::problems::Probe,
}
impl mahf::Problem for NoisyTag {
    type Encoding = u64;
    type Objective = SingleObjective;
    fn name(&self) -> &str { "noisy-tag" }
}
impl mahf::problems::ObjectiveFunction for NoisyTag {
    fn objective(&self, _s: &u64) -> SingleObjective {
        let k = self.probe.count() as usize;
        let v = self.seq[k % self.seq.len()];
        self.probe.record(v);
        SingleObjective::try_from(v).unwrap()
    }
}
impl HProblem for NoisyTag {
    fn raw_f(&self, _s: &u64) -> f64 { self.seq[0] }
    fn probe(&self) -> &hcommon::problems::Probe { &self.probe }
    fn enc(s: &u64) -> String { s.to_string() }
    fn kind(&self) -> &'static str { "tag" }
}
/// The user-supplied generation step of `sa::sa`: pass k either leaves the solution untouched (a no-op move) or
/// replaces it by a fresh tag.
#[derive(Clone, Serialize)]
struct Move { moves: Vec<bool> }
impl Component<NoisyTag> for Move {
    fn execute(&self, _: &NoisyTag, state: &mut State<NoisyTag>) -> ExecResult<()> {
        let it = state.try_get_value::<Iterations>().unwrap_or(0) as usize;
        if self.moves[it % self.moves.len()] {
            let mut pops = state.populations_mut();
            for i in pops.current_mut().iter_mut() { *i.solution_mut() = 1000 + it as u64; }
        }
        Ok(())
    }
}
const NOISY_T0: [f64; 6] = [1.0, 100.0, 1e-3, 0.0, f64::INFINITY, 1e-300];
const NOISY_ALPHA: [f64; 4] = [0.9, 0.5, 0.0, 0.99];

/// `(run (tmpl noisy_sa) (v k) (i m) (iters n) (seed s) (t0 x) (alpha x) (noise q))`: the generic `sa::sa` template (real
/// acceptance, real GeometricCooling, real Loop / Evaluator) on `NoisyTag`; `i` = how the generation moves (0 never: the real
/// `Noop`, 1 every other pass on average, 2 always), `noise` = the objective sequence (0 refining, 1 degrading, 2 noise around a
/// level, 3 signed zeros, 4 few values with ties and +inf).
fn run_noisy(args: &[Sx]) -> (String, Vec<(bool, String, String)>) {
    use mahf::heuristics::sa;
    let mv = field(args, "i")[0].nat().unwrap();
    let iters = field(args, "iters")[0].nat().unwrap() as u32;
    let seed = field(args, "seed")[0].nat().unwrap();
    let t0 = field(args, "t0")[0].float().unwrap();
    let alpha = field(args, "alpha")[0].float().unwrap();
    let noise = field(args, "noise")[0].nat().unwrap();
    let mut r = Sm::new(seed ^ 0x0153);
    let len = iters as usize + 2;
    let seq: Vec<f64> = (0..len).map(|k| match noise {
        0 => 100.0 - k as f64,
        1 => k as f64,
        2 => 10.0 + (r.unit() * 2.0 - 1.0),
        3 => if r.chance(1, 2) { -0.0 } else { 0.0 },
        _ => *r.pick(&[1.0, 2.0, f64::INFINITY, 1.0, 0.5]),
    }).collect();
    let moves: Vec<bool> = (0..len).map(|_| match mv { 0 => false, 1 => r.chance(1, 2), _ => true }).collect();
    let problem = NoisyTag { seq: Arc::new(seq), probe: hcommon::problems::Probe::new(false) };
    let generation: Box<dyn Component<NoisyTag>> = if mv == 0 { mahf::components::utils::Noop::new() } else { Box::new(Move { moves }) };
    let cooling = match GeometricCooling::new::<NoisyTag>(alpha, ValueOf::<Temperature>::new()) {
        Ok(c) => c,
        Err(_) => return ("(ctor-err (steps))".into(), vec![]),
    };
    let config: mahf::Configuration<NoisyTag> = mahf::Configuration::builder()
        .do_(sa::sa::<NoisyTag, mahf::identifier::Global>(
            sa::Parameters { t_0: t0, generation, cooling_schedule: cooling, constraints: mahf::components::utils::Noop::new() },
            LessThanN::iterations(iters)))
        .build();
    let shared = Arc::new(Mutex::new(SaVisitor::new(seed)));
    let (obs_v, obs_p) = (shared.clone(), problem.clone());
    let res = catch(|| {
        config.optimize_with(&problem, |state: &mut State<NoisyTag>| {
            state.insert(Random::new(seed));
            state.insert_evaluator(mahf::problems::Sequential::<NoisyTag>::new());
            let first = SingleObjective::try_from([101.0, -1.0, 10.0, -0.0, 1.0][(noise as usize).min(4)]).unwrap();
            state.populations_mut().push(vec![Individual::<NoisyTag>::new(1, first)]);
            let (v, p) = (obs_v.clone(), obs_p.clone());
            state.insert(mahf::verif::StepObserver::<NoisyTag>(Box::new(move |ph, name, idx, st| {
                v.lock().unwrap().step(ph, name, idx, st, &p);
            })));
            Ok(())
        }).map(|_state| ())
    });
    drop(obs_v);
    let tag = match res { Some(Ok(())) => "ok", Some(Err(_)) => "err", None => "panic" };
    let mut g = shared.lock().unwrap_or_else(|e| e.into_inner());
    if g.swapped { unregister(g.id); }
    (list([tag.to_string(), tagged("steps", g.steps.clone())]), std::mem::take(&mut g.accept_cases))
}

fn run_case(input: &Sx) -> String {
    let (kind, args) = input.head().unwrap();
    match kind {
        "accept" => run_accept(args),
        "freq" => run_freq(args),
        "chain" => run_chain(args),
        "cool" => run_cool(args),
        "coolprog" => run_coolprog(args),
        "run" => run_run(args).0,
        _ => panic!("unknown case kind {kind}"),
    }
}

fn accept_input(t: f64, fb: u64, words: &[u64], stack: &str) -> String {
    format!("(accept (t {}) (fb {}) {} {})", fx(t), fb, tagged("words", words.iter().map(|w| w.to_string())), stack)
}
/// Candidate and current with chosen solutions (tags): equal tags = both encode the same solution.
fn two_tags(cur: f64, cand: f64, tcur: u64, tcand: u64) -> String {
    format!("(stack (({} {})) (({} {})) ((7 {}) (8 {})))", tcand, fx(cand), tcur, fx(cur), fx(0.5), fx(0.25))
}
/// Draw numerators around the acceptance threshold of `p`, plus the two ends.
fn ks_around(p: f64, rng: &mut Sm) -> Vec<u64> {
    let two53 = (1u64 << 53) as f64;
    let mut ks: Vec<u64> = vec![0, (1u64 << 53) - 1, rng.next() >> 11];
    let kf = (p * two53).ceil();
    if kf < two53 {
        let k = kf as u64;
        ks.push(k);
        if k > 0 { ks.push(k - 1); }
        if k + 1 < (1u64 << 53) { ks.push(k + 1); }
    }
    ks
}
fn two(cur: f64, cand: f64) -> String {
    format!("(stack ((2 {})) ((1 {})) ((7 {}) (8 {})))", fx(cand), fx(cur), fx(0.5), fx(0.25))
}

fn main() {
    quiet_panics();
    let a = args();
    let mut out = Out::new();
    if let Some(r) = a.replay {
        let sx = Sx::parse(&r).expect("bad replay input");
        out.case("replay", &r, &run_case(&sx));
        out.finish();
        return;
    }
    let mut rng = Sm::new(a.seed ^ 0xC17);
    let mut emit = |site: &str, input: String| {
        let sx = Sx::parse(&input).unwrap();
        out.case(site, &input, &run_case(&sx));
    };

    let bases = [0.0, 1.0, -5.0, 1.0e6, 123.456];
    let mags: Vec<f64> = if a.thorough { (-9..=9).map(|e| 10f64.powi(e)).collect() } else { vec![1e-9, 1e-6, 1e-3, 1.0, 1e3, 1e6, 1e9] };
    let temps: Vec<f64> = if a.thorough { (-12..=12).map(|e| 10f64.powi(e)).collect() } else { (-4..=4).map(|e| 10f64.powi(3 * e)).collect() };
    let two53 = (1u64 << 53) as f64;

    // 1. exact decisions: grid of (cur, cand, T) × draws around the threshold
    for (bi, &base) in bases.iter().enumerate() {
        let mut deltas = vec![0.0];
        for &m in &mags { deltas.push(m); deltas.push(-m); }
        for &d in &deltas {
            let cur = base;
            let cand = base + d;
            let mut ts = temps.clone();
            if d > 0.0 { for r in [0.25, 0.5, 1.0, 2.0, 5.0, 20.0] { ts.push((cand - cur) * r); } }
            // p at the very bottom of the double range: 1e-304, 4e-322, 5e-324 (smallest positive), 0 — the draw u = 0 tells 0 < p from p = 0
            if d > 0.0 { for q in [700.0, 740.0, 745.0, 746.0] { ts.push((cand - cur) / q); } }
            for &t in &ts {
                if !(t > 0.0) { continue; }
                if !a.thorough && bi >= 2 && rng.chance(1, 2) { continue; }
                let p = ((cur - cand) / t).exp();
                let kf = (p * two53).ceil();
                let mut ks: Vec<u64> = vec![0, (1u64 << 53) - 1, rng.next() >> 11];
                if kf < two53 {
                    let k = kf as u64;
                    ks.push(k);
                    if k > 0 { ks.push(k - 1); }
                    if k + 1 < (1u64 << 53) { ks.push(k + 1); }
                }
                let site = if cand < cur { "accept-better" } else if cand == cur { "accept-equal" } else { "accept-worse" };
                for &k in &ks {
                    let w = word_for_k(k, rng.next());
                    emit(site, accept_input(t, rng.next() % 1000, &[w], &two(cur, cand)));
                }
                // the same cell with candidate and current encoding the SAME solution (equal tags, objective values as above:
                // a re-evaluated / noisy measurement); the survivor is told by its objective value
                let site = if cand < cur { "accept-same-better" } else if cand == cur { "accept-same-equal" } else { "accept-same-worse" };
                for (j, &k) in ks.iter().enumerate() {
                    if !a.thorough && j == 2 { continue; }
                    let w = word_for_k(k, rng.next());
                    let tag = [1u64, 2, 7][(j + bi) % 3]; // 7 also occurs in the population below
                    emit(site, accept_input(t, rng.next() % 1000, &[w], &two_tags(cur, cand, tag, tag)));
                }
            }
        }
    }
    // 2. frame: other stack shapes (deeper stacks, missing / surplus individuals, too few populations)
    let shapes = [
        format!("(stack ((2 {})) ((1 {})))", fx(1.0), fx(2.0)),
        format!("(stack ((2 {})) ((1 {})))", fx(3.0), fx(2.0)),
        format!("(stack ((2 {})) ((1 {})) () ((5 {})) ((6 {}) (9 {})))", fx(3.0), fx(2.0), fx(0.0), fx(1.0), fx(1.5)),
        format!("(stack ((2 {})) ())", fx(1.0)),
        format!("(stack () ((1 {})))", fx(1.0)),
        "(stack () ())".to_string(),
        format!("(stack ((2 {})))", fx(1.0)),
        "(stack)".to_string(),
        format!("(stack ((2 {}) (3 {})) ((1 {})))", fx(1.0), fx(0.0), fx(2.0)),
        format!("(stack ((2 {})) ((1 {}) (4 {})))", fx(3.0), fx(2.0), fx(0.0)),
        format!("(stack ((2 {}) (3 {})) ((1 {}) (4 {})))", fx(1.0), fx(5.0), fx(2.0), fx(0.0)),
        // equal solutions: in the frame, and in the populations below
        format!("(stack ((1 {})) ((1 {})))", fx(1.0), fx(2.0)),
        format!("(stack ((1 {})) ((1 {})))", fx(3.0), fx(2.0)),
        format!("(stack ((1 {})) ((1 {})))", fx(2.0), fx(2.0)),
        format!("(stack ((5 {})) ((5 {})) () ((5 {})) ((5 {}) (5 {})))", fx(3.0), fx(2.0), fx(3.0), fx(2.0), fx(1.0)),
        format!("(stack ((5 {})) ((6 {})) ((5 {})) ((6 {})))", fx(1.0), fx(2.0), fx(1.0), fx(2.0)),
        format!("(stack ((1 {}) (1 {})) ((1 {})))", fx(1.0), fx(0.0), fx(2.0)),
    ];
    for s in &shapes {
        for &t in &[1e-9, 1.0, 1e9] {
            for k in [0u64, (1u64 << 52), (1u64 << 53) - 1] {
                emit("accept-frame", accept_input(t, 1, &[word_for_k(k, 0)], s));
            }
        }
    }
    // 2b. infinite objective values (legal `SingleObjective`s: an infeasible solution is +inf)
    let inf = f64::INFINITY;
    for &t in &[1e-9, 1e-3, 1.0, 1e3, 1e9] {
        for k in [0u64, 1u64 << 52, (1u64 << 53) - 1] {
            emit("accept-equal-inf", accept_input(t, 1, &[word_for_k(k, 0)], &two(inf, inf)));
            emit("accept-inf", accept_input(t, 1, &[word_for_k(k, 0)], &two(inf, 1.5)));
            emit("accept-inf", accept_input(t, 1, &[word_for_k(k, 0)], &two(-2.5, inf)));
        }
    }
    // 2c. exact ties and the temperature extremes: every pair of numerically equal objective values (signed zeros, +inf/+inf,
    //     tiny / huge values) and worse / better pairs, at T = 0, subnormal, smallest normal, ..., f64::MAX, +inf; distinct
    //     and equal solutions
    let xtemps = [0.0, 5e-324, 1e-310, 2.2250738585072014e-308, 1e-300, 1e-12, 1.0, 1e12, 1e300, f64::MAX, inf];
    let ties: [(f64, f64); 10] = [(-0.0, 0.0), (0.0, -0.0), (0.0, 0.0), (-0.0, -0.0), (inf, inf), (1.0, 1.0), (-5.0, -5.0),
        (1e300, 1e300), (5e-324, 5e-324), (-1e-310, -1e-310)];
    for &(cur, cand) in &ties {
        for &t in &xtemps {
            for k in [0u64, 1u64 << 52, (1u64 << 53) - 1] {
                for (tcur, tcand) in [(1u64, 2u64), (1, 1)] {
                    if !a.thorough && k == (1u64 << 52) && tcand == 1 { continue; }
                    emit("accept-tie", accept_input(t, 1, &[word_for_k(k, rng.next())], &two_tags(cur, cand, tcur, tcand)));
                }
            }
        }
    }
    let pairs: [(f64, f64); 12] = [(0.0, 1.0), (-0.0, 5e-324), (0.0, 5e-324), (-5e-324, -0.0), (-5e-324, 0.0), (1.0, 1.0 + f64::EPSILON),
        (-5.0, 1e6), (1e-310, 3e-310), (-1e300, 1e300), (1.0, 1e300), (0.0, inf), (-0.0, 2.5)];
    for &(lo, hi) in &pairs {
        for &t in &xtemps {
            let p = ((lo - hi) / t).exp();
            let ks = if p.is_nan() { vec![0, 1u64 << 52, (1u64 << 53) - 1] } else { ks_around(p, &mut rng) };
            for (j, &k) in ks.iter().enumerate() {
                let (tcur, tcand) = if j % 2 == 0 { (1u64, 2u64) } else { (1, 1) };
                emit("accept-worse-extreme", accept_input(t, 1, &[word_for_k(k, rng.next())], &two_tags(lo, hi, tcur, tcand)));
                if j < 3 {
                    emit("accept-better-extreme", accept_input(t, 1, &[word_for_k(k, rng.next())], &two_tags(hi, lo, tcur, tcand)));
                }
            }
        }
    }
    // 2d. chains: sequences of passes on ONE state (the survivor of a pass is the current solution of the next), solutions
    //     from a small set (equal solutions with new objective values are frequent), temperatures constant / cooled / extreme
    {
        let chain_input = |cur: (u64, f64), rest: &str, steps: &[(u64, f64, f64, u64)], fb: u64| -> String {
            format!("(chain (fb {}) (cur ({} {})) (rest{}{}) {})", fb, cur.0, fx(cur.1), if rest.is_empty() { "" } else { " " }, rest,
                tagged("steps", steps.iter().map(|s| format!("({} {} {} {})", s.0, fx(s.1), fx(s.2), s.3))))
        };
        let mid = word_for_k(1u64 << 52, 0);
        let hi_w = word_for_k((1u64 << 53) - 1, 0);
        // the same solution measured again and again, each time a little better / worse / equal, at every temperature
        for &t in &xtemps {
            for &w in &[0u64, mid, hi_w] {
                let better: Vec<(u64, f64, f64, u64)> = (1..=5).map(|k| (1u64, 100.0 - k as f64, t, w)).collect();
                emit("accept-chain", chain_input((1, 100.0), "", &better, 1));
                let worse: Vec<(u64, f64, f64, u64)> = (1..=5).map(|k| (1u64, 100.0 + k as f64, t, w)).collect();
                emit("accept-chain", chain_input((1, 100.0), "((7 x3fe0000000000000))", &worse, 1));
                let zeros: Vec<(u64, f64, f64, u64)> = (0..6).map(|k| ((k % 2) as u64 + 1, if k % 3 == 0 { 0.0 } else { -0.0 }, t, w)).collect();
                emit("accept-chain", chain_input((1, -0.0), "", &zeros, 1));
                let mixed: Vec<(u64, f64, f64, u64)> = vec![(1, 3.0, t, w), (1, 5.0, t, w), (2, 5.0, t, w), (2, 4.0, t, w), (2, inf, t, w), (3, 4.0, t, w), (3, 4.0, t, w)];
                emit("accept-chain", chain_input((1, 4.0), "((1 x4010000000000000)) ()", &mixed, 1));
            }
        }
        // random chains
        let pool = [0.0, -0.0, 1.0, 1.0 + f64::EPSILON, 2.0, -3.5, 1e6, inf, 5e-324];
        for _ in 0..(if a.thorough { 3000 } else { 300 }) {
            let n = rng.range(1, 10) as usize;
            let ntags = rng.range(1, 3);
            let base = 10f64.powf(rng.unit() * 6.0 - 3.0);
            let noisy = rng.chance(1, 2);
            let objv = |rng: &mut Sm| if noisy { base * (1.0 + 0.1 * (rng.unit() * 2.0 - 1.0)) } else { *rng.pick(&pool) };
            let cur = (rng.range(1, ntags), objv(&mut rng));
            let tmode = rng.range(0, 3);
            let mut t = match tmode { 0 => 10f64.powf(rng.unit() * 8.0 - 4.0) * if noisy { base * 0.1 } else { 1.0 }, _ => *rng.pick(&xtemps) };
            let alpha = *rng.pick(&[0.5, 0.9, 0.0, 1e-200]);
            let mut steps = vec![];
            let mut prev = cur.1;
            for _ in 0..n {
                let o = objv(&mut rng);
                let p = ((prev - o) / t).exp();
                let w = if p > 0.0 && p < 1.0 && rng.chance(1, 2) {
                    let k = (p * (1u64 << 53) as f64).ceil() as u64;
                    word_for_k((k + rng.range(0, 2)).saturating_sub(1).min((1u64 << 53) - 1), rng.next())
                } else { rng.next() };
                steps.push((rng.range(1, ntags), o, t, w));
                prev = o;
                match tmode { 1 => t *= alpha, 2 => t = *rng.pick(&xtemps), _ => {} }
            }
            let rest = if rng.chance(1, 3) { "((1 x3ff0000000000000) (2 x4000000000000000)) ()" } else { "" };
            emit("accept-chain", chain_input(cur, rest, &steps, rng.next() % 1000));
        }
    }
    // 3. acceptance frequencies
    let n = if a.thorough { 20000 } else { 2000 };
    for kind in ["chacha", "sm"] {
        for &base in &[1.0, -5.0] {
            let mut deltas = vec![0.0];
            for &m in &mags { deltas.push(m); deltas.push(-m); }
            for &d in &deltas {
                let cur = base;
                let cand = base + d;
                let mut ts: Vec<f64> = temps.iter().cloned().filter(|_| a.thorough || rng.chance(1, 2)).collect();
                if d > 0.0 { for r in [0.25, 0.5, 1.0, 2.0, 5.0, 20.0] { ts.push((cand - cur) * r); } }
                for &t in &ts {
                    let site = if cand < cur { "freq-better" } else if cand == cur { "freq-equal" } else { "freq-worse" };
                    let it = if rng.chance(1, 2) { format!(" (it {})", rng.range(0, 5)) } else { String::new() };
                    // every third cell: candidate and current encode the same solution
                    let same = if rng.chance(1, 3) { " (same 1)" } else { "" };
                    emit(site, format!("(freq (kind {}) (cur {}) (cand {}) (t {}) (n {}) (seed {}){}{})", kind, fx(cur), fx(cand), fx(t), n, rng.next() % 1_000_000, it, same));
                }
            }
        }
        // ties (signed zeros) and worse / better pairs at the temperature extremes, distinct and equal solutions
        for &(cur, cand) in &[(-0.0, 0.0), (0.0, -0.0), (1.0, 1.0), (1.0, 2.0), (2.0, 1.0), (0.0, 5e-324), (-0.0, 1.0)] {
            for &t in &[0.0, 5e-324, 1e-310, 1e300, inf] {
                for same in ["", " (same 1)"] {
                    let site = if cand < cur { "freq-better" } else if cand == cur { "freq-equal" } else { "freq-worse" };
                    emit(site, format!("(freq (kind {}) (cur {}) (cand {}) (t {}) (n {}) (seed {}){})", kind, fx(cur), fx(cand), fx(t), n / 4, rng.next() % 1_000_000, same));
                }
            }
        }
    }
    // 4. cooling
    for &t in &[1e-12, 1e-3, 1.0, 100.0, 1e12, 0.0] {
        for &alpha in &[0.0, 0.5, 0.9, 0.99, 0.999999, 1e-3, 1.0, 1.5, -0.1] {
            for n in [1u64, 2, 5, 40] {
                emit("cool", format!("(cool (t {}) (alpha {}) (n {}))", fx(t), fx(alpha), n));
            }
        }
    }
    for _ in 0..(if a.thorough { 2000 } else { 200 }) {
        let t = 10f64.powf(rng.unit() * 24.0 - 12.0);
        let alpha = rng.unit();
        emit("cool", format!("(cool (t {}) (alpha {}) (n {}))", fx(t), fx(alpha), rng.range(1, 30)));
    }
    // 4b. cooling components inside programs (several executions per Iterations value, loops, scopes, lenses)
    for (site, input) in gen_coolprogs(&mut rng, a.thorough) {
        emit(site, input);
    }
    // 5. template runs; every acceptance of a run is re-emitted as a prepared case with the exact word it consumed
    drop(emit);
    let seeds = if a.thorough { 6 } else { 2 };
    for name in ["real_sa", "permutation_sa"] {
        for v in 0..3u32 {
            for i in 0..4u32 {
                for s in 0..seeds {
                    let iters = if a.thorough { 200 } else { 40 };
                    let input = format!("(run (tmpl {}) (v {}) (i {}) (iters {}) (seed {}) (t0 {}) (alpha {}))",
                        name, v, i, iters, a.seed * 100 + s, fx(SA_T0[v as usize]), fx(SA_ALPHA[v as usize]));
                    let sx = Sx::parse(&input).unwrap();
                    let (_, args) = sx.head().unwrap();
                    let (output, cases) = run_run(args);
                    out.case("run", &input, &output);
                    for (not_worse, ci, co) in cases {
                        let site = if not_worse { "run-accept-better" } else { "run-accept" };
                        out.case(site, &ci, &co);
                    }
                }
            }
        }
    }
    // 5b. the generic `sa::sa` template on a noisy objective: generation that leaves the solution untouched (real Noop) /
    //     sometimes / always moves, objective sequences refining, degrading, noisy, signed zeros, few values with ties and +inf
    for noise in 0..5u64 {
        for mv in 0..3u64 {
            for s in 0..(if a.thorough { 6 } else { 2 }) {
                let t0 = NOISY_T0[((noise + mv + s) % 6) as usize];
                let alpha = NOISY_ALPHA[((noise * 3 + mv + s) % 4) as usize];
                let alpha = if t0.is_infinite() && alpha == 0.0 { 0.5 } else { alpha }; // inf * 0 is NaN: not a temperature
                let iters = if a.thorough { 60 } else { 20 };
                let input = format!("(run (tmpl noisy_sa) (v 0) (i {}) (iters {}) (seed {}) (t0 {}) (alpha {}) (noise {}))",
                    mv, iters, a.seed * 100 + s, fx(t0), fx(alpha), noise);
                let sx = Sx::parse(&input).unwrap();
                let (_, args) = sx.head().unwrap();
                let (output, cases) = run_run(args);
                out.case("run-noisy", &input, &output);
                for (not_worse, ci, co) in cases {
                    let site = if not_worse { "run-accept-better" } else { "run-accept" };
                    out.case(site, &ci, &co);
                }
            }
        }
    }
    out.finish();
}
