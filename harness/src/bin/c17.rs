//! C17 — simulated-annealing acceptance (Metropolis rule) and geometric cooling.
//! Runs the REAL `ExponentialAnnealingAcceptance` / `GeometricCooling` on prepared states with a
//! scripted generator (exact decisions around the threshold), on seeded streams (acceptance
//! frequencies), and observes both inside `real_sa` / `permutation_sa` template runs.
#[path = "../c17_script_rng.rs"]
mod script;

use hcommon::problems::TagProblem;
use hcommon::templates::{run_template, EvalKind, HProblem, Outcome, Visitor};
use hcommon::*;
use mahf::components::mapping::sa::GeometricCooling;
use mahf::components::replacement::sa::{ExponentialAnnealingAcceptance, Temperature};
use mahf::lens::ValueOf;
use mahf::state::common::Populations;
use mahf::verif::Phase;
use mahf::{Component, Individual, Random, SingleObjective, State};
use script::*;

type P = TagProblem;

fn ind(tag: u64, obj: f64) -> Individual<P> {
    Individual::new(tag, SingleObjective::try_from(obj).unwrap())
}
fn pop_of(sx: &Sx) -> Vec<Individual<P>> {
    sx.items().unwrap().iter().map(|i| {
        let v = i.items().unwrap();
        ind(v[0].nat().unwrap(), v[1].float().unwrap())
    }).collect()
}
fn pop_s(p: &[Individual<P>]) -> String {
    list(p.iter().map(|i| list([i.solution().to_string(), fx(i.objective().value())])))
}
fn stack_s(state: &State<P>) -> String {
    let pops = state.populations();
    tagged("stack", (0..pops.len()).map(|d| pop_s(pops.peek(d))))
}
fn field<'a>(args: &'a [Sx], name: &str) -> &'a [Sx] {
    for a in args {
        if let Some((h, rest)) = a.head() {
            if h == name { return rest; }
        }
    }
    panic!("missing field {name}")
}

/// `(accept (t xT) (fb n) (words w*) (stack P*))`, stack top first.
fn run_accept(args: &[Sx]) -> String {
    let t = field(args, "t")[0].float().unwrap();
    let fb = field(args, "fb")[0].nat().unwrap();
    let words: Vec<u64> = field(args, "words").iter().map(|w| w.nat().unwrap()).collect();
    let pops: Vec<Vec<Individual<P>>> = field(args, "stack").iter().map(pop_of).collect();
    let (id, scr) = register(words, fb);
    let mut state: State<P> = State::new();
    state.insert(Populations::<P>::new());
    state.insert(Random::with_rng::<ScriptRng>(id));
    state.insert(Temperature(t));
    for p in pops.into_iter().rev() {
        state.populations_mut().push(p);
    }
    let c = ExponentialAnnealingAcceptance::new::<P>(1.0);
    let r = catch(|| c.execute(&TagProblem, &mut state));
    unregister(id);
    let status = match r { Some(Ok(())) => "ok", Some(Err(_)) => "err", None => "panic" };
    // after a panic the RefCell guards were released by unwinding; the state is still readable
    let stack = catch(|| stack_s(&state)).unwrap_or("(stack-unreadable)".into());
    let t_after = catch(|| state.get_value::<Temperature>()).unwrap_or(f64::NAN);
    list([status.to_string(), stack, tagged("t", [fx(t_after)]), tagged("used", [scr.used().to_string()])])
}

/// `(freq (kind chacha|sm) (cur x) (cand x) (t x) (n N) (seed s))` → `((acc k) (used d))`
fn run_freq(args: &[Sx]) -> String {
    let kind = field(args, "kind")[0].atom().unwrap().to_string();
    let cur = field(args, "cur")[0].float().unwrap();
    let cand = field(args, "cand")[0].float().unwrap();
    let t = field(args, "t")[0].float().unwrap();
    let n = field(args, "n")[0].nat().unwrap();
    let seed = field(args, "seed")[0].nat().unwrap();
    let mut state: State<P> = State::new();
    state.insert(Populations::<P>::new());
    let (id, scr) = register(vec![], seed);
    if kind == "sm" { state.insert(Random::with_rng::<ScriptRng>(id)); } else { state.insert(Random::new(seed)); }
    state.insert(Temperature(t));
    let c = ExponentialAnnealingAcceptance::new::<P>(1.0);
    let mut acc = 0u64;
    let mut bad = 0u64;
    for _ in 0..n {
        state.populations_mut().push(vec![ind(1, cur)]);
        state.populations_mut().push(vec![ind(2, cand)]);
        let r = catch(|| c.execute(&TagProblem, &mut state));
        let ok = matches!(r, Some(Ok(())));
        let (h, who) = { let p = state.populations(); (p.len(), p.get_current().and_then(|c| c.first().map(|i| *i.solution()))) };
        if !ok || h != 1 { bad += 1; }
        match who { Some(2) => acc += 1, Some(1) => {}, _ => bad += 1 }
        while state.populations().len() > 0 { state.populations_mut().pop(); }
    }
    unregister(id);
    list([tagged("acc", [acc.to_string()]), tagged("bad", [bad.to_string()]), tagged("used", [scr.used().to_string()])])
}

/// `(cool (t x) (alpha x) (n k))` → `(ok x*)` temperatures after each execution, or `(e ctor)`.
fn run_cool(args: &[Sx]) -> String {
    let t = field(args, "t")[0].float().unwrap();
    let alpha = field(args, "alpha")[0].float().unwrap();
    let n = field(args, "n")[0].nat().unwrap();
    let c: Box<dyn Component<P>> = match GeometricCooling::new::<P>(alpha, ValueOf::<Temperature>::new()) {
        Ok(c) => c,
        Err(_) => return "(e ctor)".into(),
    };
    let mut state: State<P> = State::new();
    state.insert(Populations::<P>::new());
    state.insert(Random::new(0));
    state.insert(Temperature(t));
    let mut ts = vec![];
    for _ in 0..n {
        match catch(|| c.execute(&TagProblem, &mut state)) {
            Some(Ok(())) => ts.push(fx(state.get_value::<Temperature>())),
            Some(Err(_)) => return "(e exec)".into(),
            None => return "panic".into(),
        }
    }
    tagged("ok", ts)
}

struct SaVisitor {
    steps: Vec<String>,
    pending: Option<(f64, f64, String, String, f64, usize)>,
    cool_before: Option<f64>,
    /// every acceptance of the run as a prepared `accept` case (input, observed output)
    accept_cases: Vec<(String, String)>,
    swapped: bool,
    fb: u64,
    script: Option<std::sync::Arc<Script>>,
    id: u64,
    shadow: Sm,
    shadow_pos: usize,
    used_before: usize,
    tags: Option<(String, String)>,
}
impl SaVisitor {
    fn new(seed: u64) -> Self {
        SaVisitor { steps: vec![], pending: None, cool_before: None, accept_cases: vec![], swapped: false, fb: seed, script: None,
                    id: 0, shadow: Sm::new(seed), shadow_pos: 0, used_before: 0, tags: None }
    }
}
impl Visitor for SaVisitor {
    fn step<Q: HProblem>(&mut self, phase: Phase, name: &'static str, _index: usize, state: &State<Q>, _problem: &Q) {
        if !self.swapped {
            // before the first draw of the run: a scripted (SplitMix-backed) generator whose words we can name
            let (id, s) = register(vec![], self.fb);
            *state.random_mut() = Random::with_rng::<ScriptRng>(id);
            self.script = Some(s);
            self.id = id;
            self.swapped = true;
        }
        let key = |i: &Individual<Q>| format!("{}@{}", Q::enc(i.solution()), fx(i.objective().value()));
        if name.contains("ExponentialAnnealingAcceptance") {
            let pops = state.populations();
            match phase {
                Phase::Before => {
                    if pops.len() >= 2 && !pops.peek(0).is_empty() && !pops.peek(1).is_empty()
                        && pops.peek(0)[0].is_evaluated() && pops.peek(1)[0].is_evaluated() {
                        let (cand, cur) = (&pops.peek(0)[0], &pops.peek(1)[0]);
                        self.pending = Some((cur.objective().value(), cand.objective().value(), key(cur), key(cand),
                                             state.get_value::<Temperature>(), pops.len()));
                        if pops.peek(0).len() != 1 || pops.peek(1).len() != 1 {
                            self.steps.push("(shape)".into());
                        }
                        self.used_before = self.script.as_ref().unwrap().used();
                        // the same frame as a prepared case: tags 2 = candidate, 1 = current, deeper populations by size only
                        let below: Vec<String> = (2..pops.len()).map(|d| list((0..pops.peek(d).len()).map(|k| format!("({} {})", 100 * d + k, fx(0.0))))).collect();
                        self.tags = Some((format!("(stack ((2 {})) ((1 {})){}{})", fx(cand.objective().value()), fx(cur.objective().value()),
                            if below.is_empty() { "" } else { " " }, below.join(" ")), below.join(" ")));
                    } else {
                        self.steps.push("(shape)".into());
                    }
                }
                Phase::After => {
                    if let Some((cur, cand, kcur, kcand, t, h0)) = self.pending.take() {
                        let who = match pops.get_current().and_then(|c| if c.len() == 1 { c.first() } else { None }) {
                            Some(s) => {
                                let k = key(s);
                                if k == kcand && k == kcur { "both" } else if k == kcand { "cand" } else if k == kcur { "cur" } else { "none" }
                            }
                            None => "none",
                        };
                        self.steps.push(list(["acc".into(), fx(cur), fx(cand), fx(t), h0.to_string(), pops.len().to_string(), who.into()]));
                        if let Some((stack_in, below)) = self.tags.take() {
                            let used1 = self.script.as_ref().unwrap().used();
                            while self.shadow_pos < self.used_before { self.shadow.next(); self.shadow_pos += 1; }
                            let mut words = vec![];
                            while self.shadow_pos < used1 { words.push(self.shadow.next()); self.shadow_pos += 1; }
                            let nused = words.len();
                            if words.is_empty() { words.push(0); }
                            let input = accept_input(t, 0, &words, &stack_in);
                            let surv = match who { "cand" | "both" => format!("((2 {}))", fx(cand)), "cur" => format!("((1 {}))", fx(cur)), _ => "(lost)".into() };
                            let output = format!("(ok (stack {}{}{}) (t {}) (used {}))", surv, if below.is_empty() { "" } else { " " }, below, fx(t), nused);
                            self.accept_cases.push((input, output));
                        }
                    }
                }
            }
        } else if name.contains("GeometricCooling") {
            let t = state.get_value::<Temperature>();
            match phase {
                Phase::Before => self.cool_before = Some(t),
                Phase::After => {
                    if let Some(b) = self.cool_before.take() {
                        self.steps.push(list(["cool".into(), fx(b), fx(t)]));
                    }
                }
            }
        } else if name == "mahf::verif::LoopPass" && phase == Phase::Before {
            self.steps.push("(pass)".into());
        }
    }
    fn done<Q: HProblem>(&mut self, _outcome: &Outcome, _state: Option<&State<Q>>, _problem: &Q) {
        if self.swapped { unregister(self.id); }
    }
}

const SA_T0: [f64; 3] = [1.0, 100.0, 1e-3];
const SA_ALPHA: [f64; 3] = [0.9, 0.99, 0.5];

/// `(run (tmpl name) (v k) (i k) (iters n) (seed s) (t0 x) (alpha x))`
fn run_run(args: &[Sx]) -> (String, Vec<(String, String)>) {
    let name = field(args, "tmpl")[0].atom().unwrap().to_string();
    let v = field(args, "v")[0].nat().unwrap() as u32;
    let i = field(args, "i")[0].nat().unwrap() as u32;
    let iters = field(args, "iters")[0].nat().unwrap() as u32;
    let seed = field(args, "seed")[0].nat().unwrap();
    match run_template(&name, v, i, iters, seed, EvalKind::Sequential, SaVisitor::new(seed)) {
        Ok((vis, outcome)) => (list([outcome.tag().to_string(), tagged("steps", vis.steps)]), vis.accept_cases),
        Err(_) => ("(ctor-err (steps))".into(), vec![]),
    }
}

fn run_case(input: &Sx) -> String {
    let (kind, args) = input.head().unwrap();
    match kind {
        "accept" => run_accept(args),
        "freq" => run_freq(args),
        "cool" => run_cool(args),
        "run" => run_run(args).0,
        _ => panic!("unknown case kind {kind}"),
    }
}

fn accept_input(t: f64, fb: u64, words: &[u64], stack: &str) -> String {
    format!("(accept (t {}) (fb {}) {} {})", fx(t), fb, tagged("words", words.iter().map(|w| w.to_string())), stack)
}
fn two(cur: f64, cand: f64) -> String {
    format!("(stack ((2 {})) ((1 {})) ((7 {}) (8 {})))", fx(cand), fx(cur), fx(0.5), fx(0.25))
}

fn main() {
    quiet_panics();
    let a = args();
    let mut out = Out::new();
    if let Some(r) = a.replay {
        let sx = Sx::parse(&r).expect("bad replay input");
        out.case("replay", &r, &run_case(&sx));
        out.finish();
        return;
    }
    let mut rng = Sm::new(a.seed ^ 0xC17);
    let mut emit = |site: &str, input: String| {
        let sx = Sx::parse(&input).unwrap();
        out.case(site, &input, &run_case(&sx));
    };

    let bases = [0.0, 1.0, -5.0, 1.0e6, 123.456];
    let mags: Vec<f64> = if a.thorough { (-9..=9).map(|e| 10f64.powi(e)).collect() } else { vec![1e-9, 1e-6, 1e-3, 1.0, 1e3, 1e6, 1e9] };
    let temps: Vec<f64> = if a.thorough { (-12..=12).map(|e| 10f64.powi(e)).collect() } else { (-4..=4).map(|e| 10f64.powi(3 * e)).collect() };
    let two53 = (1u64 << 53) as f64;

    // 1. exact decisions: grid of (cur, cand, T) × draws around the threshold
    for (bi, &base) in bases.iter().enumerate() {
        let mut deltas = vec![0.0];
        for &m in &mags { deltas.push(m); deltas.push(-m); }
        for &d in &deltas {
            let cur = base;
            let cand = base + d;
            let mut ts = temps.clone();
            if d > 0.0 { for r in [0.25, 0.5, 1.0, 2.0, 5.0, 20.0] { ts.push((cand - cur) * r); } }
            for &t in &ts {
                if !(t > 0.0) { continue; }
                if !a.thorough && bi >= 2 && rng.chance(1, 2) { continue; }
                let p = ((cur - cand) / t).exp();
                let kf = (p * two53).ceil();
                let mut ks: Vec<u64> = vec![0, (1u64 << 53) - 1, rng.next() >> 11];
                if kf < two53 {
                    let k = kf as u64;
                    ks.push(k);
                    if k > 0 { ks.push(k - 1); }
                    if k + 1 < (1u64 << 53) { ks.push(k + 1); }
                }
                let site = if cand < cur { "accept-better" } else if cand == cur { "accept-equal" } else { "accept-worse" };
                for k in ks {
                    let w = word_for_k(k, rng.next());
                    emit(site, accept_input(t, rng.next() % 1000, &[w], &two(cur, cand)));
                }
            }
        }
    }
    // 2. frame: other stack shapes (deeper stacks, missing / surplus individuals, too few populations)
    let shapes = [
        format!("(stack ((2 {})) ((1 {})))", fx(1.0), fx(2.0)),
        format!("(stack ((2 {})) ((1 {})))", fx(3.0), fx(2.0)),
        format!("(stack ((2 {})) ((1 {})) () ((5 {})) ((6 {}) (9 {})))", fx(3.0), fx(2.0), fx(0.0), fx(1.0), fx(1.5)),
        format!("(stack ((2 {})) ())", fx(1.0)),
        format!("(stack () ((1 {})))", fx(1.0)),
        "(stack () ())".to_string(),
        format!("(stack ((2 {})))", fx(1.0)),
        "(stack)".to_string(),
        format!("(stack ((2 {}) (3 {})) ((1 {})))", fx(1.0), fx(0.0), fx(2.0)),
        format!("(stack ((2 {})) ((1 {}) (4 {})))", fx(3.0), fx(2.0), fx(0.0)),
        format!("(stack ((2 {}) (3 {})) ((1 {}) (4 {})))", fx(1.0), fx(5.0), fx(2.0), fx(0.0)),
    ];
    for s in &shapes {
        for &t in &[1e-9, 1.0, 1e9] {
            for k in [0u64, (1u64 << 52), (1u64 << 53) - 1] {
                emit("accept-frame", accept_input(t, 1, &[word_for_k(k, 0)], s));
            }
        }
    }
    // 2b. infinite objective values (legal `SingleObjective`s: an infeasible solution is +inf)
    let inf = f64::INFINITY;
    for &t in &[1e-9, 1e-3, 1.0, 1e3, 1e9] {
        for k in [0u64, 1u64 << 52, (1u64 << 53) - 1] {
            emit("accept-equal-inf", accept_input(t, 1, &[word_for_k(k, 0)], &two(inf, inf)));
            emit("accept-inf", accept_input(t, 1, &[word_for_k(k, 0)], &two(inf, 1.5)));
            emit("accept-inf", accept_input(t, 1, &[word_for_k(k, 0)], &two(-2.5, inf)));
        }
    }
    // 3. acceptance frequencies
    let n = if a.thorough { 20000 } else { 2000 };
    for kind in ["chacha", "sm"] {
        for &base in &[1.0, -5.0] {
            let mut deltas = vec![0.0];
            for &m in &mags { deltas.push(m); deltas.push(-m); }
            for &d in &deltas {
                let cur = base;
                let cand = base + d;
                let mut ts: Vec<f64> = temps.iter().cloned().filter(|_| a.thorough || rng.chance(1, 2)).collect();
                if d > 0.0 { for r in [0.25, 0.5, 1.0, 2.0, 5.0, 20.0] { ts.push((cand - cur) * r); } }
                for &t in &ts {
                    let site = if cand < cur { "freq-better" } else if cand == cur { "freq-equal" } else { "freq-worse" };
                    emit(site, format!("(freq (kind {}) (cur {}) (cand {}) (t {}) (n {}) (seed {}))", kind, fx(cur), fx(cand), fx(t), n, rng.next() % 1_000_000));
                }
            }
        }
    }
    // 4. cooling
    for &t in &[1e-12, 1e-3, 1.0, 100.0, 1e12, 0.0] {
        for &alpha in &[0.0, 0.5, 0.9, 0.99, 0.999999, 1e-3, 1.0, 1.5, -0.1] {
            for n in [1u64, 2, 5, 40] {
                emit("cool", format!("(cool (t {}) (alpha {}) (n {}))", fx(t), fx(alpha), n));
            }
        }
    }
    for _ in 0..(if a.thorough { 2000 } else { 200 }) {
        let t = 10f64.powf(rng.unit() * 24.0 - 12.0);
        let alpha = rng.unit();
        emit("cool", format!("(cool (t {}) (alpha {}) (n {}))", fx(t), fx(alpha), rng.range(1, 30)));
    }
    // 5. template runs; every acceptance of a run is re-emitted as a prepared case with the exact word it consumed
    drop(emit);
    let seeds = if a.thorough { 6 } else { 2 };
    for name in ["real_sa", "permutation_sa"] {
        for v in 0..3u32 {
            for i in 0..4u32 {
                for s in 0..seeds {
                    let iters = if a.thorough { 200 } else { 40 };
                    let input = format!("(run (tmpl {}) (v {}) (i {}) (iters {}) (seed {}) (t0 {}) (alpha {}))",
                        name, v, i, iters, a.seed * 100 + s, fx(SA_T0[v as usize]), fx(SA_ALPHA[v as usize]));
                    let sx = Sx::parse(&input).unwrap();
                    let (_, args) = sx.head().unwrap();
                    let (output, cases) = run_run(args);
                    out.case("run", &input, &output);
                    for (ci, co) in cases {
                        let site = if ci.contains("(words 0)") && co.ends_with("(used 0))") { "run-accept-better" } else { "run-accept" };
                        out.case(site, &ci, &co);
                    }
                }
            }
        }
    }
    out.finish();
}
