//! C01 — the state registry is a stack of typed maps. Drives the REAL `State`/`StateRegistry` through
//! operation histories (exhaustive short ones, seeded random long ones) and prints every return value
//! plus a final dump of every scope (obtained through `parent()` + `contains_at_top` + `try_get_value`).
#[macro_use]
#[path = "../c01_reg.rs"]
mod reg;
use hcommon::*;
use reg::*;

fn run_case(input: &Sx) -> String {
    let (_, ops) = input.head().unwrap();
    let mut state: St = State::new();
    let mut outs = vec![];
    for op in ops {
        exec_x(&mut state, op, &mut outs);
    }
    tagged("outs", outs)
}
use mahf::State;

fn nat(a: &[Sx], i: usize) -> u64 { a[i].nat().expect("nat argument") }

/// The extended operations of `Model/RegistryX.lean` on the REAL state: the guard-returning accessors used
/// as lookups (acquire, read / replace through the guard, drop) and a write through the `RefMut` an
/// inserting entry combinator returns. `None` = not an extended operation.
fn exec_xop(state: &mut St, op: &Sx) -> Option<String> {
    let (name, a) = op.head().expect("op");
    if !matches!(name, "bor" | "trybor" | "bormut" | "trybormut" | "bval" | "trybval" | "bvalmut" | "trybvalmut"
        | "ent-orins-w" | "ent-ordef-w") { return None; }
    let k = nat(a, 0);
    Some(with_key!(k, T => match name {
        "bor" => or_panic(catch(|| { let g = state.borrow::<T>(); val(g.0) })),
        "trybor" => match state.try_borrow::<T>() { Ok(g) => val(g.0), Err(e) => err_s(&e) },
        "bormut" => or_panic(catch(|| { let mut g = state.borrow_mut::<T>(); val(std::mem::replace(&mut g.0, nat(a, 1))) })),
        "trybormut" => match state.try_borrow_mut::<T>() {
            Ok(mut g) => val(std::mem::replace(&mut g.0, nat(a, 1))), Err(e) => err_s(&e) },
        "bval" => or_panic(catch(|| { let g = state.borrow_value::<T>(); val(*g) })),
        "trybval" => match state.try_borrow_value::<T>() { Ok(g) => val(*g), Err(e) => err_s(&e) },
        "bvalmut" => or_panic(catch(|| { let mut g = state.borrow_value_mut::<T>(); val(std::mem::replace(&mut *g, nat(a, 1))) })),
        "trybvalmut" => match state.try_borrow_value_mut::<T>() {
            Ok(mut g) => val(std::mem::replace(&mut *g, nat(a, 1))), Err(e) => err_s(&e) },
        "ent-orins-w" => or_panic(catch(|| {
            let mut g = state.entry::<T>().or_insert(T::from(nat(a, 1))); val(std::mem::replace(&mut g.0, nat(a, 2))) })),
        "ent-ordef-w" => or_panic(catch(|| {
            let mut g = state.entry::<T>().or_default(); val(std::mem::replace(&mut g.0, nat(a, 1))) })),
        _ => unreachable!(),
    }))
}

/// A statement of a C01 history: an extended operation, `with_inner_state(|st| { body; ok|err })` (any
/// nesting) or a base registry operation (`reg::exec_rop`).
fn exec_x(state: &mut St, s: &Sx, outs: &mut Vec<String>) {
    let (name, a) = s.head().expect("stmt");
    if name == "inner" {
        let ok = a[0].atom() == Some("ok");
        let body = &a[1..];
        let mut inner = vec![];
        let r = catch(|| state.with_inner_state(|st| {
            for s in body { exec_x(st, s, &mut inner); }
            if ok { Ok(()) } else { Err(eyre::eyre!("body failed")) }
        }));
        outs.extend(inner);
        outs.push(match r {
            Some(Ok(child)) => tagged("popped", map_s(&child, false, &|_| None)),
            Some(Err(_)) => "(e exec)".into(),
            None => "panic".into(),
        });
        return;
    }
    if name == "hold" {
        // `state.holding::<T>(|t, st| { t.0 += d; body; ok|err })` (any nesting, bodies with every statement kind)
        let (k, d, ok) = (nat(a, 0), nat(a, 1), a[2].atom() == Some("ok"));
        let body = &a[3..];
        let mut inner = vec![];
        let r = with_key!(k, T => catch(|| state.holding::<T>(|t, st| {
            t.0 = t.0.wrapping_add(d);
            for s in body { exec_x(st, s, &mut inner); }
            if ok { Ok(()) } else { Err(eyre::eyre!("body failed")) }
        })));
        outs.extend(inner);
        outs.push(match r {
            Some(Ok(())) => "ok".into(),
            Some(Err(e)) => match e.downcast_ref::<mahf::StateError>() { Some(se) => err_s(se), None => "(e exec)".into() },
            None => "panic".into(),
        });
        return;
    }
    if let Some(o) = exec_xop(state, s) { outs.push(o); return; }
    outs.push(exec_rop(state, s));
}

/// Every op shape over `keys` × `vals` (small parameters) used by the exhaustive enumeration.
/// level 0: reduced; 1: full base alphabet; 2: full + every extended operation; 3: reduced + four extended
/// operations per type.
fn alphabet(keys: &[u64], vals: &[u64], level: u8) -> Vec<String> {
    let full = level == 1 || level == 2;
    let xfew = level >= 2;
    let mut v: Vec<String> = vec!["(push)".into(), "(pop)".into()];
    for &k in keys {
        for &x in vals { v.push(format!("(ins {k} {x})")); }
        let x = vals[vals.len() - 1] + 5 + k;
        v.push(format!("(rem {k})"));
        v.push(format!("(tryget {k})"));
        v.push(format!("(find {k})"));
        v.push(format!("(set {k} {x})"));
        v.push(format!("(ent-mod-orins {k} 1 {x})"));
        v.push(format!("(occ-rem {k})"));
        v.push(format!("(vac-ins {k} {x})"));
        v.push(format!("(parget 1 {k})"));
        v.push(format!("(gset {k} {x})"));
        v.push(format!("(gget {k})"));
        v.push(format!("(has {k})"));
        if full {
            v.push(format!("(take {k})"));
            v.push(format!("(hastop {k})"));
            v.push(format!("(findmut {k})"));
            v.push(format!("(get {k})"));
            v.push(format!("(getmut {k} {x})"));
            v.push(format!("(ent-orins {k} {x})"));
            v.push(format!("(ent-orwith {k} {x})"));
            v.push(format!("(ent-ordef {k})"));
            v.push(format!("(ent-mod {k} 1)"));
            v.push(format!("(ent-modv {k} 2)"));
            v.push(format!("(occ-get {k})"));
            v.push(format!("(occ-getmut {k} {x})"));
            v.push(format!("(occ-intomut {k} {x})"));
            v.push(format!("(occ-ins {k} {x})"));
            v.push(format!("(parins 1 {k} {x})"));
            v.push(format!("(req {k})"));
        }
        if xfew {
            // guard-returning accessors used as lookups; write through an inserting combinator's RefMut
            v.push(format!("(trybval {k})"));
            v.push(format!("(bvalmut {k} {x})"));
            v.push(format!("(bor {k})"));
            v.push(format!("(ent-orins-w {k} {x} {})", x + 1));
        }
        if level == 2 {
            v.push(format!("(bval {k})"));
            v.push(format!("(trybvalmut {k} {x})"));
            v.push(format!("(trybor {k})"));
            v.push(format!("(bormut {k} {x})"));
            v.push(format!("(trybormut {k} {x})"));
            v.push(format!("(ent-ordef-w {k} {x})"));
            v.push(format!("(parget 2 {k})"));
        }
    }
    v.push("(multi (0 1) 1)".into());
    v.push("(multip (1 0) 1)".into());
    v.push("(multip (0 0) 1)".into());
    // with_inner_state: small bodies x ok/err, nesting depth <= 2
    for ok in ["ok", "err"] {
        v.push(format!("(inner {ok})"));
        v.push(format!("(inner {ok} (ins 0 8) (set 1 9))"));
        v.push(format!("(inner {ok} (rem 0) (ins 1 8) (inner err (ins 0 7) (gset 0 6)) (tryget 0))"));
        if full {
            v.push(format!("(inner {ok} (set 0 9) (inner ok (ins 1 7) (rem 0)) (tryget 1))"));
            v.push(format!("(inner {ok} (ins 0 8) (gset 0 9) (gget 1) (occ-rem 0))"));
        }
    }
    if level == 2 {
        // with_inner_state nested three deep, err in the middle
        v.push("(inner ok (ins 0 8) (inner err (ins 1 7) (inner ok (ins 0 6) (bvalmut 1 5) (rem 0)) (trybval 0)) (tryget 1))".into());
        v.push("(inner err (inner ok (inner ok (ent-orins-w 0 4 5) (set 1 6)) (bor 0)) (trybor 1))".into());
    }
    // State::holding: nested holdings of two different types (the type of the outer call in the innermost scope,
    // in an enclosing scope, in the same scope as the inner call's), bodies that insert / remove / open scopes / fail
    v.push("(hold 1 1 ok (hold 0 2 ok (tryget 0) (tryget 1)))".into());
    v.push("(hold 0 1 ok (hold 1 2 err (ins 0 9)))".into());
    v.push("(inner ok (ins 1 8) (hold 1 1 ok (hold 0 2 ok)))".into());
    if level == 2 {
        v.push("(hold 0 1 ok)".into());
        v.push("(hold 1 1 err (rem 0) (ins 1 7))".into());
        v.push("(hold 0 1 err (inner ok (ins 1 8) (ins 0 6) (hold 1 2 ok (has 0) (dump))))".into());
        v.push("(inner err (ins 0 8) (hold 0 1 ok (hold 1 2 ok (inner ok (ins 0 4) (ins 1 5)) (dump))) (tryget 1))".into());
        v.push("(hold 0 1 ok (rem 0) (ins 1 7) (inner err (ins 0 5) (bvalmut 1 3)) (hold 1 1 ok (ent-orins-w 0 4 5)))".into());
    }
    if full {
        v.push("(multi (1 0) 2)".into());
        v.push("(multi (0 0) 1)".into());
        v.push("(multi (0 1 0) 1)".into());
    }
    v
}

struct Gen { rng: Sm }
impl Gen {
    fn key(&mut self) -> u64 {
        if self.rng.chance(1, 16) { return self.rng.below(NTYPES); }
        if self.rng.chance(3, 4) { self.rng.below(2) } else { self.rng.below(4) }
    }
    fn val(&mut self) -> u64 { self.rng.range(1, 60) }
    fn tuple(&mut self) -> String {
        // arity 5..8 over all eight types (the instantiations `reg::multi` has)
        if self.rng.chance(1, 8) { return nats(U8_TUPLES[self.rng.below(U8_TUPLES.len() as u64) as usize].to_vec()); }
        let n = self.rng.range(2, 4);
        let mut ks: Vec<u64> = (0..n).map(|_| self.rng.below(4)).collect();
        if self.rng.chance(1, 2) {
            // make a distinct tuple more likely
            let mut all = vec![0u64, 1, 2, 3];
            for i in 0..4 { let j = self.rng.range(i, 3) as usize; all.swap(i as usize, j); }
            ks = all[..n as usize].to_vec();
        }
        nats(ks)
    }
    /// an operation of the extended layer
    fn xop(&mut self) -> String {
        let k = self.key();
        let v = self.val();
        match self.rng.below(16) {
            0..=1 => format!("(bval {k})"),
            2..=3 => format!("(trybval {k})"),
            4..=5 => format!("(bvalmut {k} {v})"),
            6..=7 => format!("(trybvalmut {k} {v})"),
            8 => format!("(bor {k})"),
            9 => format!("(trybor {k})"),
            10 => format!("(bormut {k} {v})"),
            11 => format!("(trybormut {k} {v})"),
            12..=13 => format!("(ent-orins-w {k} {v} {})", self.val()),
            _ => format!("(ent-ordef-w {k} {v})"),
        }
    }
    fn op(&mut self) -> String {
        if self.rng.chance(1, 7) { return self.xop(); }
        let k = self.key();
        let v = self.val();
        match self.rng.below(100) {
            0..=13 => format!("(ins {k} {v})"),
            14..=20 => format!("(rem {k})"),
            21..=22 => format!("(take {k})"),
            23..=24 => format!("(hastop {k})"),
            25..=26 => format!("(has {k})"),
            27..=29 => format!("(find {k})"),
            30 => format!("(findmut {k})"),
            31..=33 => format!("(get {k})"),
            34..=37 => format!("(tryget {k})"),
            38..=41 => format!("(set {k} {v})"),
            42..=44 => format!("(getmut {k} {v})"),
            45..=47 => format!("(ent-orins {k} {v})"),
            48 => format!("(ent-orwith {k} {v})"),
            49..=50 => format!("(ent-ordef {k})"),
            51..=52 => format!("(ent-mod {k} {})", self.rng.range(1, 3)),
            53 => format!("(ent-modv {k} {})", self.rng.range(1, 3)),
            54..=57 => format!("(ent-mod-orins {k} {} {v})", self.rng.range(1, 3)),
            58..=59 => format!("(occ-get {k})"),
            60..=61 => format!("(occ-getmut {k} {v})"),
            62 => format!("(occ-intomut {k} {v})"),
            63..=65 => format!("(occ-ins {k} {v})"),
            66..=69 => format!("(occ-rem {k})"),
            70..=72 => format!("(vac-ins {k} {v})"),
            73..=81 => "(push)".into(),
            82..=87 => "(pop)".into(),
            88..=90 => format!("(parget {} {k})", self.rng.below(4)),
            91..=92 => format!("(parins {} {k} {v})", self.rng.below(3)),
            93..=95 => format!("(multi {} {})", self.tuple(), self.rng.range(1, 3)),
            96 => format!("(multip {} {})", self.tuple(), self.rng.range(1, 3)),
            97 => format!("(req {k})"),
            98 => if self.rng.chance(1, 2) { format!("(gset {k} {v})") } else { format!("(gget {k})") },
            _ => "(dump)".into(),
        }
    }
    /// `with_inner_state` with a random body (no raw push/pop inside), ok or err, nesting <= 4
    fn inner(&mut self, depth: u64) -> String {
        let ok = if self.rng.chance(1, 2) { "ok" } else { "err" };
        let n = self.rng.below(5);
        let mut body = vec![];
        for _ in 0..n {
            if depth < 4 && self.rng.chance(1, 3) { body.push(self.inner(depth + 1)); continue; }
            loop {
                let o = self.op();
                if o == "(push)" || o == "(pop)" || o.starts_with("(inner") { continue; }
                body.push(o);
                break;
            }
        }
        format!("(inner {ok} {})", body.join(" "))
    }
    /// one statement of a closure body (no raw push/pop): an operation, a `with_inner_state` scope or a `holding`
    /// of a type that no enclosing `holding` holds (`held`); `depth` = nesting depth of closures so far
    fn body_stmt(&mut self, depth: u64, held: &mut Vec<u64>) -> String {
        if depth < 5 && self.rng.chance(1, 3) { return self.hold(depth, held); }
        if depth < 5 && self.rng.chance(1, 5) {
            let ok = if self.rng.chance(2, 3) { "ok" } else { "err" };
            let n = self.rng.below(4);
            let body: Vec<String> = (0..n).map(|_| self.body_stmt(depth + 1, held)).collect();
            return format!("(inner {ok} {})", body.join(" "));
        }
        loop {
            let o = self.op();
            if o == "(push)" || o == "(pop)" { continue; }
            return o;
        }
    }
    /// `holding::<K>` with a random body; K differs from every type held by an enclosing `holding`
    fn hold(&mut self, depth: u64, held: &mut Vec<u64>) -> String {
        let free: Vec<u64> = (0..4).filter(|k| !held.contains(k)).collect();
        if free.is_empty() { return format!("(tryget {})", self.rng.below(4)); }
        let k = free[self.rng.below(free.len() as u64) as usize];
        let ok = if self.rng.chance(3, 4) { "ok" } else { "err" };
        let d = self.rng.range(1, 3);
        held.push(k);
        let n = self.rng.below(4);
        let mut body = vec![];
        // nested holdings of other types: the shape `holding::<A>(|a, s| s.holding::<B>(|b, s| ..))`
        if depth < 5 && self.rng.chance(2, 3) { body.push(self.hold(depth + 1, held)); }
        for _ in 0..n { body.push(self.body_stmt(depth + 1, held)); }
        held.pop();
        format!("(hold {k} {d} {ok} {})", body.join(" "))
    }
    /// a few types spread over scopes of depth 1..4 (with shadowing), then holdings (nested, different types) issued
    /// from the innermost scope / from inside `with_inner_state`, then the scopes are popped
    fn scenario_hold(&mut self, ops: &mut Vec<String>) {
        let depth = self.rng.range(0, 3);
        let mut pushed = 0;
        for lvl in 0..=depth {
            for k in 0..4 { if self.rng.chance(if k < 2 { 2 } else { 1 }, 3) { ops.push(format!("(ins {k} {})", self.val())); } }
            if lvl < depth { ops.push("(push)".into()); pushed += 1; }
        }
        for _ in 0..self.rng.range(1, 3) {
            let mut held = vec![];
            if self.rng.chance(1, 3) {
                // the holdings run inside a fresh scope that first receives some states
                let ok = if self.rng.chance(3, 4) { "ok" } else { "err" };
                let mut body = vec![];
                for k in 0..4 { if self.rng.chance(1, 2) { body.push(format!("(ins {k} {})", self.val())); } }
                body.push(self.hold(1, &mut held));
                for _ in 0..self.rng.below(3) { body.push(self.body_stmt(1, &mut held)); }
                ops.push(format!("(inner {ok} {})", body.join(" ")));
            } else {
                ops.push(self.hold(0, &mut held));
            }
            if self.rng.chance(1, 2) { ops.push(self.op()); }
        }
        for k in 0..4 { if self.rng.chance(1, 2) { ops.push(format!("(tryget {k})")); } }
        for _ in 0..pushed { if self.rng.chance(3, 4) { ops.push("(pop)".into()); ops.push(format!("(tryget {})", self.rng.below(4))); } }
    }
    /// all eight types spread over a few scopes, then multi-borrows of arity 5..8
    fn scenario_wide(&mut self, ops: &mut Vec<String>) {
        for k in 0..NTYPES {
            if self.rng.chance(1, 5) { ops.push("(push)".into()); }
            if self.rng.chance(7, 8) { ops.push(format!("(ins {k} {})", self.val())); }
        }
        for _ in 0..self.rng.range(1, 3) {
            let t = nats(U8_TUPLES[self.rng.below(U8_TUPLES.len() as u64) as usize].to_vec());
            let acc = if self.rng.chance(1, 4) { "multip" } else { "multi" };
            ops.push(format!("({acc} {t} {})", self.rng.range(1, 3)));
        }
    }
    /// shadow → remove underneath → entry on shadowed → pop
    fn scenario(&mut self, ops: &mut Vec<String>) {
        let k = self.key();
        let (a, c) = (self.val(), self.val());
        ops.push(format!("(ins {k} {a})"));
        ops.push("(push)".into());
        if self.rng.chance(2, 3) { ops.push(format!("(ins {k} {c})")); }
        for _ in 0..self.rng.below(4) { ops.push(self.op()); }
        match self.rng.below(10) {
            7 => { ops.push(format!("(bvalmut {k} {c})")); ops.push(format!("(trybval {k})")); }
            8 => { ops.push(format!("(trybormut {k} {c})")); ops.push(format!("(bor {k})")); }
            9 => ops.push(format!("(ent-orins-w {k} {a} {c})")),
            5 => { ops.push(format!("(gset {k} {c})")); ops.push(format!("(gget {k})")); }
            6 => ops.push(self.inner(1)),
            0 => ops.push(format!("(rem {k})")),
            1 => ops.push(format!("(ent-mod-orins {k} 1 {c})")),
            2 => ops.push(format!("(occ-rem {k})")),
            3 => ops.push(format!("(set {k} {c})")),
            _ => ops.push(format!("(parins 1 {k} {c})")),
        }
        ops.push(format!("(tryget {k})"));
        if self.rng.chance(1, 2) { ops.push(format!("(rem {k})")); ops.push(format!("(tryget {k})")); }
        ops.push("(pop)".into());
        ops.push(format!("(tryget {k})"));
    }
}

fn main() {
    quiet_panics();
    let a = args();
    let mut out = Out::new();
    if let Some(r) = a.replay {
        let sx = Sx::parse(&r).expect("bad replay input");
        out.case("replay", &r, &run_case(&sx));
        out.finish();
        return;
    }
    let mut emit = |site: &str, mut ops: Vec<String>| {
        ops.push("(dump)".into());
        let input = tagged("ops", ops);
        let sx = Sx::parse(&input).unwrap();
        out.case(site, &input, &run_case(&sx));
    };
    // 1. exhaustive: prefixes building depth 1..3 with shadowing, then every sequence of L ops.
    let prefixes: Vec<Vec<&str>> = vec![
        vec![],
        vec!["(ins 0 1)", "(push)"],
        vec!["(ins 0 1)", "(ins 1 1)", "(push)", "(ins 0 2)"],
        vec!["(ins 0 1)", "(ins 1 1)", "(push)", "(push)", "(ins 0 2)"],
    ];
    let keys = [0u64, 1];
    let vals = [1u64, 2];
    let plans: Vec<(&str, u8, usize)> = if a.thorough {
        vec![("exh2", 2, 2), ("exh3", 1, 3), ("exh3x", 3, 3), ("exh4", 0, 4)]
    } else {
        vec![("exh2", 2, 2), ("exh3", 0, 3)]
    };
    for (site, level, depth) in plans {
        let alpha = alphabet(&keys, &vals, level);
        for (pi, prefix) in prefixes.iter().enumerate() {
            if depth >= 4 && pi != 2 { continue; }
            let mut idx = vec![0usize; depth];
            loop {
                let mut ops: Vec<String> = prefix.iter().map(|s| s.to_string()).collect();
                ops.extend(idx.iter().map(|&i| alpha[i].clone()));
                emit(site, ops);
                let mut k = 0;
                while k < depth { idx[k] += 1; if idx[k] < alpha.len() { break; } idx[k] = 0; k += 1; }
                if k == depth { break; }
            }
        }
    }
    // 2. seeded random long histories over four types
    let n_rand = if a.thorough { 50000 } else { 1000 };
    let mut g = Gen { rng: Sm::new(a.seed) };
    for _ in 0..n_rand {
        let len = g.rng.range(40, 120) as usize;
        let mut ops = vec![];
        while ops.len() < len {
            if g.rng.chance(1, 6) { g.scenario(&mut ops); }
            else if g.rng.chance(1, 40) { g.scenario_wide(&mut ops); }
            else if g.rng.chance(1, 12) { let s = g.inner(1); ops.push(s); }
            else { ops.push(g.op()); }
        }
        emit("rand", ops);
    }
    // 3. State::holding as an operation of the history (own random stream: the histories above are unchanged)
    let n_hold = if a.thorough { 40000 } else { 1500 };
    let mut g = Gen { rng: Sm::new(a.seed ^ 0x484f4c44) };
    for _ in 0..n_hold {
        let len = g.rng.range(8, 40) as usize;
        let mut ops = vec![];
        while ops.len() < len {
            if g.rng.chance(2, 3) { g.scenario_hold(&mut ops); }
            else if g.rng.chance(1, 4) { g.scenario(&mut ops); }
            else { ops.push(g.op()); }
        }
        emit("hold", ops);
    }
    out.finish();
}
