//! C20 — chemical-reaction optimisation: the four elementary reaction updates, the molecule
//! initialisation and the two criteria on prepared states with scripted draws, and every reaction
//! update of `real_cro` template runs under the step observer.
#[path = "../c17_script_rng.rs"]
mod script;

use hcommon::problems::TagProblem;
use hcommon::templates::{run_template, EvalKind, HProblem, Outcome, Visitor};
use hcommon::*;
use mahf::components::misc::cro::*;
use mahf::conditions::cro::{DecompositionCriterion, SynthesisCriterion};
use mahf::state::common::Populations;
use mahf::verif::Phase;
use mahf::{Component, Condition, Individual, Random, SingleObjective, State};
use rand::distributions::{Distribution, Uniform};
use rand::Rng;
use script::*;

type P = TagProblem;

fn ind(tag: u64, obj: f64) -> Individual<P> {
    Individual::new(tag, SingleObjective::try_from(obj).unwrap())
}
fn ind_of(v: &[Sx]) -> Individual<P> {
    ind(v[0].nat().unwrap(), v[1].float().unwrap())
}
fn pop_of(sx: &Sx) -> Vec<Individual<P>> {
    sx.items().unwrap().iter().map(|i| ind_of(i.items().unwrap())).collect()
}
fn ind_s(i: &Individual<P>) -> String {
    list([i.solution().to_string(), fx(i.objective().value())])
}
fn pop_s(p: &[Individual<P>]) -> String {
    list(p.iter().map(ind_s))
}
fn field<'a>(args: &'a [Sx], name: &str) -> &'a [Sx] {
    for a in args {
        if let Some((h, rest)) = a.head() {
            if h == name { return rest; }
        }
    }
    panic!("missing field {name}")
}
fn has_field(args: &[Sx], name: &str) -> bool {
    args.iter().any(|a| a.head().map(|(h, _)| h == name).unwrap_or(false))
}

struct Prepared {
    state: State<'static, P>,
    script: std::sync::Arc<Script>,
    id: u64,
    words: Vec<u64>,
    fb: u64,
}
fn prepare(args: &[Sx]) -> Prepared {
    let fb = if has_field(args, "fb") { field(args, "fb")[0].nat().unwrap() } else { 0 };
    let words: Vec<u64> = if has_field(args, "words") { field(args, "words").iter().map(|w| w.nat().unwrap()).collect() } else { vec![] };
    let (id, script) = register(words.clone(), fb);
    let mut state: State<P> = State::new();
    state.insert(Populations::<P>::new());
    state.insert(Random::with_rng::<ScriptRng>(id));
    let mols: Vec<Molecule<P>> = field(args, "mols").iter().map(|m| {
        let v = m.items().unwrap();
        Molecule { kinetic_energy: v[0].float().unwrap(), num_hit: v[1].nat().unwrap() as u32, min_hit: v[2].nat().unwrap() as u32, best: ind_of(&v[3..5]) }
    }).collect();
    state.insert(ChemicalReaction::<P>(mols));
    state.insert(EnergyBuffer(field(args, "buffer")[0].float().unwrap()));
    let pops: Vec<Vec<Individual<P>>> = field(args, "stack").iter().map(pop_of).collect();
    for p in pops.into_iter().rev() {
        state.populations_mut().push(p);
    }
    Prepared { state, script, id, words, fb }
}
fn state_s(state: &State<P>) -> Vec<String> {
    let pops = state.populations();
    let stack = tagged("stack", (0..pops.len()).map(|d| pop_s(pops.peek(d))));
    let r = state.borrow::<ChemicalReaction<P>>();
    let mols = tagged("mols", r.iter().map(|m| list([fx(m.kinetic_energy), m.num_hit.to_string(), m.min_hit.to_string(), m.best.solution().to_string(), fx(m.best.objective().value())])));
    let buffer = tagged("buffer", [fx(state.get_value::<EnergyBuffer>())]);
    vec![stack, mols, buffer]
}
/// A fresh generator replaying the same script (to read off the draws the component received).
fn witness_rng(words: &[u64], fb: u64) -> (u64, Random) {
    let (id, _) = register(words.to_vec(), fb);
    (id, Random::with_rng::<ScriptRng>(id))
}
fn fnan(v: Option<f64>) -> String {
    fx(v.unwrap_or(f64::NAN))
}

/// The draws a reaction update receives from a generator replaying `(words, fb)`, read off fresh
/// replays of the same script with the same `rand` calls the component makes.
fn witness_draws(kind: &str, lr: f64, words: &[u64], fb: u64) -> Vec<String> {
    match kind {
        "onwall" => {
            let (id, mut g) = witness_rng(words, fb);
            let a = catch(|| g.gen_range(lr..1.0));
            unregister(id);
            vec![fnan(a)]
        }
        "decomp" => {
            let (id, mut g) = witness_rng(words, fb);
            let da = catch(|| g.gen_range(0.0..=1.0));
            unregister(id);
            let (id, mut g) = witness_rng(words, fb);
            let u = Uniform::new(0., 1.);
            let d1: f64 = u.sample(&mut g);
            let d2: f64 = u.sample(&mut g);
            let db = catch(|| g.gen_range(0.0..=1.0));
            unregister(id);
            vec![fnan(da), fx(d1), fx(d2), fnan(db)]
        }
        "inter" => {
            let (id, mut g) = witness_rng(words, fb);
            let d4 = catch(|| g.gen_range(0.0..=1.0));
            unregister(id);
            vec![fnan(d4)]
        }
        _ => vec![],
    }
}

fn run_reaction(kind: &str, args: &[Sx]) -> String {
    let mut pr = prepare(args);
    let lr = if kind == "onwall" { field(args, "lr")[0].float().unwrap() } else { 0.0 };
    let c: Box<dyn Component<P>> = match kind {
        "onwall" => OnWallIneffectiveCollisionUpdate::new(lr),
        "decomp" => DecompositionUpdate::new(),
        "inter" => IntermolecularIneffectiveCollisionUpdate::new(),
        _ => SynthesisUpdate::new(),
    };
    let r = catch(|| c.execute(&TagProblem, &mut pr.state));
    unregister(pr.id);
    let status = match r { Some(Ok(())) => "ok", Some(Err(_)) => "err", None => "panic" };
    let w = witness_draws(kind, lr, &pr.words, pr.fb);
    let mut out = vec![status.to_string(), tagged("w", w)];
    out.extend(catch(|| state_s(&pr.state)).unwrap_or(vec!["(unreadable)".into()]));
    out.push(tagged("used", [pr.script.used().to_string()]));
    list(out)
}

fn run_crit(kind: &str, args: &[Sx]) -> String {
    let mut pr = prepare(args);
    let c: Box<dyn Condition<P>> = if kind == "dcrit" {
        DecompositionCriterion::new(field(args, "alpha")[0].nat().unwrap() as u32)
    } else {
        SynthesisCriterion::new(field(args, "beta")[0].float().unwrap())
    };
    let r = catch(|| c.evaluate(&TagProblem, &mut pr.state));
    unregister(pr.id);
    match r {
        Some(Ok(v)) => format!("(val {})", b(v)),
        Some(Err(_)) => "err".into(),
        None => "panic".into(),
    }
}

/// `(init (ke x) (ibuf x) (buffer x) (mols ..) (stack ..))`: `init` then `execute`.
fn run_init(args: &[Sx]) -> String {
    let mut pr = prepare(args);
    let ke = field(args, "ke")[0].float().unwrap();
    let ibuf = field(args, "ibuf")[0].float().unwrap();
    let c = ChemicalReactionInit::new::<P>(ke, ibuf);
    let r = catch(|| { c.init(&TagProblem, &mut pr.state)?; c.execute(&TagProblem, &mut pr.state) });
    unregister(pr.id);
    let status = match r { Some(Ok(())) => "ok", Some(Err(_)) => "err", None => "panic" };
    let mut out = vec![status.to_string()];
    out.extend(state_s(&pr.state));
    list(out)
}

// ---------------------------------------------------------------- template runs
#[derive(Default)]
struct CroVisitor {
    steps: Vec<String>,
    before: Option<String>,
    alpha: u32,
    beta: f64,
    lr: f64,
    /// every reaction update of the run as a prepared case (input, observed output)
    react_cases: Vec<(String, String)>,
    swapped: bool,
    fb: u64,
    script: Option<std::sync::Arc<Script>>,
    id: u64,
    shadow: Option<Sm>,
    shadow_pos: usize,
    used_before: usize,
    /// interning table: equal individuals (solution and objective) get the same tag
    intern: Vec<String>,
    case_in: Option<String>,
}
impl CroVisitor {
    fn tag_of(&mut self, key: String) -> u64 {
        match self.intern.iter().position(|k| *k == key) {
            Some(i) => i as u64 + 1,
            None => { self.intern.push(key); self.intern.len() as u64 }
        }
    }
}
fn objs<Q: HProblem>(p: &[Individual<Q>]) -> String {
    list(p.iter().map(|i| if i.is_evaluated() { fx(i.objective().value()) } else { "u".into() }))
}
impl Visitor for CroVisitor {
    fn step<Q: HProblem>(&mut self, phase: Phase, name: &'static str, _index: usize, state: &State<Q>, _problem: &Q) {
        if !self.swapped {
            let (id, sc) = register(vec![], self.fb);
            *state.random_mut() = Random::with_rng::<ScriptRng>(id);
            self.script = Some(sc);
            self.id = id;
            self.shadow = Some(Sm::new(self.fb));
            self.swapped = true;
        }
        let short = if name.contains("OnWallIneffectiveCollisionUpdate") { "onwall" }
            else if name.contains("DecompositionUpdate") { "decomp" }
            else if name.contains("IntermolecularIneffectiveCollisionUpdate") { "inter" }
            else if name.contains("SynthesisUpdate") { "synth" }
            else if name.contains("ChemicalReactionInit") { "init" }
            else if name == "mahf::verif::LoopPass" { "pass" }
            else { return };
        let pops = state.populations();
        let (reaction, buffer) = match (state.try_borrow::<ChemicalReaction<Q>>(), state.try_borrow::<EnergyBuffer>()) {
            (Ok(r), Ok(b)) => (r, b.0),
            _ => return,
        };
        let kes = list(reaction.iter().map(|m| fx(m.kinetic_energy)));
        match short {
            "init" => {
                if phase == Phase::After {
                    self.steps.push(list(["init".into(), pops.len().to_string(), objs(pops.current()), kes, fx(buffer)]));
                }
            }
            "pass" => {
                self.steps.push(list(["pass".into(), pops.len().to_string(), pops.get_current().map(|c| c.len()).unwrap_or(0).to_string(), reaction.len().to_string()]));
            }
            kind => match phase {
                Phase::Before => {
                    if pops.len() < 3 {
                        self.before = Some(format!("short {}", pops.len()));
                        return;
                    }
                    // how the template's criterion was wired: which molecule(s) it read vs. the selected one(s)
                    let sel = pops.peek(1);
                    let pop = pops.peek(2);
                    let idx_in = |hay: &[Individual<Q>], s: &Individual<Q>| hay.iter().position(|i| i == s);
                    let crit = if kind == "onwall" || kind == "decomp" {
                        let d = |i: Option<usize>| i.and_then(|i| reaction.get(i)).map(|m| b(m.num_hit - m.min_hit > self.alpha)).unwrap_or("x".into());
                        let s = sel.first();
                        list(["crit".into(), b(kind == "decomp"), d(s.and_then(|s| idx_in(pop, s))), d(s.and_then(|s| idx_in(sel, s)))])
                    } else {
                        let d = |hay: &[Individual<Q>]| {
                            if sel.len() != 2 { return "x".to_string(); }
                            match (idx_in(hay, &sel[0]).and_then(|i| reaction.get(i)), idx_in(hay, &sel[1]).and_then(|i| reaction.get(i))) {
                                (Some(a), Some(c)) => b(a.kinetic_energy <= self.beta && c.kinetic_energy <= self.beta),
                                _ => "x".into(),
                            }
                        };
                        list(["crit".into(), b(kind == "synth"), d(pop), d(sel)])
                    };
                    self.before = Some(format!("{} {} {} {} {} {} {}", pops.len(), objs(pop), kes, fx(buffer), objs(pops.peek(0)), objs(sel), crit));
                    // the same state as a prepared component-level case (individuals interned to tags)
                    if (0..pops.len()).all(|d| pops.peek(d).iter().all(|i| i.is_evaluated())) {
                        let mut ind_s = |i: &Individual<Q>| {
                            let o = i.objective().value();
                            let t = self.tag_of(format!("{}@{}", Q::enc(i.solution()), fx(o)));
                            list([t.to_string(), fx(o)])
                        };
                        let stack: Vec<String> = (0..pops.len()).map(|d| list(pops.peek(d).iter().map(&mut ind_s))).collect();
                        let mols: Vec<String> = reaction.iter().map(|m| {
                            let bs = ind_s(&m.best);
                            let b = Sx::parse(&bs).unwrap();
                            let bi = b.items().unwrap();
                            list([fx(m.kinetic_energy), m.num_hit.to_string(), m.min_hit.to_string(), bi[0].render(), bi[1].render()])
                        }).collect();
                        self.used_before = self.script.as_ref().unwrap().used();
                        let lr = if kind == "onwall" { format!(" (lr {})", fx(self.lr)) } else { String::new() };
                        self.case_in = Some(format!("({}{} (fb 0) WORDS (buffer {}) {} {})", kind, lr, fx(buffer), tagged("mols", mols), tagged("stack", stack)));
                    }
                }
                Phase::After => {
                    if let Some(bf) = self.before.take() {
                        self.steps.push(format!("(upd {} {} {} {} {} {})", kind, bf, pops.len(), objs(pops.get_current().unwrap_or(&[])), kes, fx(buffer)));
                    }
                    if let Some(ci) = self.case_in.take() {
                        let used1 = self.script.as_ref().unwrap().used();
                        let sh = self.shadow.as_mut().unwrap();
                        while self.shadow_pos < self.used_before { sh.next(); self.shadow_pos += 1; }
                        let mut words = vec![];
                        while self.shadow_pos < used1 { words.push(sh.next()); self.shadow_pos += 1; }
                        let input = ci.replace("WORDS", &tagged("words", words.iter().map(|w| w.to_string())));
                        let w = witness_draws(kind, self.lr, &words, 0);
                        let mut ind_s = |i: &Individual<Q>| {
                            let o = i.objective().value();
                            let t = self.tag_of(format!("{}@{}", Q::enc(i.solution()), fx(o)));
                            list([t.to_string(), fx(o)])
                        };
                        let stack: Vec<String> = (0..pops.len()).map(|d| list(pops.peek(d).iter().map(&mut ind_s))).collect();
                        let mols: Vec<String> = reaction.iter().map(|m| {
                            let bs = ind_s(&m.best);
                            let b = Sx::parse(&bs).unwrap();
                            let bi = b.items().unwrap();
                            list([fx(m.kinetic_energy), m.num_hit.to_string(), m.min_hit.to_string(), bi[0].render(), bi[1].render()])
                        }).collect();
                        let output = list(["ok".to_string(), tagged("w", w), tagged("stack", stack), tagged("mols", mols),
                            tagged("buffer", [fx(buffer)]), tagged("used", [words.len().to_string()])]);
                        self.react_cases.push((input, output));
                    }
                }
            },
        }
    }
    fn done<Q: HProblem>(&mut self, _outcome: &Outcome, _state: Option<&State<Q>>, _problem: &Q) {
        if self.swapped { unregister(self.id); }
    }
}

// the parameter points of `hcommon::templates` (point 3 is the degenerate-valid one: two molecules,
// no initial kinetic energy, empty buffer, loss rate 0, criteria thresholds 0)
const CRO_LR: [f64; 4] = [0.2, 0.5, 0.9, 0.0];
const CRO_ALPHA: [u32; 4] = [5, 2, 50, 0];
const CRO_BETA: [f64; 4] = [0.1, 10.0, 1.0, 0.0];

/// `(run (v k) (i k) (iters n) (seed s) (alpha n) (beta x))`
fn run_run(args: &[Sx]) -> (String, Vec<(String, String)>) {
    let v = field(args, "v")[0].nat().unwrap() as u32;
    let i = field(args, "i")[0].nat().unwrap() as u32;
    let iters = field(args, "iters")[0].nat().unwrap() as u32;
    let seed = field(args, "seed")[0].nat().unwrap();
    let vis = CroVisitor { alpha: field(args, "alpha")[0].nat().unwrap() as u32, beta: field(args, "beta")[0].float().unwrap(),
        lr: field(args, "lr")[0].float().unwrap(), fb: seed, ..Default::default() };
    match run_template("real_cro", v, i, iters, seed, EvalKind::Sequential, vis) {
        Ok((vis, outcome)) => (list([outcome.tag().to_string(), tagged("steps", vis.steps)]), vis.react_cases),
        Err(_) => ("(ctor-err (steps))".into(), vec![]),
    }
}

fn run_case(input: &Sx) -> String {
    let (kind, args) = input.head().unwrap();
    match kind {
        "onwall" | "decomp" | "inter" | "synth" => run_reaction(kind, args),
        "dcrit" | "scrit" => run_crit(kind, args),
        "init" => run_init(args),
        "run" => run_run(args).0,
        _ => panic!("unknown case kind {kind}"),
    }
}

// ---------------------------------------------------------------- generators
struct Gen {
    rng: Sm,
    tag: u64,
}
impl Gen {
    fn obj(&mut self) -> f64 {
        match self.rng.below(8) {
            0 => 0.0,
            1 => (self.rng.below(5) as f64) * 0.5,
            2 => -(self.rng.unit() * 10.0),
            3 => self.rng.unit() * 1e6,
            4 => self.rng.unit() * 1e-6,
            _ => self.rng.unit() * 20.0,
        }
    }
    fn ke(&mut self) -> f64 {
        match self.rng.below(6) {
            0 => 0.0,
            1 => self.rng.unit() * 1e-3,
            2 => self.rng.unit() * 1e4,
            _ => self.rng.unit() * 30.0,
        }
    }
    fn fresh(&mut self, obj: f64) -> (u64, f64) {
        self.tag += 1;
        (self.tag, obj)
    }
    fn words(&mut self) -> Vec<u64> {
        // draws at the extremes of the unit interval as well as ordinary ones
        (0..4).map(|_| match self.rng.below(6) {
            0 => 0,
            1 => u64::MAX,
            2 => 1u64 << 63,
            _ => self.rng.next(),
        }).collect()
    }
}
fn ind_str(i: &(u64, f64)) -> String {
    list([i.0.to_string(), fx(i.1)])
}
fn pop_str(p: &[(u64, f64)]) -> String {
    list(p.iter().map(ind_str))
}
fn mol_str(ke: f64, hit: u64, min: u64, best: &(u64, f64)) -> String {
    list([fx(ke), hit.to_string(), min.to_string(), best.0.to_string(), fx(best.1)])
}

/// One well-formed reaction case; `mode` steers the energy balance (0 accept, 1 reject, 2 buffer-assisted, 3 random,
/// 4 the exact threshold: product energy == reactant energy). `twins`: 0 none, 1 two equal individuals, 2 three,
/// 3 the first reactant has a twin that is not the second reactant.
fn reaction_case(g: &mut Gen, kind: &str, mode: u64, twins: u64, unmoved: bool) -> String {
    let n = g.rng.range(if kind == "inter" || kind == "synth" { 2 } else { 1 }, 6) as usize;
    let mut pop: Vec<(u64, f64)> = (0..n).map(|_| { let o = g.obj(); g.fresh(o) }).collect();
    let mut kes: Vec<f64> = (0..n).map(|_| g.ke()).collect();
    let i = g.rng.below(n as u64) as usize;
    let mut j = g.rng.below(n as u64) as usize;
    if n > 1 { while j == i { j = g.rng.below(n as u64) as usize; } }
    if twins == 3 && n > 2 {
        // the first reactant has an equal twin elsewhere; the second reactant (if any) is different
        let k = (0..n).find(|k| *k != i && *k != j).unwrap();
        pop[k] = pop[i];
    } else if twins > 0 && n > 1 {
        // two equal individuals (same solution, same objective): distinct molecules
        pop[j] = pop[i];
        if twins > 1 && n > 2 {
            let k = (0..n).find(|k| *k != i && *k != j).unwrap();
            pop[k] = pop[i];
        }
    }
    let two_r = kind == "inter" || kind == "synth";
    let two_p = kind == "decomp" || kind == "inter";
    let mut buffer = match g.rng.below(4) { 0 => 0.0, 1 => g.rng.unit() * 1e-3, _ => g.rng.unit() * 50.0 };
    let tot = pop[i].1 + kes[i] + if two_r { pop[j].1 + kes[j] } else { 0.0 };
    // product objective(s) relative to the reactant energy
    let target = match mode {
        0 => tot - g.rng.unit() * (tot.abs() + 1.0) * 0.9,
        1 => tot + 1.0 + g.rng.unit() * 100.0 + if kind == "decomp" { buffer } else { 0.0 },
        2 => { buffer = 10.0 + g.rng.unit() * 100.0; tot + g.rng.unit() * buffer * 0.5 }
        4 => tot,
        _ => tot + (g.rng.unit() - 0.5) * 20.0,
    };
    // an on-wall collision that did not move the molecule: the product IS the reactant
    let prods: Vec<(u64, f64)> = if unmoved && kind == "onwall" {
        if kes[i] == 0.0 { kes[i] = 1.0 + g.rng.unit() * 10.0; }
        vec![pop[i]]
    } else if two_p {
        // at the exact threshold both products get half (the halves add up to `tot` without rounding)
        let a = if mode == 4 { target * 0.5 } else { target * g.rng.unit() };
        vec![g.fresh(a), g.fresh(target - a)]
    } else {
        vec![g.fresh(target)]
    };
    if !(unmoved && kind == "onwall") && mode != 4 && g.rng.chance(1, 10) { kes[i] = 0.0; }
    let reactants: Vec<(u64, f64)> = if two_r { vec![pop[i], pop[j]] } else { vec![pop[i]] };
    let mols: Vec<String> = (0..n).map(|k| {
        let hit = g.rng.below(8);
        let min = g.rng.below(hit + 1);
        let best = (pop[k].0, pop[k].1 - if g.rng.chance(1, 2) { 0.0 } else { g.rng.unit() });
        mol_str(kes[k], hit, min, &best)
    }).collect();
    let below: Vec<String> = (0..g.rng.below(3)).map(|_| { let o = g.obj(); let f = g.fresh(o); pop_str(&[f]) }).collect();
    let mut stack = vec![pop_str(&prods), pop_str(&reactants), pop_str(&pop)];
    stack.extend(below);
    let lr = if kind == "onwall" { format!(" (lr {})", fx(*g.rng.pick(&[0.0, 0.2, 0.5, 0.9, 0.999]))) } else { String::new() };
    format!("({}{} (fb {}) {} (buffer {}) {} {})", kind, lr, g.rng.below(1000), tagged("words", g.words().iter().map(|w| w.to_string())),
        fx(buffer), tagged("mols", mols), tagged("stack", stack))
}

/// Malformed frames: wrong population sizes, missing reactant, short stack, misaligned molecule list.
fn malformed_case(g: &mut Gen, kind: &str, which: u64) -> String {
    let n = 3usize;
    let pop: Vec<(u64, f64)> = (0..n).map(|_| { let o = g.obj(); g.fresh(o) }).collect();
    let two_r = kind == "inter" || kind == "synth";
    let two_p = kind == "decomp" || kind == "inter";
    let mut reactants: Vec<(u64, f64)> = if two_r { vec![pop[0], pop[2]] } else { vec![pop[1]] };
    let mut prods: Vec<(u64, f64)> = if two_p { vec![g.fresh(1.0), g.fresh(2.0)] } else { vec![g.fresh(1.0)] };
    let mut nm = n;
    let mut stack_cut = 3;
    match which {
        0 => { prods.pop(); }
        1 => { let f = g.fresh(0.5); prods.push(f); }
        2 => { reactants.pop(); }
        3 => { let f = g.fresh(0.5); reactants.push(f); }
        4 => { reactants[0] = g.fresh(7.0); }                       // reactant not in the population
        5 => { let l = reactants.len() - 1; reactants[l] = g.fresh(7.0); }
        6 => { reactants[0].1 += 1.0; }                              // same solution, other objective
        7 => { stack_cut = 2; }
        8 => { stack_cut = 1; }
        9 => { nm = 1; }                                             // molecule list too short
        10 => { nm = 0; }
        _ => { if two_r { reactants[1] = reactants[0]; } }          // the same individual twice
    }
    let mols: Vec<String> = (0..nm).map(|k| mol_str(5.0 + k as f64, 3, 1, &pop[k.min(n - 1)])).collect();
    let stack: Vec<String> = vec![pop_str(&prods), pop_str(&reactants), pop_str(&pop)].into_iter().take(stack_cut).collect();
    let lr = if kind == "onwall" { format!(" (lr {})", fx(*g.rng.pick(&[0.5, 1.0, 1.5]))) } else { String::new() };
    format!("({}{} (fb 1) (words {}) (buffer {}) {} {})", kind, lr, g.rng.next(), fx(3.0), tagged("mols", mols), tagged("stack", stack))
}

fn crit_case(g: &mut Gen, kind: &str, shape: u64) -> String {
    let n = g.rng.range(2, 5) as usize;
    let mut pop: Vec<(u64, f64)> = (0..n).map(|_| { let o = g.obj(); g.fresh(o) }).collect();
    let i = g.rng.below(n as u64) as usize;
    let j = (i + 1 + g.rng.below(n as u64 - 1) as usize) % n;
    if shape == 5 { pop[j] = pop[i]; }
    let beta = *g.rng.pick(&[0.0, 0.1, 1.0, 10.0]);
    let mols: Vec<String> = (0..n).map(|k| {
        let hit = g.rng.below(9);
        let min = g.rng.below(hit + 1);
        let ke = match g.rng.below(3) { 0 => beta, 1 => beta * g.rng.unit(), _ => beta + g.rng.unit() * 5.0 };
        mol_str(ke, hit, min, &pop[k])
    }).collect();
    let sel: Vec<(u64, f64)> = if kind == "dcrit" { vec![pop[i]] } else { vec![pop[i], pop[j]] };
    let stack: Vec<String> = match shape {
        0 | 5 => vec![pop_str(&sel), pop_str(&pop)],
        // the shape the CRO template produces: a copy of the selection on top of the selection
        1 => vec![pop_str(&sel), pop_str(&sel), pop_str(&pop)],
        2 => vec![pop_str(&sel)],
        3 => vec![pop_str(&[sel[0], sel[0], sel[0]]), pop_str(&pop)],
        4 => { let f = g.fresh(3.0); vec![pop_str(&if kind == "dcrit" { vec![f] } else { vec![f, pop[i]] }), pop_str(&pop)] }
        _ => vec![],
    };
    let par = if kind == "dcrit" { format!("(alpha {})", g.rng.below(6)) } else { format!("(beta {})", fx(beta)) };
    format!("({} {} (buffer {}) {} {})", kind, par, fx(1.0), tagged("mols", mols), tagged("stack", stack))
}

fn main() {
    quiet_panics();
    let a = args();
    let mut out = Out::new();
    if let Some(r) = a.replay {
        let sx = Sx::parse(&r).expect("bad replay input");
        out.case("replay", &r, &run_case(&sx));
        out.finish();
        return;
    }
    let mut g = Gen { rng: Sm::new(a.seed ^ 0xC20), tag: 100 };
    let mut emit = |site: &str, input: String| {
        let sx = Sx::parse(&input).unwrap();
        out.case(site, &input, &run_case(&sx));
    };
    let reps = if a.thorough { 4000 } else { 400 };
    for kind in ["onwall", "decomp", "inter", "synth"] {
        for k in 0..reps {
            // the exact threshold only where the compared energies are single (commutative) additions: the decision
            // there does not depend on the association order of a longer sum
            let mode = if k % 25 == 24 && (kind == "onwall" || kind == "decomp") { 4 } else { k % 4 };
            // equal individuals in the population: the reactant(s) exist twice / three times
            let twins = if k % 7 == 0 { 1 } else if k % 7 == 3 { 2 + (k / 7) % 2 } else { 0 };
            emit(kind, reaction_case(&mut g, kind, mode, twins, k % 9 == 4));
        }
        for which in 0..12 {
            emit(&format!("{kind}-malformed"), malformed_case(&mut g, kind, which));
        }
    }
    for kind in ["dcrit", "scrit"] {
        for k in 0..(if a.thorough { 1200 } else { 240 }) {
            emit(kind, crit_case(&mut g, kind, k % 7));
        }
    }
    for k in 0..(if a.thorough { 200 } else { 40 }) {
        let n = g.rng.below(6) as usize;
        let pop: Vec<(u64, f64)> = (0..n).map(|_| { let o = g.obj(); g.fresh(o) }).collect();
        let stack = if k % 10 == 9 { vec![] } else { vec![pop_str(&pop), pop_str(&[(1, 1.0)])] };
        emit("init", format!("(init (ke {}) (ibuf {}) (buffer {}) (mols ({} 1 0 1 {})) {})", fx(g.ke()), fx(g.ke()), fx(2.0), fx(1.0), fx(1.0), tagged("stack", stack)));
    }
    drop(emit);
    let seeds = if a.thorough { 8 } else { 2 };
    for v in 0..4u32 {
        for i in 0..4u32 {
            for s in 0..seeds {
                let iters = if a.thorough { 400 } else { 80 };
                let input = format!("(run (v {}) (i {}) (iters {}) (seed {}) (alpha {}) (beta {}) (lr {}))", v, i, iters, a.seed * 100 + s,
                    CRO_ALPHA[v as usize], fx(CRO_BETA[v as usize]), fx(CRO_LR[v as usize]));
                let sx = Sx::parse(&input).unwrap();
                let (_, args) = sx.head().unwrap();
                let (output, cases) = run_run(args);
                out.case("run", &input, &output);
                for (ci, co) in cases {
                    let site = format!("run-{}", ci[1..].split(' ').next().unwrap_or("x"));
                    out.case(&site, &ci, &co);
                }
            }
        }
    }
    out.finish();
}
