//! C10 — conditions and loop counts. Evaluates the real `Condition`s on prepared `State`s, runs the
//! real `Loop` with counting bodies, drives `RandomChance` with a scripted generator.
use std::sync::atomic::{AtomicU64, Ordering};
use std::sync::{Arc, Mutex};

use better_any::{Tid, TidAble};
use hcommon::*;
use mahf::components::Loop;
use mahf::conditions::common::{DeltaEqChecker, PartialEqChecker};
use mahf::conditions::{And, ChangeOf, EveryN, LessThanN, Not, OptimumReached, Or, RandomChance};
use mahf::derive_more::{Deref, DerefMut};
use mahf::lens::ValueOf;
use mahf::problems::KnownOptimumProblem;
use mahf::state::common::{BestIndividual, Evaluations, Iterations, Progress};
use mahf::{Component, Condition, CustomState, ExecResult, Individual, Problem, Random, SingleObjective, State};
use rand::{RngCore, SeedableRng};
use serde::Serialize;

/// Problem with a configurable known optimum; solutions are opaque.
struct CProblem {
    optimum: f64,
}
impl Problem for CProblem {
    type Encoding = u64;
    type Objective = SingleObjective;
    fn name(&self) -> &str { "c10" }
}
impl KnownOptimumProblem for CProblem {
    fn known_optimum(&self) -> SingleObjective { SingleObjective::try_from(self.optimum).unwrap() }
}
type P = CProblem;

/// A float-valued custom state for `LessThanN<ValueOf<FVal>>`.
#[derive(Clone, Deref, DerefMut, Tid)]
struct FVal(pub f64);
impl CustomState<'_> for FVal {}

/// Two more observed u32 states (same target type as Iterations / Evaluations).
#[derive(Clone, Deref, DerefMut, Tid)]
struct ObsA(pub u32);
impl CustomState<'_> for ObsA {}
#[derive(Clone, Deref, DerefMut, Tid)]
struct ObsB(pub u32);
impl CustomState<'_> for ObsB {}

type EvLog = Arc<Mutex<Vec<String>>>;

/// Evaluates a condition when executed and logs `(index verdict)`; initialises it in `init`
/// (as `Loop` and `Branch` do with their condition).
#[derive(Clone)]
struct EvalComp { idx: u64, cond: Box<dyn Condition<P>>, log: EvLog }
impl Serialize for EvalComp {
    fn serialize<S: serde::Serializer>(&self, s: S) -> Result<S::Ok, S::Error> { s.serialize_unit() }
}
impl Component<P> for EvalComp {
    fn init(&self, problem: &P, state: &mut State<P>) -> ExecResult<()> { self.cond.init(problem, state) }
    fn execute(&self, problem: &P, state: &mut State<P>) -> ExecResult<()> {
        let r = res(self.cond.evaluate(problem, state));
        self.log.lock().unwrap().push(format!("({} {})", self.idx, r));
        Ok(())
    }
}
/// Re-initialises a condition when executed (what `Loop::execute` does on entry).
#[derive(Clone)]
struct InitComp { cond: Box<dyn Condition<P>> }
impl Serialize for InitComp {
    fn serialize<S: serde::Serializer>(&self, s: S) -> Result<S::Ok, S::Error> { s.serialize_unit() }
}
impl Component<P> for InitComp {
    fn execute(&self, problem: &P, state: &mut State<P>) -> ExecResult<()> { self.cond.init(problem, state) }
}
/// Writes an observed state.
#[derive(Clone, Serialize)]
struct SetComp { lens: u8, v: u32 }
impl Component<P> for SetComp {
    fn execute(&self, _problem: &P, state: &mut State<P>) -> ExecResult<()> {
        match self.lens {
            0 => { state.set_value::<Iterations>(self.v); }
            1 => { state.set_value::<Evaluations>(self.v); }
            2 => { state.set_value::<ObsA>(self.v); }
            _ => { state.set_value::<ObsB>(self.v); }
        }
        Ok(())
    }
}
/// Loop body: counts passes and writes the next scripted value into `ObsA`.
#[derive(Clone)]
struct ScriptBody { passes: Arc<AtomicU64>, script: Arc<Mutex<std::collections::VecDeque<u32>>> }
impl Serialize for ScriptBody {
    fn serialize<S: serde::Serializer>(&self, s: S) -> Result<S::Ok, S::Error> { s.serialize_unit() }
}
impl Component<P> for ScriptBody {
    fn execute(&self, _problem: &P, state: &mut State<P>) -> ExecResult<()> {
        self.passes.fetch_add(1, Ordering::SeqCst);
        if let Some(v) = self.script.lock().unwrap().pop_front() { state.set_value::<ObsA>(v); }
        Ok(())
    }
}

fn lens_id(x: &Sx) -> u8 {
    match x.atom().unwrap() { "it" => 0, "ev" => 1, "oa" => 2, _ => 3 }
}
fn change_of(lens: u8, checker: &Sx) -> Box<dyn Condition<P>> {
    let ck = || match checker.head() {
        Some(("de", th)) => DeltaEqChecker::new(th[0].nat().unwrap() as u32),
        _ => PartialEqChecker::new::<u32>(),
    };
    match lens {
        0 => ChangeOf::new::<P>(ck(), ValueOf::<Iterations>::new()),
        1 => ChangeOf::new::<P>(ck(), ValueOf::<Evaluations>::new()),
        2 => ChangeOf::new::<P>(ck(), ValueOf::<ObsA>::new()),
        _ => ChangeOf::new::<P>(ck(), ValueOf::<ObsB>::new()),
    }
}
fn build_items(items: &[Sx], conds: &[Box<dyn Condition<P>>], log: &EvLog) -> Vec<Box<dyn Component<P>>> {
    items.iter().map(|it| -> Box<dyn Component<P>> {
        let (name, a) = it.head().unwrap();
        match name {
            "set" => Box::new(SetComp { lens: lens_id(&a[0]), v: a[1].nat().unwrap() as u32 }),
            "eval" => { let i = a[0].nat().unwrap(); Box::new(EvalComp { idx: i, cond: conds[i as usize].clone(), log: log.clone() }) }
            "init" => Box::new(InitComp { cond: conds[a[0].nat().unwrap() as usize].clone() }),
            "scope" => mahf::components::Scope::new(build_items(a, conds, log)),
            _ => panic!("unknown item {name}"),
        }
    }).collect()
}

/// Scripted operand: fixed outcome, records its tag in a shared log every time it is evaluated.
#[derive(Clone, Serialize)]
struct ScriptCond {
    tag: u64,
    outcome: u8, // 0 false, 1 true, 2 error
    #[serde(skip)]
    log: Arc<Mutex<Vec<u64>>>,
    /// tags of the operands whose `init` was called (propagated by the connectives)
    #[serde(skip)]
    inits: Arc<Mutex<Vec<u64>>>,
}
impl Condition<P> for ScriptCond {
    fn init(&self, _problem: &P, _state: &mut State<P>) -> ExecResult<()> {
        self.inits.lock().unwrap().push(self.tag);
        Ok(())
    }
    fn evaluate(&self, _problem: &P, _state: &mut State<P>) -> ExecResult<bool> {
        self.log.lock().unwrap().push(self.tag);
        match self.outcome {
            2 => Err(eyre::eyre!("scripted operand error")),
            o => Ok(o == 1),
        }
    }
}

/// Wrapper that counts how often the wrapped condition is evaluated.
#[derive(Clone)]
struct CountCond {
    inner: Box<dyn Condition<P>>,
    tests: Arc<AtomicU64>,
}
impl Serialize for CountCond {
    fn serialize<S: serde::Serializer>(&self, s: S) -> Result<S::Ok, S::Error> { s.serialize_unit() }
}
impl Condition<P> for CountCond {
    fn init(&self, problem: &P, state: &mut State<P>) -> ExecResult<()> { self.inner.init(problem, state) }
    fn evaluate(&self, problem: &P, state: &mut State<P>) -> ExecResult<bool> {
        self.tests.fetch_add(1, Ordering::SeqCst);
        self.inner.evaluate(problem, state)
    }
}

/// Counting loop body; optionally adds `eval_step` to `Evaluations`.
#[derive(Clone)]
struct CountBody {
    passes: Arc<AtomicU64>,
    eval_step: u32,
}
impl Serialize for CountBody {
    fn serialize<S: serde::Serializer>(&self, s: S) -> Result<S::Ok, S::Error> { s.serialize_unit() }
}
impl Component<P> for CountBody {
    fn execute(&self, _problem: &P, state: &mut State<P>) -> ExecResult<()> {
        self.passes.fetch_add(1, Ordering::SeqCst);
        if self.eval_step > 0 {
            *state.try_borrow_value_mut::<Evaluations>()? += self.eval_step;
        }
        Ok(())
    }
}

/// Held-word generator: every draw returns the word the harness put into `HELD` (it does not advance), so one
/// evaluation sees ONE scripted uniform word however many draws it makes (none, one, several). The property fixes
/// neither the word -> verdict mapping nor the number of draws, so neither is observed.
static HELD: AtomicU64 = AtomicU64::new(0);
struct HoldRng;
impl RngCore for HoldRng {
    fn next_u32(&mut self) -> u32 { (self.next_u64() >> 32) as u32 }
    fn next_u64(&mut self) -> u64 { HELD.load(Ordering::SeqCst) }
    fn fill_bytes(&mut self, dest: &mut [u8]) {
        for chunk in dest.chunks_mut(8) {
            let w = self.next_u64().to_le_bytes();
            chunk.copy_from_slice(&w[..chunk.len()]);
        }
    }
    fn try_fill_bytes(&mut self, dest: &mut [u8]) -> Result<(), rand::Error> { self.fill_bytes(dest); Ok(()) }
}
impl SeedableRng for HoldRng {
    type Seed = [u8; 8];
    fn from_seed(_seed: [u8; 8]) -> Self { HoldRng }
}
/// Number of equidistant words of a sweep over the whole u64 range.
const SWEEP: u64 = 4096;

/// Event budget of one `nest` case: a changed loop that no longer terminates ends in `Err`, not in a hang.
const NEST_BUDGET: u64 = 20_000;

/// Leaf of a `nest` tree: logs `(p tag <Iterations it sees>)`.
#[derive(Clone)]
struct LeafComp { tag: u64, log: EvLog, budget: Arc<AtomicU64> }
impl Serialize for LeafComp {
    fn serialize<S: serde::Serializer>(&self, s: S) -> Result<S::Ok, S::Error> { s.serialize_unit() }
}
impl Component<P> for LeafComp {
    fn execute(&self, _problem: &P, state: &mut State<P>) -> ExecResult<()> {
        if self.budget.fetch_add(1, Ordering::SeqCst) > NEST_BUDGET { return Err(eyre::eyre!("event budget exhausted")); }
        let it = state.try_get_value::<Iterations>().map(|v| v.to_string()).unwrap_or("none".into());
        self.log.lock().unwrap().push(format!("(p {} {})", self.tag, it));
        Ok(())
    }
}
/// Wrapper around a loop's `LessThanN::iterations(n)`: logs `(t id verdict <Iterations> <Progress>)` per test.
#[derive(Clone)]
struct LogCond { id: u64, inner: Box<dyn Condition<P>>, log: EvLog, budget: Arc<AtomicU64> }
impl Serialize for LogCond {
    fn serialize<S: serde::Serializer>(&self, s: S) -> Result<S::Ok, S::Error> { s.serialize_unit() }
}
impl Condition<P> for LogCond {
    fn init(&self, problem: &P, state: &mut State<P>) -> ExecResult<()> { self.inner.init(problem, state) }
    fn evaluate(&self, problem: &P, state: &mut State<P>) -> ExecResult<bool> {
        if self.budget.fetch_add(1, Ordering::SeqCst) > NEST_BUDGET { return Err(eyre::eyre!("event budget exhausted")); }
        let v = self.inner.evaluate(problem, state)?;
        let it = state.try_get_value::<Iterations>().map(|v| v.to_string()).unwrap_or("none".into());
        let pr = state.try_get_value::<Progress<ValueOf<Iterations>>>().map(fxn).unwrap_or("none".into());
        self.log.lock().unwrap().push(format!("(t {} {} {} {})", self.id, b(v), it, pr));
        Ok(v)
    }
}
/// Builds a `nest` tree through the real builder: `(p tag)`, `(loop id n ITEM*)`, `(scope ITEM*)`.
fn build_nest(mut bld: mahf::configuration::ConfigurationBuilder<P>, items: &[Sx], log: &EvLog, budget: &Arc<AtomicU64>)
    -> mahf::configuration::ConfigurationBuilder<P> {
    for it in items {
        let (name, a) = it.head().unwrap();
        bld = match name {
            "p" => bld.do_(Box::new(LeafComp { tag: a[0].nat().unwrap(), log: log.clone(), budget: budget.clone() })),
            "loop" => {
                let cond: Box<dyn Condition<P>> = Box::new(LogCond {
                    id: a[0].nat().unwrap(),
                    inner: LessThanN::<ValueOf<Iterations>>::iterations::<P>(a[1].nat().unwrap() as u32),
                    log: log.clone(), budget: budget.clone() });
                bld.while_(cond, |inner| build_nest(inner, &a[2..], log, budget))
            }
            "scope" => bld.scope_(|inner| build_nest(inner, a, log, budget)),
            _ => panic!("unknown nest item {name}"),
        };
    }
    bld
}
/// Is every loop the only loop on its registry level? (`wellScoped` of the model; picks the site.)
fn nest_level(items: &[Sx]) -> Option<u32> {
    // Some(k): k loops on this level (k <= 1) and every scope below is fine; None: not well-scoped
    let mut k = 0;
    for it in items {
        let (name, a) = it.head().unwrap();
        match name {
            "loop" => { if nest_level(&a[2..])? != 0 { return None; } k += 1; }
            "scope" => { nest_level(a)?; }
            _ => {}
        }
    }
    if k <= 1 { Some(k) } else { None }
}

/// Wrapper around a composite loop condition: logs `(t verdict <Iterations> <Evaluations> <both Progress values>)` per test.
#[derive(Clone)]
struct LogCond2 { inner: Box<dyn Condition<P>>, log: EvLog, budget: Arc<AtomicU64> }
impl Serialize for LogCond2 {
    fn serialize<S: serde::Serializer>(&self, s: S) -> Result<S::Ok, S::Error> { s.serialize_unit() }
}
impl Condition<P> for LogCond2 {
    fn init(&self, problem: &P, state: &mut State<P>) -> ExecResult<()> { self.inner.init(problem, state) }
    fn evaluate(&self, problem: &P, state: &mut State<P>) -> ExecResult<bool> {
        if self.budget.fetch_add(1, Ordering::SeqCst) > NEST_BUDGET { return Err(eyre::eyre!("event budget exhausted")); }
        let v = self.inner.evaluate(problem, state)?;
        let it = state.try_get_value::<Iterations>().map(|v| v.to_string()).unwrap_or("none".into());
        let ev = state.try_get_value::<Evaluations>().map(|v| v.to_string()).unwrap_or("none".into());
        let pit = state.try_get_value::<Progress<ValueOf<Iterations>>>().map(fxn).unwrap_or("none".into());
        let pev = state.try_get_value::<Progress<ValueOf<Evaluations>>>().map(fxn).unwrap_or("none".into());
        self.log.lock().unwrap().push(format!("(t {} {it} {ev} {pit} {pev})", b(v)));
        Ok(v)
    }
}

/// One condition of an `nst` case and how to read the `Progress` state it writes (LessThanN only).
struct NCond { cond: Box<dyn Condition<P>>, prog: Option<fn(&State<P>) -> String> }

fn prog_of<L: mahf::lens::AnyLens>(state: &State<P>) -> String {
    state.try_get_value::<Progress<L>>().map(fxn).unwrap_or("none".into())
}
fn so(x: &Sx) -> SingleObjective { SingleObjective::try_from(x.float().unwrap()).unwrap() }

fn nst_cond(c: &Sx) -> NCond {
    use mahf::lens::common::BestObjectiveValueLens;
    let (name, a) = c.head().unwrap();
    match name {
        "opt" => NCond { cond: OptimumReached::new::<P>(a[0].float().unwrap()).unwrap(), prog: None },
        "lt" => {
            let n = a[1].nat().unwrap() as u32;
            match lens_id(&a[0]) {
                0 => NCond { cond: LessThanN::<ValueOf<Iterations>>::iterations::<P>(n), prog: Some(prog_of::<ValueOf<Iterations>>) },
                1 => NCond { cond: LessThanN::<ValueOf<Evaluations>>::evaluations::<P>(n), prog: Some(prog_of::<ValueOf<Evaluations>>) },
                2 => NCond { cond: LessThanN::new::<P>(n, ValueOf::<ObsA>::new()), prog: Some(prog_of::<ValueOf<ObsA>>) },
                _ => NCond { cond: LessThanN::new::<P>(n, ValueOf::<ObsB>::new()), prog: Some(prog_of::<ValueOf<ObsB>>) },
            }
        }
        "ltb" => NCond { cond: LessThanN::new::<P>(so(&a[0]), BestObjectiveValueLens::<P>::new()), prog: Some(prog_of::<BestObjectiveValueLens<P>>) },
        "every" => {
            let n = a[1].nat().unwrap() as u32;
            let cond = match lens_id(&a[0]) {
                0 => EveryN::<ValueOf<Iterations>>::iterations::<P>(n),
                1 => EveryN::new::<P>(n, ValueOf::<Evaluations>::new()),
                2 => EveryN::new::<P>(n, ValueOf::<ObsA>::new()),
                _ => EveryN::new::<P>(n, ValueOf::<ObsB>::new()),
            };
            NCond { cond, prog: None }
        }
        "chg" => NCond { cond: change_of(lens_id(&a[0]), &a[1]), prog: None },
        "chgb" => {
            let checker = match a[0].head() {
                Some(("de", th)) => DeltaEqChecker::new(so(&th[0])),
                _ => PartialEqChecker::new::<SingleObjective>(),
            };
            NCond { cond: ChangeOf::new::<P>(checker, BestObjectiveValueLens::<P>::new()), prog: None }
        }
        _ => panic!("unknown nst condition {name}"),
    }
}

/// Interprets an `nst` script on the real `State`: `(in …)` is `State::with_inner_state`.
fn nst_items(items: &[Sx], conds: &[NCond], problem: &P, state: &mut State<P>, log: &mut Vec<String>) -> ExecResult<()> {
    for it in items {
        let (name, a) = it.head().unwrap();
        match name {
            "put" => {
                let v = a[1].nat().unwrap() as u32;
                match lens_id(&a[0]) {
                    0 => { state.insert(Iterations(v)); }
                    1 => { state.insert(Evaluations(v)); }
                    2 => { state.insert(ObsA(v)); }
                    _ => { state.insert(ObsB(v)); }
                }
            }
            "putb" => {
                let mut best = BestIndividual::<P>::new();
                if a[0].atom() != Some("none") { best.update(&Individual::new(7u64, so(&a[0]))); }
                state.insert(best);
            }
            "set" => {
                let v = a[1].nat().unwrap() as u32;
                match lens_id(&a[0]) {
                    0 => { state.set_value::<Iterations>(v); }
                    1 => { state.set_value::<Evaluations>(v); }
                    2 => { state.set_value::<ObsA>(v); }
                    _ => { state.set_value::<ObsB>(v); }
                }
            }
            "updb" => {
                if let Ok(mut best) = state.try_borrow_mut::<BestIndividual<P>>() { best.update(&Individual::new(8u64, so(&a[0]))); }
            }
            "init" => { if let Some(c) = conds.get(a[0].nat().unwrap() as usize) { c.cond.init(problem, state)?; } }
            "eval" => {
                let i = a[0].nat().unwrap();
                if let Some(c) = conds.get(i as usize) {
                    let r = res(c.cond.evaluate(problem, state));
                    log.push(match c.prog { Some(p) => format!("({i} {r} {})", p(state)), None => format!("({i} {r})") });
                }
            }
            "in" => { state.with_inner_state(|inner| nst_items(a, conds, problem, inner, log))?; }
            _ => panic!("unknown nst item {name}"),
        }
    }
    Ok(())
}

/// Nested search: replaces the current population by one individual with the next scripted objective value.
#[derive(Clone)]
struct NextPop { script: Arc<Mutex<std::collections::VecDeque<f64>>>, passes: Arc<AtomicU64> }
impl Serialize for NextPop {
    fn serialize<S: serde::Serializer>(&self, s: S) -> Result<S::Ok, S::Error> { s.serialize_unit() }
}
impl Component<P> for NextPop {
    fn execute(&self, _problem: &P, state: &mut State<P>) -> ExecResult<()> {
        self.passes.fetch_add(1, Ordering::SeqCst);
        let mut pops = state.populations_mut();
        pops.pop();
        match self.script.lock().unwrap().pop_front() {
            Some(v) => pops.push(vec![Individual::new(9u64, SingleObjective::try_from(v).unwrap())]),
            None => pops.push(vec![]),
        }
        Ok(())
    }
}
/// Sets the current population to a fixed one (empty: nothing for `BestIndividualUpdate` to find).
#[derive(Clone, Serialize)]
struct FixPop { v: Option<f64> }
impl Component<P> for FixPop {
    fn execute(&self, _problem: &P, state: &mut State<P>) -> ExecResult<()> {
        let mut pops = state.populations_mut();
        pops.pop();
        pops.push(self.v.map(|v| vec![Individual::new(6u64, SingleObjective::try_from(v).unwrap())]).unwrap_or_default());
        Ok(())
    }
}
/// Feeds the best of the current population to the NEAREST `BestIndividual` without owning one (no `init`).
#[derive(Clone, Serialize)]
struct UpdNearest;
impl Component<P> for UpdNearest {
    fn execute(&self, _problem: &P, state: &mut State<P>) -> ExecResult<()> {
        let v = state.populations().current().first().map(|i| i.clone());
        if let (Some(i), Ok(mut best)) = (v, state.try_borrow_mut::<BestIndividual<P>>()) { best.update(&i); }
        Ok(())
    }
}
/// Wrapper around the search's loop condition: logs `(t verdict <Iterations> <nearest BestIndividual>)` per test
/// (the best value is read with `try_borrow`, not through the helper the conditions use).
#[derive(Clone)]
struct LogCondS { inner: Box<dyn Condition<P>>, log: EvLog, budget: Arc<AtomicU64> }
impl Serialize for LogCondS {
    fn serialize<S: serde::Serializer>(&self, s: S) -> Result<S::Ok, S::Error> { s.serialize_unit() }
}
impl Condition<P> for LogCondS {
    fn init(&self, problem: &P, state: &mut State<P>) -> ExecResult<()> { self.inner.init(problem, state) }
    fn evaluate(&self, problem: &P, state: &mut State<P>) -> ExecResult<bool> {
        if self.budget.fetch_add(1, Ordering::SeqCst) > NEST_BUDGET { return Err(eyre::eyre!("event budget exhausted")); }
        let it = state.try_get_value::<Iterations>().map(|v| v.to_string()).unwrap_or("none".into());
        let best = nearest_best(state);
        let v = self.inner.evaluate(problem, state)?;
        self.log.lock().unwrap().push(format!("(t {} {it} {best})", b(v)));
        Ok(v)
    }
}
fn nearest_best(state: &State<P>) -> String {
    match state.try_borrow::<BestIndividual<P>>() {
        Ok(best) => best.as_ref().map(|i| fx(i.objective().value())).unwrap_or("none".into()),
        Err(_) => "none".into(),
    }
}
fn build_search(bld: mahf::configuration::ConfigurationBuilder<P>, shadow: &[bool], cond: &Box<dyn Condition<P>>, body: &NextPop)
    -> mahf::configuration::ConfigurationBuilder<P> {
    match shadow {
        // no scope at all: the loop on the root registry
        [] => bld.while_(cond.clone(), |lp| lp.do_(Box::new(body.clone())).do_(Box::new(UpdNearest))),
        [own] => {
            // the innermost scope: the loop; with `update_best_individual` in its body the scope keeps its own best
            // individual (`BestIndividualUpdate::init` runs inside the scope's registry)
            let own = *own;
            bld.scope_(|inner| inner.while_(cond.clone(), |lp| {
                let lp = lp.do_(Box::new(body.clone()));
                if own { lp.update_best_individual() } else { lp.do_(Box::new(UpdNearest)) }
            }))
        }
        [own, rest @ ..] => {
            let own = *own;
            bld.scope_(|inner| {
                let inner = if own { inner.update_best_individual() } else { inner };
                build_search(inner, rest, cond, body)
            })
        }
    }
}

fn fxn(v: f64) -> String { if v.is_nan() { "nan".into() } else { fx(v) } }
fn res(r: ExecResult<bool>) -> String {
    match r { Ok(v) => b(v), Err(_) => "err".into() }
}

/// Builds the formula; `next` numbers the leaves in reading order.
fn build_form(f: &Sx, env: &[u8], next: &mut u64, log: &Arc<Mutex<Vec<u64>>>, inits: &Arc<Mutex<Vec<u64>>>) -> Box<dyn Condition<P>> {
    let (name, a) = f.head().unwrap();
    match name {
        "l" => {
            let operand = match a[0].atom().unwrap() { "a" => 0, "b" => 1, _ => 2 };
            let tag = *next;
            *next += 1;
            Box::new(ScriptCond { tag, outcome: env[operand], log: log.clone(), inits: inits.clone() })
        }
        "not" => Not::new(build_form(&a[0], env, next, log, inits)),
        "and" => { let v: Vec<_> = a.iter().map(|g| build_form(g, env, next, log, inits)).collect(); And::new(v) }
        "or" => { let v: Vec<_> = a.iter().map(|g| build_form(g, env, next, log, inits)).collect(); Or::new(v) }
        // the public operator forms `!c`, `c1 & c2`, `c1 | c2` (std::ops impls in logical.rs)
        "not1" => !build_form(&a[0], env, next, log, inits),
        "and2" => { let l = build_form(&a[0], env, next, log, inits); let r = build_form(&a[1], env, next, log, inits); l & r }
        "or2" => { let l = build_form(&a[0], env, next, log, inits); let r = build_form(&a[1], env, next, log, inits); l | r }
        _ => panic!("unknown connective {name}"),
    }
}

fn run_case(input: &Sx) -> String {
    let (name, a) = input.head().unwrap();
    let problem = CProblem { optimum: 0.0 };
    let mut state: State<P> = State::new();
    match name {
        "lt" => {
            let kind = a[0].atom().unwrap();
            let out = catch(|| -> (ExecResult<bool>, f64) {
                match kind {
                    "u" | "e" | "o" => {
                        let (n, v) = (a[1].nat().unwrap() as u32, a[2].nat().unwrap() as u32);
                        if kind == "o" {
                            // the general constructor over a user-defined state
                            state.insert(ObsA(v));
                            let c = LessThanN::new::<P>(n, ValueOf::<ObsA>::new());
                            c.init(&problem, &mut state).unwrap();
                            let r = c.evaluate(&problem, &mut state);
                            (r, state.get_value::<Progress<ValueOf<ObsA>>>())
                        } else if kind == "u" {
                            state.insert(Iterations(v));
                            let c = LessThanN::<ValueOf<Iterations>>::iterations::<P>(n);
                            c.init(&problem, &mut state).unwrap();
                            let r = c.evaluate(&problem, &mut state);
                            (r, state.get_value::<Progress<ValueOf<Iterations>>>())
                        } else {
                            state.insert(Evaluations(v));
                            let c = LessThanN::<ValueOf<Evaluations>>::evaluations::<P>(n);
                            c.init(&problem, &mut state).unwrap();
                            let r = c.evaluate(&problem, &mut state);
                            (r, state.get_value::<Progress<ValueOf<Evaluations>>>())
                        }
                    }
                    _ => {
                        let (n, v) = (a[1].float().unwrap(), a[2].float().unwrap());
                        state.insert(FVal(v));
                        let c = LessThanN::new::<P>(n, ValueOf::<FVal>::new());
                        c.init(&problem, &mut state).unwrap();
                        let r = c.evaluate(&problem, &mut state);
                        (r, state.get_value::<Progress<ValueOf<FVal>>>())
                    }
                }
            });
            match out {
                Some((r, p)) => list([tagged("r", [res(r)]), tagged("progress", [fxn(p)])]),
                None => "panic".into(),
            }
        }
        "everyo" => {
            let (n, v) = (a[0].nat().unwrap() as u32, a[1].nat().unwrap() as u32);
            state.insert(ObsA(v));
            let c = EveryN::new::<P>(n, ValueOf::<ObsA>::new());
            catch(|| {
                c.init(&problem, &mut state).unwrap();
                tagged("r", [res(c.evaluate(&problem, &mut state))])
            }).unwrap_or("panic".into())
        }
        "every" => {
            let (n, v) = (a[0].nat().unwrap() as u32, a[1].nat().unwrap() as u32);
            state.insert(Iterations(v));
            let c = EveryN::<ValueOf<Iterations>>::iterations::<P>(n);
            catch(|| {
                c.init(&problem, &mut state).unwrap();
                tagged("r", [res(c.evaluate(&problem, &mut state))])
            }).unwrap_or("panic".into())
        }
        "opt" => {
            let eps = a[0].float().unwrap();
            let problem = CProblem { optimum: a[2].float().unwrap() };
            let mut best = BestIndividual::<P>::new();
            if let Some(("some", v)) = a[1].head() {
                best.update(&Individual::new(7u64, SingleObjective::try_from(v[0].float().unwrap()).unwrap()));
            }
            state.insert(best);
            match OptimumReached::new::<P>(eps) {
                Err(_) => "(e ctor)".into(),
                Ok(c) => catch(|| {
                    c.init(&problem, &mut state).unwrap();
                    tagged("r", [res(c.evaluate(&problem, &mut state))])
                }).unwrap_or("panic".into()),
            }
        }
        "chg" => {
            let checker = match a[0].head() {
                Some(("de", th)) => DeltaEqChecker::new(th[0].nat().unwrap() as u32),
                _ => PartialEqChecker::new::<u32>(),
            };
            let (_, vals) = a[1].head().unwrap();
            state.insert(Iterations(0));
            let c = ChangeOf::new::<P>(checker, ValueOf::<Iterations>::new());
            catch(|| {
                c.init(&problem, &mut state).unwrap();
                let mut outs = vec![];
                for v in vals {
                    state.set_value::<Iterations>(v.nat().unwrap() as u32);
                    outs.push(res(c.evaluate(&problem, &mut state)));
                }
                list(outs)
            }).unwrap_or("panic".into())
        }
        "chgm" => {
            // several ChangeOf conditions in one state, explicit re-initialisations, real Scope components
            let (_, cs) = a[0].head().unwrap();
            let conds: Vec<Box<dyn Condition<P>>> = cs.iter().map(|c| {
                let v = c.items().unwrap();
                change_of(lens_id(&v[1]), &v[2])
            }).collect();
            let (_, items) = a[1].head().unwrap();
            let log: EvLog = Arc::new(Mutex::new(vec![]));
            state.insert(Iterations(0));
            state.insert(Evaluations(0));
            state.insert(ObsA(0));
            state.insert(ObsB(0));
            let root = mahf::components::Block::new(build_items(items, &conds, &log));
            catch(|| {
                let r = root.init(&problem, &mut state).and_then(|_| root.execute(&problem, &mut state));
                let l = log.lock().unwrap().clone();
                list([tagged("res", [if r.is_ok() { "ok".to_string() } else { "err".to_string() }]), tagged("log", l)])
            }).unwrap_or("panic".into())
        }
        "loopchg" => {
            // real Loop guarded by ChangeOf over ObsA, entered several times (optionally inside a Scope)
            let scoped = a[0].atom().unwrap() == "scoped";
            let entries = a[2].nat().unwrap();
            let v0 = a[3].nat().unwrap() as u32;
            let (_, sc) = a[4].head().unwrap();
            let script: std::collections::VecDeque<u32> = sc.iter().map(|v| v.nat().unwrap() as u32).collect();
            let passes = Arc::new(AtomicU64::new(0));
            let body: Box<dyn Component<P>> = Box::new(ScriptBody { passes: passes.clone(), script: Arc::new(Mutex::new(script)) });
            let lp = Loop::new(change_of(2, &a[1]), body);
            let comp: Box<dyn Component<P>> = if scoped { mahf::components::Scope::new(vec![lp]) } else { lp };
            state.insert(ObsA(v0));
            catch(|| {
                let mut per_entry = vec![];
                let mut ok = comp.init(&problem, &mut state).is_ok();
                for _ in 0..entries {
                    let before = passes.load(Ordering::SeqCst);
                    ok &= comp.execute(&problem, &mut state).is_ok();
                    per_entry.push((passes.load(Ordering::SeqCst) - before).to_string());
                }
                list([tagged("res", [if ok { "ok".to_string() } else { "err".to_string() }]), tagged("passes", per_entry)])
            }).unwrap_or("panic".into())
        }
        "chgo" => {
            // ChangeOf over the best objective value (the documented use of DeltaEqChecker)
            use mahf::lens::common::BestObjectiveValueLens;
            let so = |x: &Sx| SingleObjective::try_from(x.float().unwrap()).unwrap();
            let checker = match a[0].head() {
                Some(("de", th)) => DeltaEqChecker::new(so(&th[0])),
                _ => PartialEqChecker::new::<SingleObjective>(),
            };
            let (_, vals) = a[1].head().unwrap();
            let c = ChangeOf::new::<P>(checker, BestObjectiveValueLens::<P>::new());
            catch(|| {
                c.init(&problem, &mut state).unwrap();
                let mut outs = vec![];
                for v in vals {
                    let mut best = BestIndividual::<P>::new();
                    best.update(&Individual::new(7u64, so(v)));
                    state.insert(best);
                    outs.push(res(c.evaluate(&problem, &mut state)));
                }
                list(outs)
            }).unwrap_or("panic".into())
        }
        "form" => {
            let (_, envs) = a[1].head().unwrap();
            let env: Vec<u8> = envs.iter().map(|o| match o.atom().unwrap() { "t" => 1, "f" => 0, _ => 2 }).collect();
            let log = Arc::new(Mutex::new(vec![]));
            let inits = Arc::new(Mutex::new(vec![]));
            let mut next = 0;
            let c = build_form(&a[0], &env, &mut next, &log, &inits);
            catch(|| {
                c.init(&problem, &mut state).unwrap();
                let r = res(c.evaluate(&problem, &mut state));
                let l = log.lock().unwrap().clone();
                // which operands were initialised (how often), not in which order
                let mut i = inits.lock().unwrap().clone();
                i.sort();
                list([tagged("r", [r]), tagged("log", l.iter().map(|t| t.to_string())), tagged("inits", i.iter().map(|t| t.to_string()))])
            }).unwrap_or("panic".into())
        }
        "chance" => {
            // what EVERY correct implementation does for EVERY word: p = 0 never fires, p = 1 always, an invalid p panics
            let p = a[0].float().unwrap();
            let (_, ws) = a[1].head().unwrap();
            state.insert(Random::with_rng::<HoldRng>(0));
            let c = RandomChance::new::<P>(p);
            catch(|| {
                c.init(&problem, &mut state).unwrap();
                let outs: Vec<String> = ws.iter().map(|w| {
                    HELD.store(w.nat().unwrap(), Ordering::SeqCst);
                    res(c.evaluate(&problem, &mut state))
                }).collect();
                tagged("r", outs)
            }).unwrap_or("panic".into())
        }
        "sweep" => {
            // 4096 equidistant words offset + k * 2^52: how many fire
            let p = a[0].float().unwrap();
            let offset = a[1].nat().unwrap();
            state.insert(Random::with_rng::<HoldRng>(0));
            let c = RandomChance::new::<P>(p);
            catch(|| {
                c.init(&problem, &mut state).unwrap();
                let mut count = 0u64;
                for k in 0..SWEEP {
                    HELD.store(offset.wrapping_add(k << 52), Ordering::SeqCst);
                    if c.evaluate(&problem, &mut state).unwrap() { count += 1; }
                }
                tagged("count", [count.to_string()])
            }).unwrap_or("panic".into())
        }
        "freq" => {
            // real ChaCha12 draws: how many of n evaluations fire, and how many of the n/2 disjoint consecutive
            // pairs fire twice (a constant or alternating answer has the wrong joint frequency)
            let p = a[0].float().unwrap();
            let (seed, n) = (a[1].nat().unwrap(), a[2].nat().unwrap());
            state.insert(Random::new(seed));
            let c = RandomChance::new::<P>(p);
            catch(|| {
                let (mut count, mut both) = (0u64, 0u64);
                for _ in 0..n / 2 {
                    let x = c.evaluate(&problem, &mut state).unwrap();
                    let y = c.evaluate(&problem, &mut state).unwrap();
                    count += x as u64 + y as u64;
                    both += (x && y) as u64;
                }
                list([tagged("count", [count.to_string()]), tagged("both", [both.to_string()])])
            }).unwrap_or("panic".into())
        }
        "loop" => {
            let kind = a[0].atom().unwrap();
            let n = a[1].nat().unwrap() as u32;
            let step = if kind == "e" { a[2].nat().unwrap() as u32 } else { 0 };
            let tests = Arc::new(AtomicU64::new(0));
            let passes = Arc::new(AtomicU64::new(0));
            let inner = if kind == "e" { LessThanN::<ValueOf<Evaluations>>::evaluations::<P>(n) } else { LessThanN::<ValueOf<Iterations>>::iterations::<P>(n) };
            let cond: Box<dyn Condition<P>> = Box::new(CountCond { inner, tests: tests.clone() });
            let body: Box<dyn Component<P>> = Box::new(CountBody { passes: passes.clone(), eval_step: step });
            let lp = Loop::new(cond, body);
            state.insert(Evaluations(0));
            catch(|| {
                lp.init(&problem, &mut state).unwrap();
                let r = lp.execute(&problem, &mut state);
                let (counter, progress) = if kind == "e" {
                    (state.evaluations(), state.get_value::<Progress<ValueOf<Evaluations>>>())
                } else {
                    (state.iterations(), state.get_value::<Progress<ValueOf<Iterations>>>())
                };
                list([
                    tagged("res", [if r.is_ok() { "ok".to_string() } else { "err".to_string() }]),
                    tagged("passes", [passes.load(Ordering::SeqCst).to_string()]),
                    tagged("tests", [tests.load(Ordering::SeqCst).to_string()]),
                    tagged("counter", [counter.to_string()]),
                    tagged("iters", [state.iterations().to_string()]),
                    tagged("progress", [fxn(progress)]),
                ])
            }).unwrap_or("panic".into())
        }
        "loopc" => {
            // (loopc and|or|nand n m step): real loop guarded by a composite built with the operators `&`, `|`, `!`
            let (n, m, step) = (a[1].nat().unwrap() as u32, a[2].nat().unwrap() as u32, a[3].nat().unwrap() as u32);
            let it = || LessThanN::<ValueOf<Iterations>>::iterations::<P>(n);
            let ev = || LessThanN::<ValueOf<Evaluations>>::evaluations::<P>(m);
            let composite = match a[0].atom().unwrap() {
                "and" => it() & ev(),
                "or" => it() | ev(),
                _ => !(!it() | !ev()),
            };
            let log: EvLog = Arc::new(Mutex::new(vec![]));
            let budget = Arc::new(AtomicU64::new(0));
            let passes = Arc::new(AtomicU64::new(0));
            let cond: Box<dyn Condition<P>> = Box::new(LogCond2 { inner: composite, log: log.clone(), budget: budget.clone() });
            let body: Box<dyn Component<P>> = Box::new(CountBody { passes: passes.clone(), eval_step: step });
            let config = mahf::Configuration::<P>::builder().while_(cond, |bld| bld.do_(body)).build();
            state.insert(Evaluations(0));
            catch(|| {
                let r = config.run(&problem, &mut state);
                if budget.load(Ordering::SeqCst) > NEST_BUDGET { return "budget".to_string(); }
                let l = log.lock().unwrap().clone();
                list([
                    tagged("res", [if r.is_ok() { "ok".to_string() } else { "err".to_string() }]),
                    tagged("passes", [passes.load(Ordering::SeqCst).to_string()]),
                    tagged("iters", [state.try_get_value::<Iterations>().map(|v| v.to_string()).unwrap_or("none".into())]),
                    tagged("evals", [state.try_get_value::<Evaluations>().map(|v| v.to_string()).unwrap_or("none".into())]),
                    tagged("log", l),
                ])
            }).unwrap_or("panic".into())
        }
        "nst" => {
            // (nst (opt O) (conds COND*) (items ITEM*)): the shipped conditions on nested states
            let problem = CProblem { optimum: a[0].head().unwrap().1[0].float().unwrap() };
            let (_, cs) = a[1].head().unwrap();
            let (_, items) = a[2].head().unwrap();
            catch(|| {
                let conds: Vec<NCond> = cs.iter().map(nst_cond).collect();
                let mut log = vec![];
                let _ = nst_items(items, &conds, &problem, &mut state, &mut log);
                tagged("log", log)
            }).unwrap_or("panic".into())
        }
        "nsearch" => {
            // (nsearch (opt O) (eps E) K OUTER (sh FLAG+) (script V*)): built with the real builder, run with Configuration::run
            use mahf::state::common::Populations;
            let problem = CProblem { optimum: a[0].head().unwrap().1[0].float().unwrap() };
            let eps = a[1].head().unwrap().1[0].float().unwrap();
            let k = a[2].nat().unwrap() as u32;
            let outer = if a[3].atom() == Some("none") { None } else { Some(a[3].float().unwrap()) };
            let shadow: Vec<bool> = a[4].head().unwrap().1.iter().map(|x| x.atom() == Some("t")).collect();
            let script: std::collections::VecDeque<f64> = a[5].head().unwrap().1.iter().map(|x| x.float().unwrap()).collect();
            let log: EvLog = Arc::new(Mutex::new(vec![]));
            let budget = Arc::new(AtomicU64::new(0));
            let passes = Arc::new(AtomicU64::new(0));
            let cond: Box<dyn Condition<P>> = Box::new(LogCondS {
                inner: !OptimumReached::new::<P>(eps).unwrap() & LessThanN::<ValueOf<Iterations>>::iterations::<P>(k),
                log: log.clone(), budget: budget.clone() });
            let body = NextPop { script: Arc::new(Mutex::new(script)), passes: passes.clone() };
            let bld = mahf::Configuration::<P>::builder()
                .do_(Box::new(FixPop { v: outer }))
                .update_best_individual()
                .do_(Box::new(FixPop { v: None }));
            let config = build_search(bld, &shadow, &cond, &body).build();
            state.insert(Populations::<P>::new());
            state.populations_mut().push(vec![]);
            catch(|| {
                let r = config.run(&problem, &mut state);
                if budget.load(Ordering::SeqCst) > NEST_BUDGET { return "budget".to_string(); }
                let l = log.lock().unwrap().clone();
                list([
                    tagged("res", [if r.is_ok() { "ok".to_string() } else { "err".to_string() }]),
                    tagged("passes", [passes.load(Ordering::SeqCst).to_string()]),
                    tagged("log", l),
                    tagged("root", [nearest_best(&state)]),
                ])
            }).unwrap_or("panic".into())
        }
        "nest" => {
            // (nest runs pre (items ITEM*)): the tree is built with the real builder and run `runs` times
            // with `Configuration::run` on ONE state, which holds `Iterations(pre)` beforehand unless pre = none
            let runs = a[0].nat().unwrap();
            if let Some(pre) = a[1].nat() { state.insert(Iterations(pre as u32)); }
            let (_, items) = a[2].head().unwrap();
            let log: EvLog = Arc::new(Mutex::new(vec![]));
            let budget = Arc::new(AtomicU64::new(0));
            let config = build_nest(mahf::Configuration::<P>::builder(), items, &log, &budget).build();
            catch(|| {
                let mut ok = true;
                for _ in 0..runs { ok &= config.run(&problem, &mut state).is_ok(); }
                // a loop that does not stop within the budget (every generated case needs far less): no log
                if budget.load(Ordering::SeqCst) > NEST_BUDGET { return "budget".to_string(); }
                let l = log.lock().unwrap().clone();
                let it = state.try_get_value::<Iterations>().map(|v| v.to_string()).unwrap_or("none".into());
                let pr = state.try_get_value::<Progress<ValueOf<Iterations>>>().map(fxn).unwrap_or("none".into());
                list([tagged("res", [if ok { "ok".to_string() } else { "err".to_string() }]), tagged("log", l),
                      tagged("iters", [it]), tagged("progress", [pr])])
            }).unwrap_or("panic".into())
        }
        _ => panic!("unknown case {name}"),
    }
}

const UGRID: [u64; 7] = [0, 1, 2, 3, 10, u32::MAX as u64 - 1, u32::MAX as u64];

/// All formulas of nesting depth <= `depth` over the operands a, b, c; connectives take up to
/// `width` children.
fn forms(depth: usize, width: usize) -> Vec<String> {
    let leaves: Vec<String> = ["a", "b", "c"].iter().map(|x| format!("(l {x})")).collect();
    let mut cur = leaves.clone();
    for _ in 1..depth {
        let mut nxt = leaves.clone();
        for f in &cur { nxt.push(format!("(not {f})")); }
        for op in ["and", "or"] {
            // tuples of length 0..=width over `cur`
            let mut tuples: Vec<Vec<usize>> = vec![vec![]];
            let mut frontier: Vec<Vec<usize>> = vec![vec![]];
            for _ in 0..width {
                let mut n2 = vec![];
                for t in &frontier { for i in 0..cur.len() { let mut u = t.clone(); u.push(i); n2.push(u); } }
                tuples.extend(n2.iter().cloned());
                frontier = n2;
            }
            for t in tuples {
                nxt.push(tagged(op, t.iter().map(|&i| cur[i].clone())));
            }
        }
        nxt.sort();
        nxt.dedup();
        cur = nxt;
    }
    cur
}

fn main() {
    quiet_panics();
    let a = args();
    let mut out = Out::new();
    if let Some(r) = a.replay {
        let sx = Sx::parse(&r).expect("bad replay input");
        out.case("replay", &r, &run_case(&sx));
        out.finish();
        return;
    }
    let mut emit = |site: &str, input: String| {
        let sx = Sx::parse(&input).unwrap();
        out.case(site, &input, &run_case(&sx));
    };
    let mut r = Sm::new(a.seed);
    let t = a.thorough;
    let xf = |v: f64| fx(v);

    // 1. LessThanN
    for &n in &UGRID { for &v in &UGRID {
        emit("LessThanN::iterations", format!("(lt u {n} {v})"));
        emit("LessThanN::evaluations", format!("(lt e {n} {v})"));
        emit("LessThanN::new", format!("(lt o {n} {v})"));
    } }
    for _ in 0..(if t { 40_000 } else { 3_000 }) {
        let n = match r.below(3) { 0 => r.below(20), 1 => r.below(1 << 32), _ => *r.pick(&UGRID) };
        let v = match r.below(4) { 0 => n.saturating_sub(1), 1 => n, 2 => (n + 1).min(u32::MAX as u64), _ => r.below(1 << 32) };
        let (site, k) = if r.chance(1, 2) { ("LessThanN::iterations", "u") } else { ("LessThanN::evaluations", "e") };
        emit(site, format!("(lt {k} {n} {v})"));
    }
    let fgrid = [0.0f64, -0.0, 0.5, 1.0, 1.5, 3.0, 1e308, f64::INFINITY, f64::NEG_INFINITY, f64::NAN, -1.0, 5e-324];
    for &n in &fgrid { for &v in &fgrid {
        emit("LessThanN::float", format!("(lt f {} {})", xf(n), xf(v)));
    } }
    for _ in 0..(if t { 10_000 } else { 1_000 }) {
        let n = if r.chance(1, 2) { f64::from_bits(r.next()) } else { (r.below(2000) as f64 - 1000.0) / 8.0 };
        let v = match r.below(4) { 0 => n, 1 => f64::from_bits(n.to_bits().wrapping_add(1)), 2 => f64::from_bits(n.to_bits().wrapping_sub(1)), _ => f64::from_bits(r.next()) };
        emit("LessThanN::float", format!("(lt f {} {})", xf(n), xf(v)));
    }

    // 2. EveryN (n = 0 is inside the domain: true exactly at value 0)
    for &n in &UGRID { for &v in &UGRID { emit("EveryN::evaluate", format!("(every {n} {v})")); emit("EveryN::new", format!("(everyo {n} {v})")); } }
    for n in 0..=6u64 { for v in 0..=13u64 { emit("EveryN::new", format!("(everyo {n} {v})")); } }
    for n in 0..=12u64 { for v in 0..=36u64 { emit("EveryN::evaluate", format!("(every {n} {v})")); } }
    for _ in 0..(if t { 40_000 } else { 3_000 }) {
        let n = match r.below(3) { 0 => 1 + r.below(50), 1 => 1 + r.below((1 << 32) - 1), _ => *r.pick(&UGRID) };
        let v = match r.below(3) { 0 => (n * r.below(100)).min(u32::MAX as u64), 1 => r.below(1 << 32), _ => (n * r.below(100) + 1).min(u32::MAX as u64) };
        emit("EveryN::evaluate", format!("(every {n} {v})"));
    }

    // 3. OptimumReached
    let next_up = |x: f64| f64::from_bits(x.to_bits() + 1);
    let epss = [0.0f64, -0.0, 1e-6, 0.5, 1.0, f64::INFINITY, f64::NAN, -1.0, -1e-300, 1e-300];
    let bests = [None, Some(0.0f64), Some(1e-6), Some(next_up(1e-6)), Some(0.5), Some(next_up(0.5)), Some(1.0), Some(1.5), Some(2.0), Some(f64::INFINITY), Some(-1.0), Some(-0.5)];
    let opts = [0.0f64, 1.0, -1.0, f64::INFINITY, 0.5];
    let bs = |v: Option<f64>| v.map(|x| format!("(some {})", fx(x))).unwrap_or("none".into());
    for &e in &epss { for &bv in &bests { for &o in &opts {
        emit("OptimumReached::evaluate", format!("(opt {} {} {})", xf(e), bs(bv), xf(o)));
    } } }
    for _ in 0..(if t { 20_000 } else { 2_000 }) {
        let o = (r.below(200) as f64 - 100.0) / 4.0;
        let e = if r.chance(1, 10) { -(r.unit()) } else { r.unit() * [1e-9, 1e-3, 1.0, 100.0][r.below(4) as usize] };
        let edge = o + e;
        let bv = match r.below(6) {
            0 => None,
            1 => Some(edge),
            2 => Some(f64::from_bits(edge.to_bits().wrapping_add(if edge >= 0.0 { 1 } else { u64::MAX }))),
            3 => Some(f64::from_bits(edge.to_bits().wrapping_sub(if edge > 0.0 { 1 } else { u64::MAX }))),
            4 => Some(o),
            _ => Some(o + r.unit() * 2.0 * e.abs()),
        };
        let bv = bv.filter(|x| !x.is_nan() && *x != f64::NEG_INFINITY);
        emit("OptimumReached::evaluate", format!("(opt {} {} {})", xf(e), bs(bv), xf(o)));
    }

    // 4. ChangeOf: all histories of length <= 5 over 3 values, both checkers, thresholds 0,1,2
    let checkers = ["pe".to_string(), "(de 0)".into(), "(de 1)".into(), "(de 2)".into(), "(de 3)".into()];
    let site_of = |c: &str| if c == "pe" { "ChangeOf::partial_eq" } else { "ChangeOf::delta_eq" };
    let vals3 = [5u64, 6, 8];
    for c in &checkers {
        for len in 0..=5usize {
            let mut idx = vec![0usize; len];
            loop {
                emit(site_of(c), format!("(chg {c} {})", tagged("vals", idx.iter().map(|&i| vals3[i].to_string()))));
                let mut k = 0;
                while k < len { idx[k] += 1; if idx[k] < 3 { break; } idx[k] = 0; k += 1; }
                if k == len { break; }
            }
        }
    }
    for _ in 0..(if t { 20_000 } else { 1_500 }) {
        let c = match r.below(3) { 0 => "pe".to_string(), _ => format!("(de {})", [0u64, 1, 2, 3, 5, u32::MAX as u64][r.below(6) as usize]) };
        let len = r.below(30);
        let base = if r.chance(1, 5) { u32::MAX as u64 - 6 } else { r.below(50) };
        let mut cur = base + r.below(7);
        let vals: Vec<String> = (0..len).map(|_| {
            match r.below(4) { 0 => {}, 1 => cur = base + r.below(7), 2 => cur = base + (cur - base + 1) % 7, _ => cur = base + (cur - base + 6) % 7 }
            cur.to_string()
        }).collect();
        emit(site_of(&c), format!("(chg {c} {})", tagged("vals", vals)));
    }

    //    ... with re-initialisations: all histories of length <= 5 over {observe 5, 6, 8, re-init}
    for ck in ["pe", "(de 1)", "(de 2)"] {
        for len in 0..=5usize {
            let mut idx = vec![0usize; len];
            loop {
                let items: Vec<String> = idx.iter().map(|&i| match i {
                    3 => "(init 0)".to_string(),
                    i => format!("(set oa {}) (eval 0)", vals3[i]),
                }).collect();
                emit("ChangeOf::reinit", format!("(chgm (conds (c oa {ck})) (items {}))", items.join(" ")));
                let mut k = 0;
                while k < len { idx[k] += 1; if idx[k] < 4 { break; } idx[k] = 0; k += 1; }
                if k == len { break; }
            }
        }
    }
    //    ... several conditions over different lenses of the same value type in one state, interleaved
    let lenses = ["it", "ev", "oa", "ob"];
    let cks = ["pe", "(de 1)", "(de 2)", "(de 3)", "pe"];
    {
        // exhaustive: two conditions (Iterations / Evaluations), sequences of length <= 5 over
        // {A sees 5, A sees 6, B sees 5, B sees 6, re-init A}
        let toks = ["(set it 5) (eval 0)", "(set it 6) (eval 0)", "(set ev 5) (eval 1)", "(set ev 6) (eval 1)", "(init 0)"];
        for len in 1..=5usize {
            let mut idx = vec![0usize; len];
            loop {
                let items: Vec<&str> = idx.iter().map(|&i| toks[i]).collect();
                emit("ChangeOf::multi", format!("(chgm (conds (c it pe) (c ev pe)) (items {}))", items.join(" ")));
                let mut k = 0;
                while k < len { idx[k] += 1; if idx[k] < toks.len() { break; } idx[k] = 0; k += 1; }
                if k == len { break; }
            }
        }
    }
    for _ in 0..(if t { 30_000 } else { 3_000 }) {
        let nc = 2 + r.below(3) as usize; // 2..4 conditions, pairwise different lenses
        let start = r.below(4) as usize;
        let conds: Vec<String> = (0..nc).map(|i| format!("(c {} {})", lenses[(start + i) % 4], r.pick(&cks))).collect();
        let n = 4 + r.below(24);
        let items: Vec<String> = (0..n).map(|_| match r.below(10) {
            0..=3 => format!("(set {} {})", lenses[(start + r.below(nc as u64) as usize) % 4], 4 + r.below(5)),
            4..=8 => format!("(eval {})", r.below(nc as u64)),
            _ => format!("(init {})", r.below(nc as u64)),
        }).collect();
        emit("ChangeOf::multi", format!("(chgm (conds {}) (items {}))", conds.join(" "), items.join(" ")));
    }
    //    ... inside real Scope components: the scope's own ChangeOf shadows the outer one
    for _ in 0..(if t { 30_000 } else { 3_000 }) {
        // cond 0 and cond 1 observe the same lens (oa) but are never used on the same registry level;
        // cond 2 observes ob and is used anywhere
        let conds = format!("(c oa {}) (c oa {}) (c ob {})", r.pick(&cks), r.pick(&cks), r.pick(&cks));
        fn gen(r: &mut Sm, depth: u32, own: u64) -> String {
            let n = 2 + r.below(7);
            let items: Vec<String> = (0..n).map(|_| match r.below(12) {
                0..=2 => format!("(set oa {})", 4 + r.below(4)),
                3 => format!("(set ob {})", 4 + r.below(4)),
                4..=6 => format!("(eval {own})"),
                7 => "(eval 2)".to_string(),
                8 => format!("(init {own})"),
                _ if depth < 2 => { let o = if r.chance(1, 2) { own } else { 1 - own }; format!("(scope {})", gen(r, depth + 1, o)) }
                _ => format!("(eval {own})"),
            }).collect();
            items.join(" ")
        }
        let body = gen(&mut r, 0, 0);
        emit("ChangeOf::scope", format!("(chgm (conds {conds}) (items {body}))"));
    }
    for (vs, tail) in [("5", "(eval 0)"), ("5", "(set oa 6) (eval 0)"), ("6", "(eval 0) (eval 0)")] {
        // hand-written: outer reports 5, a scope observes the same value with its own condition (must fire), outer unchanged afterwards
        for inner in [0, 1] {
            emit("ChangeOf::scope", format!("(chgm (conds (c oa pe) (c oa pe)) (items (set oa 5) (eval 0) (scope (eval {inner}) (set oa {vs}) (eval {inner})) {tail}))"));
        }
    }
    //    ... two conditions over the SAME lens on the same registry level (they share Previous<L>)
    for _ in 0..(if t { 3_000 } else { 300 }) {
        let conds = format!("(c oa {}) (c oa {})", r.pick(&cks), r.pick(&cks));
        let n = 3 + r.below(10);
        let items: Vec<String> = (0..n).map(|_| match r.below(10) {
            0..=3 => format!("(set oa {})", 4 + r.below(5)),
            4..=8 => format!("(eval {})", r.below(2)),
            _ => format!("(init {})", r.below(2)),
        }).collect();
        emit("ChangeOf::shared_lens", format!("(chgm (conds {conds}) (items {}))", items.join(" ")));
    }
    //    ... a real Loop guarded by ChangeOf, entered 1..3 times, plain and inside a Scope
    for mode in ["plain", "scoped"] { for ck in ["pe", "(de 1)", "(de 2)"] { for entries in 1..=3u64 {
        for script in ["", "7", "7 7", "7 8", "8 7 7", "7 8 9 9 7", "7 9 7 9"] {
            emit("Loop::change_of", format!("(loopchg {mode} {ck} {entries} 7 (script {script}))"));
        }
    } } }
    for _ in 0..(if t { 5_000 } else { 500 }) {
        let mode = if r.chance(1, 2) { "plain" } else { "scoped" };
        let ck = ["pe", "(de 1)", "(de 2)", "(de 3)"][r.below(4) as usize];
        let n = r.below(12);
        let mut cur = 4 + r.below(4);
        let script: Vec<String> = (0..n).map(|_| { if r.chance(1, 2) { cur = 4 + r.below(5); } cur.to_string() }).collect();
        emit("Loop::change_of", format!("(loopchg {mode} {ck} {} {} (script {}))", 1 + r.below(4), 4 + r.below(4), script.join(" ")));
    }

    //    ... and over objective values (f64 inside SingleObjective), incl. +inf
    let ovals = [0.0f64, 0.05, 0.1, 0.2, 0.25, 1.0, f64::INFINITY, -1.0];
    for th in [None, Some(0.0f64), Some(0.1), Some(0.15), Some(1.0), Some(f64::INFINITY)] {
        let c = th.map(|t| format!("(de {})", fx(t))).unwrap_or("pe".into());
        let site = if th.is_some() { "ChangeOf::delta_eq_objective" } else { "ChangeOf::partial_eq_objective" };
        // all histories of length <= 3 over the 8 values, random longer ones
        for len in 0..=3usize {
            let mut idx = vec![0usize; len];
            loop {
                emit(site, format!("(chgo {c} {})", tagged("vals", idx.iter().map(|&i| fx(ovals[i])))));
                let mut k = 0;
                while k < len { idx[k] += 1; if idx[k] < ovals.len() { break; } idx[k] = 0; k += 1; }
                if k == len { break; }
            }
        }
        for _ in 0..(if t { 3_000 } else { 200 }) {
            let len = r.below(20);
            let mut cur = *r.pick(&ovals);
            let vals: Vec<String> = (0..len).map(|_| {
                match r.below(4) { 0 => {}, 1 => cur = *r.pick(&ovals), 2 => cur = cur + r.unit() * 0.2, _ => cur = (cur - r.unit() * 0.2).max(-5.0) }
                fx(cur)
            }).collect();
            emit(site, format!("(chgo {c} {})", tagged("vals", vals)));
        }
    }

    // 6. RandomChance. The property fixes the PROBABILITY, not which generator words fire nor how many are drawn.
    //    (a) what holds for every word: p = 0 / -0 never fires, p = 1 always fires, an invalid p panics
    for &p in &[0.0f64, -0.0, 1.0, 1.0 + f64::EPSILON, -0.1, 1.5, f64::NAN, f64::INFINITY, f64::NEG_INFINITY, -5e-324, 2.0] {
        let mut words = vec![0u64, 1, u64::MAX, u64::MAX - 1, 1 << 63, (1 << 63) - 1, 1 << 11, u64::MAX << 11];
        for _ in 0..(if t { 200 } else { 24 }) { words.push(r.next()); }
        emit("RandomChance::evaluate", format!("(chance {} {})", xf(p), tagged("words", words.iter().map(|w| w.to_string()))));
    }
    //    (b) a sweep of 4096 equidistant words over the whole u64 range: the fraction that fires is p (within 2 words
    //        for any threshold / interval implementation, whichever end of the range it fires on)
    let mut ps: Vec<f64> = vec![0.0, -0.0, 5e-324, 2f64.powi(-64), 2f64.powi(-63), 2f64.powi(-12), 2f64.powi(-11), 0.001, 0.01, 0.1, 0.25, 0.3, 0.5,
        0.75, 0.9, 0.99, 0.999, 1.0 - 2f64.powi(-12), 1.0 - f64::EPSILON / 2.0, 1.0];
    for _ in 0..(if t { 3_000 } else { 300 }) {
        ps.push(match r.below(3) { 0 => r.unit(), 1 => r.unit() * 2f64.powi(-(r.below(16) as i32)), _ => 1.0 - r.unit() * 2f64.powi(-(r.below(16) as i32)) });
    }
    for &p in &ps {
        for offset in [0u64, (1 << 52) - 1, r.below(1 << 52)] {
            emit("RandomChance::sweep", format!("(sweep {} {offset})", xf(p)));
        }
    }
    //    (c) frequency with the real ChaCha12 generator: 10^5 draws, independent seeds, marginal and joint (5 sigma)
    let fps = [0.5f64, 0.1, 0.9, 0.01, 0.99, 0.001, 0.999, 0.25, 0.75, 0.0, 1.0];
    for (i, &p) in fps.iter().enumerate() {
        emit("RandomChance::frequency", format!("(freq {} {} {})", xf(p), a.seed * 1000 + i as u64, if t { 1_000_000 } else { 100_000 }));
    }
    for i in 0..(if t { 40 } else { 5 }) {
        let p = r.unit();
        emit("RandomChance::frequency", format!("(freq {} {} 100000)", xf(p), a.seed * 1000 + 100 + i));
    }

    // 7. Loop with counting body
    for n in [0u64, 1, 2, 7, 100] {
        emit("Loop::iterations", format!("(loop i {n})"));
        for s in [1u64, 2, 3, 7] { emit("Loop::evaluations", format!("(loop e {n} {s})")); }
    }
    for _ in 0..(if t { 2_000 } else { 150 }) {
        let n = if r.chance(1, 10) { r.below(20_000) } else { r.below(400) };
        emit("Loop::iterations", format!("(loop i {n})"));
        emit("Loop::evaluations", format!("(loop e {n} {})", 1 + r.below(9)));
    }
    // 8. Iteration-bounded loops inside a State: Loop -> (Scope ->) Loop -> ... built with the real builder,
    //    `Configuration::run` once or repeatedly on the same State, with or without a pre-existing counter
    let nest_site = |items: &str, runs: u64, pre: &str| {
        let sx = Sx::parse(&format!("(items {items})")).unwrap();
        let ws = nest_level(sx.head().unwrap().1).is_some();
        if !ws { "Loop::shared_counter" } else if runs > 1 || pre != "none" { "Loop::rerun" } else { "Loop::nested" }
    };
    let mut nests: Vec<String> = vec![];
    // chains of depth 1..3, every combination of bounds 0..3 and of "inner loop in a Scope" flags; a leaf before
    // and after the inner construct on every level
    fn chain(ns: &[u64], scoped: &[bool], level: u64) -> String {
        let inner = if ns.len() > 1 {
            let c = chain(&ns[1..], &scoped[1..], level + 1);
            if scoped[0] { format!(" (scope {c})") } else { format!(" {c}") }
        } else { String::new() };
        format!("(loop {level} {} (p {level}){inner} (p {}))", ns[0], 10 + level)
    }
    for n0 in 0..4u64 {
        nests.push(chain(&[n0], &[false], 0));
        for n1 in 0..4u64 { for s0 in [true, false] {
            nests.push(chain(&[n0, n1], &[s0, false], 0));
            for n2 in 0..4u64 { for s1 in [true, false] {
                if n0 * n1 * n2 <= 18 { nests.push(chain(&[n0, n1, n2], &[s0, s1, false], 0)); }
            } }
        } }
    }
    // the seeded blind spot and its relatives, hand-written
    for sh in [
        "(loop 0 5 (p 0) (scope (loop 1 3 (p 1))))",                       // Loop -> Scope -> Loop
        "(loop 0 5 (p 0) (loop 1 3 (p 1)))",                               // the same without the Scope (shares the counter)
        "(loop 0 4 (p 0))",                                                // run twice: 4 + 4 passes
        "(scope (loop 0 3 (p 0)))", "(scope (scope (loop 0 3 (p 0))))",
        "(loop 0 3 (p 0)) (loop 1 2 (p 1))",                               // two loops on one level (share the counter)
        "(scope (loop 0 3 (p 0))) (scope (loop 1 2 (p 1)))",
        "(p 9) (loop 0 2 (p 0) (scope (p 1) (loop 1 3 (p 2) (scope (loop 2 2 (p 3)))) (p 4))) (p 8)", // ILS-like, depth 3
        "(loop 0 2 (scope (loop 1 2 (scope (loop 2 2 (scope (loop 3 2 (p 3))))))))",          // depth 4
        "(loop 0 3 (scope (p 0)) (scope (loop 1 2 (p 1))) (scope (loop 2 1 (p 2))))",
        "(p 0)", "(scope (p 0))", "",
    ] { nests.push(sh.to_string()); }
    for items in &nests {
        for (runs, pre) in [(1u64, "none"), (2, "none"), (1, "2"), (3, "1")] {
            emit(nest_site(items, runs, pre), format!("(nest {runs} {pre} (items {items}))"));
        }
    }
    // random trees: `ws` = well-scoped by construction (at most one loop per registry level), otherwise free
    fn gen_nest(r: &mut Sm, depth: u32, ws: bool, may_loop: bool, next: &mut u64, maxn: u64) -> (String, u64) {
        // returns the items and an upper bound of the number of events of one execution
        let k = 1 + r.below(3);
        let mut loop_at = if ws && may_loop && depth < 4 && r.chance(3, 4) { Some(r.below(k)) } else { None };
        let mut out = vec![];
        let mut size = 0u64;
        for j in 0..k {
            let want_loop = if ws { loop_at == Some(j) } else { depth < 3 && r.chance(1, 3) };
            if want_loop {
                loop_at = None;
                let id = *next; *next += 1;
                let n = if r.chance(1, 8) { r.below(maxn + 3) } else { r.below(maxn + 1) };
                let (body, bs) = gen_nest(r, depth + 1, ws, false, next, maxn);
                out.push(format!("(loop {id} {n} {body})"));
                size += n * (1 + bs) + 1;
            } else if depth < 4 && r.chance(1, 3) {
                let (body, bs) = gen_nest(r, depth + 1, ws, true, next, maxn);
                out.push(format!("(scope {body})"));
                size += bs;
            } else {
                let tag = *next; *next += 1;
                out.push(format!("(p {tag})"));
                size += 1;
            }
        }
        (out.join(" "), size)
    }
    let mut made = 0;
    while made < (if t { 30_000 } else { 2_500 }) {
        let ws = r.chance(2, 3);
        let mut next = 0;
        let maxn = if t && r.chance(1, 10) { 12 } else { 3 };
        let (items, size) = gen_nest(&mut r, 0, ws, true, &mut next, maxn);
        let runs = if r.chance(1, 3) { 2 + r.below(2) } else { 1 };
        if size * runs > 4_000 { continue; }
        let pre = if r.chance(1, 4) { r.below(6).to_string() } else { "none".to_string() };
        made += 1;
        emit(nest_site(&items, runs, &pre), format!("(nest {runs} {pre} (items {items}))"));
    }
    // long flat and two-level loops (bounds up to 2000 / 60 x 60)
    for _ in 0..(if t { 300 } else { 30 }) {
        let n = r.below(2000);
        emit("Loop::rerun", format!("(nest 2 none (items (loop 0 {n} (p 0))))"));
        let (a, bb) = (r.below(60), r.below(60));
        emit("Loop::nested", format!("(nest 1 none (items (loop 0 {a} (p 0) (scope (loop 1 {bb} (p 1))))))"));
    }
    // 9. Loops guarded by composites built with the operators: iterations(n) & evaluations(m), |, !(!.. | !..)
    let site_c = |c: &str| match c { "and" => "Loop::and", "or" => "Loop::or", _ => "Loop::nand" };
    for c in ["and", "or", "nand"] {
        for n in [0u64, 1, 2, 3, 7] { for m in [0u64, 1, 2, 3, 7, 10] { for st in [1u64, 2, 3] {
            emit(site_c(c), format!("(loopc {c} {n} {m} {st})"));
        } } }
        // a body that makes no evaluation: `and` / `nand` still stop at n (an `or` would not stop: not generated)
        if c != "or" { for n in [0u64, 3] { emit(site_c(c), format!("(loopc {c} {n} 5 0)")); } }
        for _ in 0..(if t { 3_000 } else { 150 }) {
            let (n, m, st) = (r.below(120), r.below(300), 1 + r.below(9));
            emit(site_c(c), format!("(loopc {c} {n} {m} {st})"));
        }
    }
    // 10. The conditions on NESTED states (State::with_inner_state / Scope, depth 1..3): the state they read is
    //     shadowed by an empty / different inner value while the outer value would give the opposite answer
    {
        // IN^d{X}: X wrapped in d inner states
        fn wrap(d: u64, x: String) -> String { (0..d).fold(x, |acc, _| format!("(in {acc})")) }
        let depths: Vec<(u64, u64)> = (0..=3u64).flat_map(|d1| (0..=3 - d1).map(move |d2| (d1, d2))).filter(|&(a, b)| a + b >= 1 && a <= 2 && b <= 2).collect();
        // (a) ladders over the best individual: OptimumReached, LessThanN / ChangeOf over the best objective value
        let bcond = |kind: &str, eps: f64| match kind {
            "opt" => format!("(opt {})", xf(eps)),
            "ltb" => format!("(ltb {})", xf(1.0 + eps)),
            "chgb-pe" => "(chgb pe)".to_string(),
            _ => format!("(chgb (de {}))", xf(0.25 + eps)),
        };
        for kind in ["opt", "ltb", "chgb-pe", "chgb-de"] {
            let site = match kind { "opt" => "OptimumReached::nested", "ltb" => "LessThanN::nested", _ => "ChangeOf::nested" };
            for opt in [0.0f64, 1.0] { for eps in [0.0f64, 0.5] {
                if kind != "opt" && (opt != 0.0) { continue; }
                let vals = |w: &str| match w { "within" => Some(xf(opt)), "edge" => Some(xf(opt + eps)), "far" => Some(xf(opt + 2.0)), "empty" => Some("none".to_string()), _ => None };
                for outer in ["absent", "empty", "within", "far"] { for shadow in ["nothing", "empty", "within", "far"] {
                    for &(d1, d2) in &depths { for v in ["edge", "far"] { for inits in 0..(if kind == "opt" { 1 } else { 4 }) {
                        let e = "(eval 0)";
                        let init_root = if inits & 1 == 1 { "(init 0) " } else { "" };
                        let init_sh = if inits & 2 == 2 { "(init 0) " } else { "" };
                        let put_outer = vals(outer).map(|x| format!("(putb {x}) ")).unwrap_or_default();
                        let put_shadow = vals(shadow).map(|x| format!("(putb {x}) ")).unwrap_or_default();
                        let innermost = wrap(d2, format!("{e} (updb {}) {e}", vals(v).unwrap()));
                        let middle = wrap(d1, format!("{e} {put_shadow}{init_sh}{e} {innermost} {e}"));
                        emit(site, format!("(nst (opt {}) (conds {}) (items {put_outer}{init_root}{e} {middle} {e}))", xf(opt), bcond(kind, eps)));
                    } } }
                } }
            } }
        }
        // (b) ladders over shadowed counters: LessThanN, EveryN, ChangeOf over Iterations / a user-defined state
        for (site, cond) in [("LessThanN::nested", "(lt K 2)"), ("LessThanN::nested", "(lt K 5)"), ("EveryN::nested", "(every K 2)"), ("EveryN::nested", "(every K 0)"),
                             ("ChangeOf::nested", "(chg K pe)"), ("ChangeOf::nested", "(chg K (de 2))")] {
            for key in ["it", "oa"] {
                let cond = cond.replace('K', key);
                let stateful = !cond.starts_with("(every");
                for outer in [None, Some(1u64), Some(4)] { for shadow in [None, Some(0u64), Some(2), Some(5)] {
                    for &(d1, d2) in &depths { for v in [1u64, 6] { for inits in 0..(if stateful { 4 } else { 1 }) {
                        let e = "(eval 0)";
                        let init_root = if inits & 1 == 1 { "(init 0) " } else { "" };
                        let init_sh = if inits & 2 == 2 { "(init 0) " } else { "" };
                        let put_outer = outer.map(|x| format!("(put {key} {x}) ")).unwrap_or_default();
                        let put_shadow = shadow.map(|x| format!("(put {key} {x}) ")).unwrap_or_default();
                        let innermost = wrap(d2, format!("{e} (set {key} {v}) {e}"));
                        let middle = wrap(d1, format!("{e} {put_shadow}{init_sh}{e} {innermost} {e}"));
                        emit(site, format!("(nst (opt {}) (conds {cond}) (items {put_outer}{init_root}{e} {middle} {e}))", xf(0.0)));
                    } } }
                } }
            }
        }
        // (c) random scripts: one kind of condition (finer site) or a mix
        let bvals = [0.0f64, 0.25, 0.5, 1.0, 2.0, 5.0];
        let keys = ["it", "ev", "oa", "ob"];
        fn gen_nst(r: &mut Sm, depth: u32, nc: u64, keys: &[&str], bvals: &[f64], opt: f64) -> String {
            let n = 2 + r.below(6);
            let mut out: Vec<String> = vec![];
            if depth > 0 && r.chance(1, 2) {
                // open the inner state with a shadowing insert
                if r.chance(1, 2) { out.push(format!("(put {} {})", r.pick(keys), r.below(7))); }
                else if r.chance(1, 2) { out.push("(putb none)".to_string()); }
                else { out.push(format!("(putb {})", fx(opt + *r.pick(bvals)))); }
            }
            for _ in 0..n {
                out.push(match r.below(18) {
                    0..=1 => format!("(put {} {})", r.pick(keys), r.below(7)),
                    2 => if r.chance(1, 2) { "(putb none)".to_string() } else { format!("(putb {})", fx(opt + *r.pick(bvals))) },
                    3..=4 => format!("(set {} {})", r.pick(keys), r.below(7)),
                    5 => format!("(updb {})", fx(opt + *r.pick(bvals))),
                    6 => format!("(init {})", r.below(nc)),
                    7..=13 => format!("(eval {})", r.below(nc)),
                    _ if depth < 3 => format!("(in {})", gen_nst(r, depth + 1, nc, keys, bvals, opt)),
                    _ => format!("(eval {})", r.below(nc)),
                });
            }
            out.join(" ")
        }
        for _ in 0..(if t { 40_000 } else { 4_000 }) {
            let opt = if r.chance(3, 4) { 0.0 } else { 1.0 };
            let kind = r.below(5);
            // pairwise different lenses for the ChangeOf conditions (two over one lens share their memory: known finding)
            let start = r.below(4) as usize;
            let mut conds: Vec<String> = vec![];
            let nc = 1 + r.below(4);
            for i in 0..nc as usize {
                let key = keys[(start + i) % 4];
                let k = if kind == 4 { r.below(4) } else { kind };
                conds.push(match k {
                    0 => if r.chance(2, 3) { format!("(opt {})", fx(*r.pick(&[0.0, 0.25, 0.5, 1.0]))) } else { format!("(ltb {})", fx(opt + *r.pick(&[0.5, 1.0, 2.0]))) },
                    1 => format!("(lt {key} {})", 1 + r.below(5)),
                    2 => format!("(every {key} {})", r.below(4)),
                    _ => if i == 0 && r.chance(1, 3) { format!("(chgb {})", if r.chance(1, 2) { "pe".to_string() } else { format!("(de {})", fx(*r.pick(&[0.25, 1.0]))) }) }
                         else { format!("(chg {key} {})", r.pick(&["pe", "(de 1)", "(de 2)", "(de 3)"])) },
                });
            }
            let site = match kind { 0 => "OptimumReached::nested", 1 => "LessThanN::nested", 2 => "EveryN::nested", 3 => "ChangeOf::nested", _ => "Conditions::nested" };
            let used: Vec<&str> = (0..nc as usize).map(|i| keys[(start + i) % 4]).collect();
            let items = gen_nst(&mut r, 0, nc, &used, &bvals, opt);
            emit(site, format!("(nst (opt {}) (conds {}) (items {items}))", fx(opt), conds.join(" ")));
        }
        // (d) the nested search: scope_* around `while !OptimumReached(eps) & iterations < k`, built with the real
        //     builder; a scope that keeps its own best individual (update_best_individual) starts from nothing
        let scripts: [&[f64]; 7] = [&[], &[2.0], &[2.0, 1.0, 0.25], &[0.0], &[3.0, 3.0, 3.0, 3.0, 3.0, 3.0], &[1.0, 0.5, 0.0], &[2.0, 0.0]];
        let shadows: Vec<String> = (1..=3usize).flat_map(|d| (0..1u32 << d).map(move |m| (0..d).map(|i| if m >> i & 1 == 1 { "t" } else { "f" }).collect::<Vec<_>>().join(" "))).collect();
        for eps in [0.0f64, 0.5] { for k in [0u64, 1, 3, 5] { for outer in [None, Some(0.0f64), Some(0.5), Some(2.0)] {
            for sh in &shadows { for sc in &scripts {
                let o = outer.map(fx).unwrap_or("none".into());
                emit("Loop::nested_search", format!("(nsearch (opt {}) (eps {}) {k} {o} (sh {sh}) {})", xf(0.0), xf(eps), tagged("script", sc.iter().map(|&v| fx(v)))));
            } }
        } } }
        for _ in 0..(if t { 10_000 } else { 800 }) {
            let eps = *r.pick(&[0.0f64, 0.25, 0.5, 1.0]);
            let k = r.below(9);
            let o = if r.chance(1, 4) { "none".to_string() } else { fx(*r.pick(&bvals)) };
            let sh = r.pick(&shadows).clone();
            let n = r.below(10);
            let sc: Vec<String> = (0..n).map(|_| fx(*r.pick(&bvals) + if r.chance(1, 3) { 0.125 } else { 0.0 })).collect();
            emit("Loop::nested_search", format!("(nsearch (opt {}) (eps {}) {k} {o} (sh {sh}) (script {}))", xf(0.0), xf(eps), sc.join(" ")));
        }
    }
    // (the formula cases come last: they are by far the most numerous, and the check keeps only the first few
    //  thousand deviating rows — a changed connective must not crowd out what the loop cases above show)
    // 5. Boolean formulas over scripted operands
    let outcomes = ["t", "f", "e"];
    let site_form = |f: &str| if f.starts_with("(and") { "And::evaluate" } else if f.starts_with("(or") { "Or::evaluate" } else if f.starts_with("(not") { "Not::evaluate" } else { "ScriptCond::evaluate" };
    let all_envs: Vec<String> = (0..27).map(|i| format!("(env {} {} {})", outcomes[i % 3], outcomes[i / 3 % 3], outcomes[i / 9])).collect();
    let bool_envs: Vec<String> = (0..8).map(|i| format!("(env {} {} {})", outcomes[i & 1], outcomes[i >> 1 & 1], outcomes[i >> 2])).collect();
    for f in forms(2, 3) { for e in &all_envs { emit(site_form(&f), format!("(form {f} {e})")); } }
    let d3 = forms(3, 2);
    for f in &d3 {
        for e in &bool_envs { emit(site_form(f), format!("(form {f} {e})")); }
        if t { for e in &all_envs { emit(site_form(f), format!("(form {f} {e})")); } }
        else { for _ in 0..3 { let e = r.pick(&all_envs).clone(); emit(site_form(f), format!("(form {f} {e})")); } }
    }
    if t {
        let d33 = forms(3, 3);
        for _ in 0..100_000 { let f = r.pick(&d33).clone(); let e = r.pick(&all_envs).clone(); emit(site_form(&f), format!("(form {f} {e})")); }
    }

    //    ... the public operator forms `!`, `&`, `|` (binary trees), same operands / assignments
    {
        let leaves: Vec<String> = ["a", "b", "c"].iter().map(|x| format!("(l {x})")).collect();
        let mut d2 = leaves.clone();
        for f in &leaves { d2.push(format!("(not1 {f})")); }
        for op in ["and2", "or2"] { for f in &leaves { for g in &leaves { d2.push(format!("({op} {f} {g})")); } } }
        let site_op = |f: &str| if f.starts_with("(and2") { "And::bitand" } else if f.starts_with("(or2") { "Or::bitor" } else { "Not::not" };
        for f in d2.iter().filter(|f| !f.starts_with("(l")) { for e in &all_envs { emit(site_op(f), format!("(form {f} {e})")); } }
        // depth 3: operator applied to depth-2 operands (mixed with the constructor forms)
        let mixed: Vec<String> = d2.iter().cloned().chain(forms(2, 2)).collect();
        for _ in 0..(if t { 40_000 } else { 3_000 }) {
            let f = match r.below(3) {
                0 => format!("(not1 {})", r.pick(&mixed)),
                1 => format!("(and2 {} {})", r.pick(&mixed), r.pick(&mixed)),
                _ => format!("(or2 {} {})", r.pick(&mixed), r.pick(&mixed)),
            };
            let e = if r.chance(2, 3) { r.pick(&bool_envs).clone() } else { r.pick(&all_envs).clone() };
            emit(site_op(&f), format!("(form {f} {e})"));
        }
    }

    out.finish();
}
