//! C11 — selection operators. Runs the real component (`execute` on a `State` holding
//! `Populations` + `Random`) on prepared populations of tagged individuals and prints the outcome,
//! the whole stack afterwards; every witness is reconstructed by the driver from the tags in the
//! output (for SUS the uniform draw is additionally replayed, for the model comparison only).
//!
//! input   `(sel (op NAME params…) (rng seed S | script W) (stack (pop (tag obj)*)*) [(via select)])`   stack top first;
//!         `(via select)`: the operator is built with `from_params` and `Selection::select` is called directly on the
//!         top population (the reported stack is then: clones of the returned references, the slice after the call, the rest)
//!         `(extra (best (tag obj))? (archive (tag obj)*)? (pbest (tag obj)*)? (gbest (tag obj))?)`: the State additionally holds a
//!         `BestIndividual` (filled through `update`), an `ElitistArchive` (filled by the real `ElitistArchiveUpdate` component),
//!         PSO `BestParticles` / `BestParticle` with the given content — individuals that need NOT be members of any population
//!         (sites `<Op>@states`); populations whose members share a tag (= solution) get the sites `<Op>@shared`
//! output  `((res ok|(e exec)|(e ctor)|panic) (stack (pop …)*) (wit none|(draw xHEX)|(sets (i*)*)))`
//! helpers `(pw (objs x*) (off x) (norm t|f))` → `(ws x*)|none|panic`;  `(rrank (objs x*))` → `(ranks n*)`;
//!         `(bounds (objs x*))` → `(b max min)|none`
//! freq    `(freq (op …) (objs x x x) (draws N) (rng seed S))` → `(counts c0 c1 c2)`
use hcommon::problems::TagProblem;
use hcommon::*;
use mahf::components::selection::de::{DEBest, DECurrentToBest, DERand};
use mahf::components::selection::functional as f;
use mahf::components::selection::iwo::DeterministicFitnessProportional;
use mahf::components::selection::{All, CloneSingle, Selection, ExponentialRank, FullyRandom, LinearRank, RandomWithoutRepetition, RouletteWheel, StochasticUniversalSampling, Tournament};
use mahf::components::selection::None as SelectNone;
use mahf::components::archive::{ElitistArchive, ElitistArchiveUpdate};
use mahf::components::swarm::pso::{BestParticle, BestParticles};
use mahf::state::common::{BestIndividual, Populations};
use mahf::{Component, Individual, Random, SingleObjective, State};
use rand::{Rng, RngCore, SeedableRng};

type P = TagProblem;

/// Scripted generator: the first 64-bit word is the "seed" itself, then SplitMix64.
struct ScriptRng { first: Option<u64>, rest: Sm }
impl RngCore for ScriptRng {
    fn next_u32(&mut self) -> u32 { (self.next_u64() >> 32) as u32 }
    fn next_u64(&mut self) -> u64 { self.first.take().unwrap_or_else(|| self.rest.next()) }
    fn fill_bytes(&mut self, dest: &mut [u8]) {
        for c in dest.chunks_mut(8) { let w = self.next_u64().to_le_bytes(); c.copy_from_slice(&w[..c.len()]); }
    }
    fn try_fill_bytes(&mut self, dest: &mut [u8]) -> Result<(), rand::Error> { self.fill_bytes(dest); Ok(()) }
}
impl SeedableRng for ScriptRng {
    type Seed = [u8; 8];
    fn from_seed(seed: [u8; 8]) -> Self { ScriptRng { first: Some(u64::from_le_bytes(seed)), rest: Sm::new(1) } }
    fn seed_from_u64(w: u64) -> Self { ScriptRng { first: Some(w), rest: Sm::new(1) } }
}

fn mk_rng(spec: &[Sx]) -> Random {
    let v = spec[1].nat().unwrap();
    match spec[0].atom().unwrap() {
        "script" => Random::with_rng::<ScriptRng>(v),
        _ => Random::new(v),
    }
}

fn ind_s(i: &Individual<P>) -> String {
    let o = match i.get_objective() { Some(o) => fx(o.value()), None => "u".into() };
    list([i.solution().to_string(), o])
}
fn pop_s(p: &[Individual<P>]) -> String { tagged("pop", p.iter().map(ind_s)) }
fn mk_ind(s: &Sx) -> Individual<P> {
    let v = s.items().unwrap();
    let tag = v[0].nat().unwrap();
    match v[1].float() {
        Some(o) => Individual::new(tag, SingleObjective::try_from(o).unwrap()),
        None => Individual::new_unevaluated(tag),
    }
}
fn mk_pop(s: &Sx) -> Vec<Individual<P>> { s.head().unwrap().1.iter().map(mk_ind).collect() }
fn floats(s: &Sx) -> Vec<f64> { s.head().unwrap().1.iter().map(|x| x.float().unwrap()).collect() }
fn obj_pop(objs: &[f64]) -> Vec<Individual<P>> {
    objs.iter().enumerate().map(|(i, o)| Individual::new(i as u64, SingleObjective::try_from(*o).unwrap())).collect()
}

fn component(op: &[Sx]) -> Option<Box<dyn Component<P>>> {
    let name = op[0].atom().unwrap();
    let n = |k: usize| op[k].nat().unwrap() as u32;
    let x = |k: usize| op[k].float().unwrap();
    Some(match name {
        "all" => All::new(),
        "none" => SelectNone::new(),
        "clone" => CloneSingle::new(n(1)),
        "fullyrandom" => FullyRandom::new(n(1)),
        "rwor" => RandomWithoutRepetition::new(n(1)),
        "roulette" => RouletteWheel::new(n(1), x(2)),
        "sus" => StochasticUniversalSampling::new(n(1), x(2)),
        "tournament" => Tournament::new(n(1), n(2)),
        "linrank" => LinearRank::new(n(1)),
        "exprank" => ExponentialRank::new(n(1), x(2)).ok()?,
        "derand" => DERand::new(n(1)).ok()?,
        "debest" => DEBest::new(n(1)).ok()?,
        "dectb" => DECurrentToBest::new(n(1)).ok()?,
        "iwo" => DeterministicFitnessProportional::new(n(1), n(2)),
        _ => panic!("unknown op {name}"),
    })
}

/// `Selection::select` called directly (public trait method) on the slice, operator built by `from_params`.
/// `None`: the constructor refused the parameters.
fn select_direct(op: &[Sx], pop: &[Individual<P>], rng: &mut Random) -> Option<Result<Vec<Individual<P>>, ()>> {
    fn go<S: Selection<P>>(s: S, pop: &[Individual<P>], rng: &mut Random) -> Option<Result<Vec<Individual<P>>, ()>> {
        Some(s.select(pop, rng).map(|v| v.into_iter().cloned().collect()).map_err(|_| ()))
    }
    let name = op[0].atom().unwrap();
    let n = |k: usize| op[k].nat().unwrap() as u32;
    let x = |k: usize| op[k].float().unwrap();
    match name {
        "all" => go(All::from_params(), pop, rng),
        "none" => go(SelectNone::from_params(), pop, rng),
        "clone" => go(CloneSingle::from_params(n(1)), pop, rng),
        "fullyrandom" => go(FullyRandom::from_params(n(1)), pop, rng),
        "rwor" => go(RandomWithoutRepetition::from_params(n(1)), pop, rng),
        "roulette" => go(RouletteWheel::from_params(n(1), x(2)), pop, rng),
        "sus" => go(StochasticUniversalSampling::from_params(n(1), x(2)), pop, rng),
        "tournament" => go(Tournament::from_params(n(1), n(2)), pop, rng),
        "linrank" => go(LinearRank::from_params(n(1)), pop, rng),
        "exprank" => go(ExponentialRank::from_params(n(1), x(2)).ok()?, pop, rng),
        "derand" => go(DERand::from_params(n(1)).ok()?, pop, rng),
        "debest" => go(DEBest::from_params(n(1)).ok()?, pop, rng),
        "dectb" => go(DECurrentToBest::from_params(n(1)).ok()?, pop, rng),
        "iwo" => go(DeterministicFitnessProportional::from_params(n(1), n(2)), pop, rng),
        _ => panic!("unknown op {name}"),
    }
}

/// The only draw that cannot be read off the output: SUS' uniform start point. It is obtained by
/// replaying `rng.gen::<f64>()` on an identically seeded generator and is used by the driver for the
/// model comparison only (never by the property predicate; a mismatch falls back to a legality check).
/// All other witnesses (chosen members, tournament competitors, DE partners) are reconstructed by the
/// driver from the tags in the output.
fn witness(op: &[Sx], rng_spec: &[Sx], pop: Option<&Vec<Individual<P>>>) -> String {
    let name = op[0].atom().unwrap();
    if pop.is_none() || name != "sus" { return "none".into(); }
    let mut rng = mk_rng(rng_spec);
    tagged("draw", [fx(rng.gen::<f64>())])
}

fn part<'a>(a: &'a [Sx], tag: &str) -> Option<&'a [Sx]> {
    a.iter().skip(3).find_map(|x| match x.head() { Some((t, rest)) if t == tag => Some(rest), _ => Option::None })
}
fn is_via(a: &[Sx]) -> bool { part(a, "via").is_some() }
fn extra_of(a: &[Sx]) -> Option<&[Sx]> { part(a, "extra") }

/// Other best / memory states of the State the selection runs on; their content need not be in any population.
fn insert_extra(extra: &[Sx], problem: &P, state: &mut State<P>) {
    for e in extra {
        let (kind, items) = e.head().unwrap();
        let inds: Vec<Individual<P>> = items.iter().map(mk_ind).collect();
        match kind {
            "best" => {
                let mut b = BestIndividual::<P>::new();
                for i in &inds { b.update(i); }
                state.insert(b);
            }
            "archive" => {
                // the archive's constructor is private: the real update component fills it from a temporary population
                let upd = ElitistArchiveUpdate::new::<P>(inds.len());
                upd.init(problem, state).unwrap();
                state.populations_mut().push(inds);
                upd.execute(problem, state).unwrap();
                state.populations_mut().pop();
                assert!(state.borrow::<ElitistArchive<P>>().elitists().len() == items.len());
            }
            "pbest" => { state.insert(BestParticles::<P>::new(inds)); }
            "gbest" => { state.insert(BestParticle::<P>::new(inds.into_iter().next())); }
            _ => panic!("unknown extra state {kind}"),
        }
    }
}

fn run_sel(a: &[Sx]) -> String {
    let op = a[0].head().unwrap().1;
    let rng_spec = a[1].head().unwrap().1;
    let pops = a[2].head().unwrap().1;
    if is_via(a) && !pops.is_empty() {
        // direct call of the trait method
        let cur = mk_pop(&pops[0]);
        let mut rng = mk_rng(rng_spec);
        let (res, sel) = match catch(|| select_direct(op, &cur, &mut rng)) {
            Some(Some(Ok(sel))) => ("ok".to_string(), Some(sel)),
            Some(Some(Err(()))) => ("(e exec)".to_string(), Option::None),
            Some(Option::None) => ("(e ctor)".to_string(), Option::None),
            Option::None => ("panic".to_string(), Option::None),
        };
        let wit = witness(op, rng_spec, Some(&cur));
        let mut stack: Vec<String> = sel.iter().map(|s| pop_s(s)).collect();
        stack.push(pop_s(&cur));
        stack.extend(pops[1..].iter().map(|p| pop_s(&mk_pop(p))));
        return list([tagged("res", [res]), tagged("stack", stack), tagged("wit", [wit])]);
    }
    let mut state: State<P> = State::new();
    state.insert(Populations::<P>::new());
    state.insert(mk_rng(rng_spec));
    let problem = TagProblem;
    if let Some(extra) = extra_of(a) { insert_extra(extra, &problem, &mut state); }
    for p in pops.iter().rev() { state.populations_mut().push(mk_pop(p)); }
    let top = pops.first().map(mk_pop);
    let res = match catch(|| component(op)) {
        Some(Some(c)) => match catch(|| c.execute(&problem, &mut state)) {
            Some(Ok(())) => "ok".to_string(),
            Some(Err(_)) => "(e exec)".to_string(),
            Option::None => "panic".to_string(),
        },
        Some(Option::None) => "(e ctor)".to_string(),
        Option::None => "panic".to_string(),
    };
    let wit = witness(op, rng_spec, top.as_ref());
    let pops = state.populations();
    let stack = (0..pops.len()).map(|d| pop_s(pops.peek(d)));
    list([tagged("res", [res]), tagged("stack", stack), tagged("wit", [wit])])
}

fn run_case(input: &Sx) -> String {
    let (kind, a) = input.head().unwrap();
    match kind {
        "sel" => run_sel(a),
        "pw" => {
            let objs = floats(&a[0]);
            let off = a[1].head().unwrap().1[0].float().unwrap();
            let norm = a[2].head().unwrap().1[0].atom() == Some("t");
            let pop = obj_pop(&objs);
            match catch(|| f::proportional_weights(&pop, off, norm)) {
                Some(Some(ws)) => tagged("ws", ws.into_iter().map(fx)),
                Some(Option::None) => "none".into(),
                Option::None => "panic".into(),
            }
        }
        "rrank" => {
            let pop = obj_pop(&floats(&a[0]));
            match catch(|| f::reverse_rank(&pop)) {
                Some(r) => tagged("ranks", r.into_iter().map(|x| x.to_string())),
                Option::None => "panic".into(),
            }
        }
        "bounds" => {
            let pop = obj_pop(&floats(&a[0]));
            match catch(|| f::objective_bounds(&pop)) {
                Some(Some((mx, mn))) => tagged("b", [fx(mx), fx(mn)]),
                Some(Option::None) => "none".into(),
                Option::None => "panic".into(),
            }
        }
        "freq" => {
            let op = a[0].head().unwrap().1;
            let objs = floats(&a[1]);
            let draws = a[2].head().unwrap().1[0].nat().unwrap();
            let seed = a[3].head().unwrap().1[1].nat().unwrap();
            let mut counts = vec![0u64; objs.len()];
            let per = op[1].nat().unwrap().max(1);
            let problem = TagProblem;
            let mut k = 0;
            let mut done = 0;
            while done < draws && k < 1_000_000 {
                let mut state: State<P> = State::new();
                state.insert(Populations::<P>::new());
                state.insert(Random::new(seed.wrapping_mul(1_000_003).wrapping_add(k)));
                state.populations_mut().push(obj_pop(&objs));
                k += 1;
                let ok = catch(|| component(op).map(|c| c.execute(&problem, &mut state).is_ok())).flatten().unwrap_or(false);
                if !ok { break; }
                for i in state.populations().current() { counts[*i.solution() as usize] += 1; }
                done += per;
            }
            tagged("counts", counts.into_iter().map(|c| c.to_string()))
        }
        _ => panic!("unknown case kind {kind}"),
    }
}

fn site_of(input: &Sx) -> String {
    let (kind, a) = input.head().unwrap();
    match kind {
        "pw" => "proportional_weights".into(),
        "rrank" => "reverse_rank".into(),
        "bounds" => "objective_bounds".into(),
        "freq" => format!("{}/freq", op_site(a[0].head().unwrap().1[0].atom().unwrap())),
        _ => {
            let op = a[0].head().unwrap().1;
            let name = op_site(op[0].atom().unwrap());
            let pops = a[2].head().unwrap().1;
            let via = if is_via(a) && !pops.is_empty() { "::select" } else { "" };
            // members that share a tag (= solution) / a State that holds other best or memory states
            let shared = pops.first().map_or(false, |p| {
                let tags: Vec<u64> = p.head().unwrap().1.iter().map(|i| i.items().unwrap()[0].nat().unwrap()).collect();
                (0..tags.len()).any(|i| tags[..i].contains(&tags[i]))
            });
            let mark = match (shared, extra_of(a).is_some()) { (true, true) => "@shared-states", (true, false) => "@shared", (false, true) => "@states", _ => "" };
            if sel_malformed(op, pops) { format!("{name}{via}{mark}/malformed") }
            else if sel_extreme(op, pops) { format!("{name}{via}{mark}/extreme") }
            else { format!("{name}{via}{mark}") }
        }
    }
}
fn op_site(op: &str) -> &'static str {
    match op {
        "all" => "All", "none" => "None", "clone" => "CloneSingle", "fullyrandom" => "FullyRandom",
        "rwor" => "RandomWithoutRepetition", "roulette" => "RouletteWheel", "sus" => "StochasticUniversalSampling",
        "tournament" => "Tournament", "linrank" => "LinearRank", "exprank" => "ExponentialRank",
        "derand" => "DERand", "debest" => "DEBest", "dectb" => "DECurrentToBest",
        _ => "DeterministicFitnessProportional",
    }
}
/// Operators whose `select` reads objective values.
fn uses_fitness(op: &str) -> bool {
    matches!(op, "roulette" | "sus" | "tournament" | "linrank" | "exprank" | "debest" | "dectb" | "iwo")
}
/// Outside the property's quantifier: no population, an unevaluated individual in the current
/// population of an operator that selects by fitness, a parameter outside its documented domain
/// (negative/NaN offset, base ∉ [ε,1), y ∉ {1,2}).
fn sel_malformed(op: &[Sx], pops: &[Sx]) -> bool {
    if pops.is_empty() { return true; }
    if uses_fitness(op[0].atom().unwrap())
        && pops[0].head().unwrap().1.iter().any(|i| i.items().unwrap()[1].atom() == Some("u")) { return true; }
    match op[0].atom().unwrap() {
        "roulette" | "sus" => { let o = op[2].float().unwrap(); !(o >= 0.0) || !o.is_finite() }
        "exprank" => { let b = op[2].float().unwrap(); !(f64::EPSILON..1.0).contains(&b) }
        "derand" | "debest" | "dectb" => { let y = op[1].nat().unwrap(); y != 1 && y != 2 }
        _ => false,
    }
}

/// The weight arithmetic of RouletteWheel / SUS / IWO can overflow to inf / NaN or underflow to 0: all objectives
/// finite and `len * ((max - min) + offset)` not below 1e300 (no formulation of the weights, their total or the
/// selection points exceeds that bound), or a spread `max - min` / an offset that is positive but below 1e-290
/// (objectives that differ by a subnormal amount: the distance between two SUS points underflows to 0), or an
/// offset beyond 1e150.  Outside the exact-arithmetic theorems ("up to rounding"); only the model's prediction
/// is compared there.  Every other operator only COMPARES objective values: the whole range
/// -f64::MAX ..= f64::MAX and +inf is inside the property for them, and so is a population with a +inf member
/// for the three weight based operators (the documented `Err`).
fn sel_extreme(op: &[Sx], pops: &[Sx]) -> bool {
    let off = match op[0].atom().unwrap() {
        "roulette" | "sus" => op[2].float().unwrap(),
        "iwo" => 0.0,
        _ => return false,
    };
    let inds = pops[0].head().unwrap().1;
    if inds.iter().any(|i| i.items().unwrap()[1].atom() == Some("u")) { return false; }
    if off.is_finite() && off.abs() > 1e150 { return true; }
    let objs: Vec<f64> = inds.iter().map(|i| i.items().unwrap()[1].float().unwrap()).collect();
    if objs.is_empty() || objs.iter().any(|o| !o.is_finite()) { return false; }
    let mx = objs.iter().cloned().fold(f64::NEG_INFINITY, f64::max);
    let mn = objs.iter().cloned().fold(f64::INFINITY, f64::min);
    let tiny = |v: f64| 0.0 < v && v < 1e-290;
    tiny(off) || tiny(mx - mn) || !((objs.len() as f64) * ((mx - mn) + off.abs()) <= 1e300)
}

fn pop_str(base: u64, objs: &[Option<f64>]) -> String {
    tagged("pop", objs.iter().enumerate().map(|(i, o)| list([(base + 1 + i as u64).to_string(), o.map(fx).unwrap_or("u".into())])))
}

fn main() {
    quiet_panics();
    let a = args();
    let mut out = Out::new();
    if let Some(r) = a.replay {
        let sx = Sx::parse(&r).expect("bad replay input");
        out.case(&site_of(&sx), &r, &run_case(&sx));
        out.finish();
        return;
    }
    let mut emit = |input: String| {
        let sx = Sx::parse(&input).unwrap();
        out.case(&site_of(&sx), &input, &run_case(&sx));
    };
    let mut rng = Sm::new(a.seed);
    let below = pop_str(900, &[Some(7.0), Some(-3.0)]);
    let grid = [-7.25, -1.5, -1.5, 0.0, -0.0, 1.0, 2.0, 2.0, 3.5, 1e6, f64::INFINITY];
    let fin_grid = [-7.25, -1.5, -1.5, 0.0, -0.0, 1.0, 2.0, 2.0, 3.5, 1e6];
    let offsets = [0.0, 0.1, 1.0, 2.5];
    let bases = [0.1, 0.5, 0.9, f64::EPSILON];
    let seeds_per = if a.thorough { 40 } else { 20 };
    let pops_per_size = if a.thorough { 12 } else { 5 };

    // 1. every operator on populations of size 0..8, counts 0..size+1, several seeds
    for size in 0..=8usize {
        for v in 0..pops_per_size {
            // variants: all-equal, positive only, finite mixed, grid with +inf
            let objs: Vec<Option<f64>> = (0..size).map(|i| Some(match v {
                0 => 2.0,
                1 => [1.0, 2.0, 3.5, 2.0, 1e6][rng.below(5) as usize],
                2 => -1.0 - (i as f64),
                3 => *rng.pick(&grid),
                _ => *rng.pick(&fin_grid),
            })).collect();
            let mut stack = vec![pop_str(0, &objs)];
            if (size + v) % 2 == 1 { stack.push(below.clone()); }
            let st = tagged("stack", stack.iter().cloned());
            let mut sel = |op: String, rng: &mut Sm| {
                emit(tagged("sel", [op, format!("(rng seed {})", rng.below(1 << 32)), st.clone()]));
            };
            sel("(op all)".into(), &mut rng);
            sel("(op none)".into(), &mut rng);
            for n in 0..=(size as u64 + 1) {
                sel(format!("(op clone {n})"), &mut rng);
                for _ in 0..seeds_per {
                    sel(format!("(op fullyrandom {n})"), &mut rng);
                    sel(format!("(op rwor {n})"), &mut rng);
                    sel(format!("(op roulette {n} {})", fx(*rng.pick(&offsets))), &mut rng);
                    sel(format!("(op sus {n} {})", fx(*rng.pick(&offsets))), &mut rng);
                    sel(format!("(op linrank {n})"), &mut rng);
                    sel(format!("(op exprank {n} {})", fx(*rng.pick(&bases))), &mut rng);
                    let k = rng.below(size as u64 + 2);
                    sel(format!("(op tournament {n} {k})"), &mut rng);
                }
                // tournament over the whole population
                sel(format!("(op tournament {n} {size})"), &mut rng);
            }
            for y in 1..=2u64 {
                for _ in 0..seeds_per {
                    sel(format!("(op derand {y})"), &mut rng);
                    sel(format!("(op debest {y})"), &mut rng);
                    sel(format!("(op dectb {y})"), &mut rng);
                }
            }
            for (lo, hi) in [(0u64, 0u64), (0, 5), (1, 1), (2, 7), (3, 4), (4, 2)] {
                sel(format!("(op iwo {lo} {hi})"), &mut rng);
            }
        }
    }
    // 2. DECurrentToBest with duplicated individuals (same solution and objective): the filter
    //    `i != individual` removes every copy.
    for _ in 0..(if a.thorough { 400 } else { 60 }) {
        let size = 1 + rng.below(8) as usize;
        let inds: Vec<String> = (0..size).map(|_| { let t = 1 + rng.below(3); list([t.to_string(), fx(t as f64)]) }).collect();
        let st = tagged("stack", [tagged("pop", inds)]);
        emit(tagged("sel", [format!("(op dectb {})", 1 + rng.below(2)), format!("(rng seed {})", rng.below(1 << 32)), st]));
    }
    // 3. stochastic universal sampling with scripted draws at the edges of [0,1)
    let edge_words: Vec<u64> = vec![0, 1 << 11, 2 << 11, 3 << 11, u64::MAX, u64::MAX - (1 << 11), u64::MAX - (2 << 11), 1 << 63, (1 << 63) - (1 << 11)];
    let n_sus = if a.thorough { 4000 } else { 400 };
    for i in 0..n_sus {
        let size = 1 + rng.below(8) as usize;
        let objs: Vec<Option<f64>> = (0..size).map(|_| Some(if i % 3 == 0 { 1.0 + rng.below(7) as f64 } else { rng.unit() * 10.0 - if i % 3 == 1 { 5.0 } else { 0.0 } })).collect();
        let st = tagged("stack", [pop_str(0, &objs)]);
        let n = 1 + rng.below(if i % 5 == 0 { 200 } else { 12 });
        let off = if rng.chance(1, 3) { 0.0 } else { rng.unit() };
        let w = if rng.chance(2, 3) { *rng.pick(&edge_words) } else { rng.below(64) << 11 };
        emit(tagged("sel", [format!("(op sus {n} {})", fx(off)), format!("(rng script {w})"), st]));
    }
    // 4. weight helpers, compared directly
    let n_help = if a.thorough { 6000 } else { 800 };
    for i in 0..n_help {
        let size = rng.below(9) as usize;
        let objs: Vec<String> = (0..size).map(|_| fx(match i % 4 {
            0 => *rng.pick(&grid),
            1 => *rng.pick(&fin_grid),
            2 => 1.0 + rng.below(4) as f64,
            _ => (rng.unit() - 0.5) * 20.0,
        })).collect();
        let o = tagged("objs", objs);
        emit(tagged("pw", [o.clone(), format!("(off {})", fx(if i % 37 == 36 { -0.5 } else { *rng.pick(&offsets) })), format!("(norm {})", b(rng.chance(1, 2)))]));
        emit(tagged("rrank", [o.clone()]));
        emit(tagged("bounds", [o]));
    }
    // 5. selection pressure: 3 members with distinct objectives, >= 6000 draws per operator
    let n_freq = if a.thorough { 12 } else { 3 };
    for _ in 0..n_freq {
        let mut objs = vec![];
        while objs.len() < 3 {
            let v = if rng.chance(1, 2) { (rng.unit() - 0.5) * 10.0 } else { 1.0 + rng.below(9) as f64 };
            if !objs.contains(&v) { objs.push(v); }
        }
        let o = tagged("objs", objs.iter().map(|v| fx(*v)));
        for op in ["(op roulette 100 x3fb999999999999a)".to_string(), "(op sus 100 x3fb999999999999a)".into(), "(op tournament 100 2)".into(),
                   "(op linrank 100)".into(), format!("(op exprank 100 {})", fx(0.5))] {
            emit(tagged("freq", [op, o.clone(), "(draws 6000)".into(), format!("(rng seed {})", rng.below(1 << 32))]));
        }
    }
    // 5b. extreme finite values (overflow in the weight arithmetic); only compared with the model
    let huge = [1e308, -1e308, 5e307, 1.0, 0.0, -1.0, 1.7e308];
    for _ in 0..(if a.thorough { 3000 } else { 400 }) {
        let size = 1 + rng.below(6) as usize;
        let objs: Vec<Option<f64>> = (0..size).map(|_| Some(*rng.pick(&huge))).collect();
        let st = tagged("stack", [pop_str(0, &objs)]);
        let n = rng.below(5);
        let off = *rng.pick(&[0.0, 1.0, 1e308]);
        let op = match rng.below(7) {
            0 => format!("(op roulette {n} {})", fx(off)),
            1 => format!("(op sus {n} {})", fx(off)),
            2 => format!("(op linrank {n})"),
            3 => format!("(op exprank {n} {})", fx(0.5)),
            4 => format!("(op tournament {n} {})", 1 + rng.below(size as u64)),
            5 => format!("(op iwo 1 4)"),
            _ => format!("(op debest 1)"),
        };
        emit(tagged("sel", [op, format!("(rng seed {})", rng.below(1 << 32)), st]));
    }
    // 7. operators that do not read objective values, on unevaluated / partly evaluated populations
    //    (inside the property: selection before evaluation), on top of 0..3 other populations
    for _ in 0..(if a.thorough { 4000 } else { 700 }) {
        let size = rng.below(7) as usize;
        let mode = rng.below(3);
        let objs: Vec<Option<f64>> = (0..size).map(|_| match mode {
            0 => Option::None,
            1 => if rng.chance(1, 2) { Option::None } else { Some(*rng.pick(&grid)) },
            _ => Some(*rng.pick(&grid)),
        }).collect();
        let mut stack = vec![pop_str(0, &objs)];
        for d in 0..rng.below(4) {
            let k = rng.below(4) as usize;
            let o: Vec<Option<f64>> = (0..k).map(|_| if rng.chance(1, 3) { Option::None } else { Some(*rng.pick(&grid)) }).collect();
            stack.push(pop_str(100 * (d + 1), &o));
        }
        let n = rng.below(size as u64 + 2);
        let op = match rng.below(6) {
            0 => "(op all)".to_string(),
            1 => "(op none)".to_string(),
            2 => format!("(op clone {n})"),
            3 => format!("(op fullyrandom {})", if rng.chance(1, 4) { 20 + rng.below(40) } else { n }),
            4 => format!("(op rwor {n})"),
            _ => format!("(op derand {})", 1 + rng.below(2)),
        };
        emit(tagged("sel", [op, format!("(rng seed {})", rng.below(1 << 32)), tagged("stack", stack)]));
    }
    // 8. larger populations (12..40 members, ties), counts around the population size and well above it,
    //    stacks of height 1..4
    for i in 0..(if a.thorough { 2500 } else { 420 }) {
        let size = 12 + rng.below(29) as usize;
        let objs: Vec<Option<f64>> = (0..size).map(|_| Some(match i % 3 {
            0 => 1.0 + rng.below(6) as f64,
            1 => (rng.below(9) as f64) - 4.0,
            _ => (rng.unit() - 0.5) * 100.0,
        })).collect();
        let mut stack = vec![pop_str(0, &objs)];
        for d in 0..rng.below(4) {
            let k = rng.below(3) as usize;
            let o: Vec<Option<f64>> = (0..k).map(|_| Some(*rng.pick(&fin_grid))).collect();
            stack.push(pop_str(100 * (d + 1), &o));
        }
        let sz = size as u64;
        let n = *rng.pick(&[0, 1, sz - 1, sz, sz + 1, 3 * sz]);
        let op = match i % 14 {
            0 => "(op all)".to_string(),
            1 => format!("(op fullyrandom {n})"),
            2 => format!("(op rwor {})", *rng.pick(&[0, 1, sz / 2, sz - 1, sz, sz + 1])),
            3 => format!("(op roulette {n} {})", fx(*rng.pick(&offsets))),
            4 => format!("(op sus {} {})", n.max(1), fx(*rng.pick(&offsets))),
            5 => format!("(op linrank {n})"),
            6 => format!("(op exprank {n} {})", fx(*rng.pick(&bases))),
            7 => format!("(op tournament {} {})", 1 + rng.below(6), *rng.pick(&[1, 2, sz / 2, sz - 1, sz, sz + 1])),
            8 => format!("(op tournament {} {sz})", 1 + rng.below(6)),
            9 => format!("(op derand {})", 1 + rng.below(2)),
            10 => format!("(op debest {})", 1 + rng.below(2)),
            11 => format!("(op dectb {})", 1 + rng.below(2)),
            12 => format!("(op iwo {} {})", rng.below(3), 2 + rng.below(6)),
            _ => format!("(op clone {n})"),
        };
        emit(tagged("sel", [op, format!("(rng seed {})", rng.below(1 << 32)), tagged("stack", stack)]));
    }
    // 9. populations at the extremes of the objective range, every operator, through `execute` and through a
    //    direct `Selection::select`: all members +inf, all members equal (0, -0, +-1, +-f64::MAX, subnormal),
    //    a single finite value among +inf, a single +inf among finite values, +-f64::MAX, signed zeros,
    //    f64::MAX next to +inf, adjacent floats (near ties)
    const N_PAT: usize = 12;
    let mx = f64::MAX;
    let equal_consts = [0.0, -0.0, 1.0, -1.0, mx, -mx, f64::MIN_POSITIVE, 5e-324, -5e-324, 1e6];
    let pattern = |k: usize, size: usize, rng: &mut Sm| -> Vec<Option<f64>> {
        let inf = f64::INFINITY;
        // the adjacent float towards zero (away from zero for a zero)
        let prev = |v: f64| f64::from_bits(if v == 0.0 { v.to_bits() + 1 } else { v.to_bits() - 1 });
        let mix = |vals: &[f64], rng: &mut Sm| -> Vec<Option<f64>> { (0..size).map(|_| Some(*rng.pick(vals))).collect() };
        match k {
            0 => vec![Some(inf); size],
            1 => vec![Some(*rng.pick(&equal_consts)); size],
            2 => { let mut v = vec![Some(inf); size]; if size > 0 { v[rng.below(size as u64) as usize] = Some(*rng.pick(&equal_consts)); } v }
            3 => { let mut v = mix(&fin_grid, rng); if size > 0 { v[rng.below(size as u64) as usize] = Some(inf); } v }
            4 => mix(&[mx, -mx], rng),
            5 => mix(&[0.0, -0.0], rng),
            6 => mix(&[mx, inf], rng),
            7 => mix(&[-mx, -0.0, 0.0, mx, inf, 1.0, -1.0], rng),
            8 => { let c = *rng.pick(&[1.0, mx, -mx, 1e6, -1.0]); mix(&[c, prev(c)], rng) }
            9 => mix(&[5e-324, -5e-324, 0.0, -0.0, f64::MIN_POSITIVE], rng),
            10 => mix(&[-mx, inf], rng),
            _ => { let c = *rng.pick(&equal_consts); let mut v = vec![Some(c); size]; if size > 0 { v[rng.below(size as u64) as usize] = Some(prev(c)); } v }
        }
    };
    let op_for = |o: usize, size: usize, rng: &mut Sm| -> String {
        let sz = size as u64;
        let n = *rng.pick(&[0, 1, 2, sz, sz + 1, 2 * sz + 3]);
        match o {
            0 => "(op all)".to_string(),
            1 => "(op none)".to_string(),
            2 => format!("(op clone {n})"),
            3 => format!("(op fullyrandom {n})"),
            4 => format!("(op rwor {})", rng.below(sz + 2)),
            5 => format!("(op roulette {n} {})", fx(*rng.pick(&offsets))),
            6 => format!("(op sus {} {})", n.max(1), fx(*rng.pick(&offsets))),
            7 => format!("(op tournament {} {})", n, *rng.pick(&[1, 2, sz.max(1) - 1, sz, sz + 1])),
            8 => format!("(op linrank {n})"),
            9 => format!("(op exprank {n} {})", fx(*rng.pick(&bases))),
            10 => format!("(op derand {})", 1 + rng.below(2)),
            11 => format!("(op debest {})", 1 + rng.below(2)),
            12 => format!("(op dectb {})", 1 + rng.below(2)),
            _ => { let lo = rng.below(4); format!("(op iwo {lo} {})", lo + rng.below(5)) }
        }
    };
    let mut range_case = |o: usize, k: usize, size: usize, direct: bool, rng: &mut Sm| {
        let objs = pattern(k, size, rng);
        let mut stack = vec![pop_str(0, &objs)];
        if rng.chance(1, 3) { stack.push(below.clone()); }
        let mut parts = vec![op_for(o, size, rng), format!("(rng seed {})", rng.below(1 << 32)), tagged("stack", stack)];
        if direct { parts.push("(via select)".to_string()); }
        emit(tagged("sel", parts));
    };
    // systematic part: every operator x every pattern x sizes {small, at the DE thresholds, medium}
    for o in 0..14 {
        for k in 0..N_PAT {
            for size in [1 + rng.below(2) as usize, 3 + rng.below(3) as usize, 6 + rng.below(4) as usize] {
                range_case(o, k, size, false, &mut rng);
                range_case(o, k, size, true, &mut rng);
            }
        }
    }
    for _ in 0..(if a.thorough { 12000 } else { 1500 }) {
        let size = if rng.chance(1, 8) { 12 + rng.below(20) as usize } else { rng.below(9) as usize };
        let (o, k, direct) = (rng.below(14) as usize, rng.below(N_PAT as u64) as usize, rng.chance(1, 3));
        range_case(o, k, size, direct, &mut rng);
    }
    // 9b. the ordinary grids through the direct `Selection::select` entry point
    for _ in 0..(if a.thorough { 4000 } else { 600 }) {
        let size = rng.below(9) as usize;
        let objs: Vec<Option<f64>> = (0..size).map(|_| Some(*rng.pick(&grid))).collect();
        let o = rng.below(14) as usize;
        let parts = vec![op_for(o, size, &mut rng), format!("(rng seed {})", rng.below(1 << 32)), tagged("stack", [pop_str(0, &objs)]), "(via select)".to_string()];
        emit(tagged("sel", parts));
    }
    // 10. individuals are (solution, objective) PAIRS: populations whose members share a solution (tag) but differ in the
    //     objective value (repeated evaluations of a noisy / dynamic objective), members that share the objective but not the
    //     solution, fully identical duplicates, and mixtures — every operator, through `execute` and `Selection::select`
    let shared_pop = |size: usize, mode: u64, rng: &mut Sm| -> String {
        let vals = [1.0, 2.0, 2.0, 3.5, -1.5, 0.0, -0.0, 7.0, f64::INFINITY];
        let fin_vals = [1.0, 2.0, 2.5, 3.5, -1.5, 0.0, 7.0, 4.0];
        let ntags = match mode { 0 => 1, 1 => 2, 2 => 1 + rng.below(3), _ => 1 + rng.below(size as u64 + 1) };
        let mut inds: Vec<String> = Vec::new();
        for i in 0..size {
            let t = 1 + rng.below(ntags);
            let o = match mode {
                // one solution, pairwise different objectives
                0 => (i as f64) * 0.5 - 1.0,
                // two solutions, objectives from a small set without +inf
                1 => *rng.pick(&fin_vals),
                // same objective everywhere, solutions differ or not
                2 => 2.0,
                3 => *rng.pick(&vals),
                // every solution evaluated twice: (t, o), (t, o + noise)
                _ => (t as f64) + if i % 2 == 0 { 0.0 } else { 0.25 * (1 + rng.below(3)) as f64 },
            };
            inds.push(list([t.to_string(), fx(o)]));
        }
        tagged("pop", inds)
    };
    let n_shared = if a.thorough { 14000 } else { 2400 };
    for i in 0..n_shared {
        let size = if rng.chance(1, 10) { 9 + rng.below(8) as usize } else { 1 + rng.below(8) as usize };
        let mode = (i % 5) as u64;
        let mut stack = vec![shared_pop(size, mode, &mut rng)];
        if rng.chance(1, 4) { stack.push(below.clone()); }
        // the DE selections (the only operators that compare individuals) get every third case
        let o = if i % 3 == 0 { 10 + (i / 3) % 3 } else { rng.below(14) as usize };
        let mut parts = vec![op_for(o, size, &mut rng), format!("(rng seed {})", rng.below(1 << 32)), tagged("stack", stack)];
        if rng.chance(1, 3) { parts.push("(via select)".to_string()); }
        emit(tagged("sel", parts));
    }
    // 11. the State holds OTHER best / memory states (BestIndividual, ElitistArchive, PSO BestParticles / BestParticle) whose
    //     content is not in the current population (better, worse, equal objective; a former member; a member of the population
    //     below): the selection depends on the source population only.  Every such case is also run through the direct
    //     `Selection::select` entry point on the same population and seed.
    let n_states = if a.thorough { 9000 } else { 1500 };
    for i in 0..n_states {
        let size = if rng.chance(1, 10) { 9 + rng.below(8) as usize } else { rng.below(8) as usize };
        let objs: Vec<Option<f64>> = (0..size).map(|_| Some(match i % 3 { 0 => *rng.pick(&fin_grid), 1 => 1.0 + rng.below(5) as f64, _ => *rng.pick(&grid) })).collect();
        let top = if i % 7 == 6 { shared_pop(size.max(1), 3, &mut rng) } else { pop_str(0, &objs) };
        let mut stack = vec![top];
        if rng.chance(1, 3) { stack.push(below.clone()); }
        // a foreign individual: unknown tag (or the tag of a member with another objective), objective better than / worse than /
        // equal to the members', or a copy of a member of the population below
        let foreign = |rng: &mut Sm| -> String {
            let o = *rng.pick(&[-100.0, -7.25, -1.5, 0.0, 1.0, 2.0, 3.5, 1e6, 1e9, f64::INFINITY]);
            match rng.below(4) {
                0 => list([(1 + rng.below(size as u64 + 1)).to_string(), fx(o)]),
                1 => list(["901".to_string(), fx(7.0)]),
                _ => list([(500 + rng.below(9)).to_string(), fx(o)]),
            }
        };
        let mut extra: Vec<String> = Vec::new();
        let which = rng.below(8);
        if which == 0 || which >= 4 || rng.chance(1, 3) { extra.push(tagged("best", [foreign(&mut rng)])); }
        if which == 1 || which >= 5 || rng.chance(1, 4) { let k = rng.below(4); extra.push(tagged("archive", (0..k).map(|_| foreign(&mut rng)).collect::<Vec<_>>())); }
        if which == 2 || which >= 6 || rng.chance(1, 4) { let k = rng.below(size as u64 + 2); extra.push(tagged("pbest", (0..k).map(|_| foreign(&mut rng)).collect::<Vec<_>>())); }
        if which == 3 || which >= 6 || rng.chance(1, 4) { extra.push(tagged("gbest", [foreign(&mut rng)])); }
        if extra.is_empty() { extra.push(tagged("best", [foreign(&mut rng)])); }
        // the operators that use the best member / fitness get two thirds of the cases
        let o = match i % 6 { 0 | 1 => 11, 2 => 12, 3 => *rng.pick(&[5, 6, 7, 8, 9, 13]), _ => rng.below(14) as usize };
        let op = op_for(o, size, &mut rng);
        let seed = format!("(rng seed {})", rng.below(1 << 32));
        let st = tagged("stack", stack);
        emit(tagged("sel", [op.clone(), seed.clone(), st.clone(), tagged("extra", extra)]));
        if i % 2 == 0 { emit(tagged("sel", [op, seed, st, "(via select)".to_string()])); }
    }
    // 6. malformed stream (outside the quantifier): unevaluated members, empty stack, negative / NaN
    //    offset, base outside (0,1), y outside {1,2}
    let n_mal = if a.thorough { 3000 } else { 400 };
    let ops = ["all", "none", "clone", "fullyrandom", "rwor", "roulette", "sus", "tournament", "linrank", "exprank", "derand", "debest", "dectb", "iwo"];
    for _ in 0..n_mal {
        let size = rng.below(5) as usize;
        let uneval = rng.chance(1, 2);
        let objs: Vec<Option<f64>> = (0..size).map(|_| if uneval && rng.chance(1, 3) { Option::None } else { Some(*rng.pick(&fin_grid)) }).collect();
        let st = if rng.chance(1, 8) { "(stack)".to_string() } else { tagged("stack", [pop_str(0, &objs)]) };
        let op = *rng.pick(&ops);
        let n = rng.below(size as u64 + 2);
        let bad_off = *rng.pick(&[-0.5, -1e-300, f64::NAN, 0.5]);
        let bad_base = *rng.pick(&[0.0, 1.0, 1.5, -0.5, 0.5, 1e-17]);
        let ops_s = match op {
            "all" | "none" => format!("(op {op})"),
            "clone" | "fullyrandom" | "rwor" | "linrank" => format!("(op {op} {n})"),
            "roulette" | "sus" => format!("(op {op} {n} {})", fx(bad_off)),
            "tournament" => format!("(op tournament {n} {})", rng.below(size as u64 + 2)),
            "exprank" => format!("(op exprank {n} {})", fx(bad_base)),
            "iwo" => format!("(op iwo {} {})", rng.below(4), rng.below(4)),
            _ => format!("(op {op} {})", rng.below(5)),
        };
        emit(tagged("sel", [ops_s, format!("(rng seed {})", rng.below(1 << 32)), st]));
    }
    out.finish();
}
