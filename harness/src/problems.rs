//! Test problems used by the harness binaries. Every objective function counts its invocations
//! and (optionally) logs the value it returned, so checks never have to trust cached values.
use std::ops::Range;
use std::sync::atomic::{AtomicU64, Ordering};
use std::sync::{Arc, Mutex};

use mahf::problems::{
    KnownOptimumProblem, LimitedVectorProblem, ObjectiveFunction, TravellingSalespersonProblem,
    VectorProblem,
};
use mahf::{Problem, SingleObjective};

/// Invocation counter + log of returned values (bit patterns), shared with the harness.
#[derive(Clone, Default)]
pub struct Probe {
    pub calls: Arc<AtomicU64>,
    pub log: Arc<Mutex<Vec<f64>>>,
    pub keep_log: bool,
}
impl Probe {
    pub fn new(keep_log: bool) -> Self {
        Probe { calls: Default::default(), log: Default::default(), keep_log }
    }
    pub fn record(&self, v: f64) {
        self.calls.fetch_add(1, Ordering::SeqCst);
        if self.keep_log {
            self.log.lock().unwrap().push(v);
        }
    }
    pub fn count(&self) -> u64 {
        self.calls.load(Ordering::SeqCst)
    }
    pub fn min(&self) -> Option<f64> {
        self.log.lock().unwrap().iter().cloned().fold(None, |m, v| match m {
            None => Some(v),
            Some(m) => Some(if v < m { v } else { m }),
        })
    }
}

/// A problem whose solutions are opaque tags; objective = tag as f64.
pub struct TagProblem;
impl Problem for TagProblem {
    type Encoding = u64;
    type Objective = SingleObjective;
    fn name(&self) -> &str { "tag" }
}
impl ObjectiveFunction for TagProblem {
    fn objective(&self, s: &u64) -> SingleObjective {
        SingleObjective::try_from(*s as f64).unwrap()
    }
}

/// Shifted sphere `Σ (x_i − shift)²` on `[lo, hi)^dim`. With `shift` outside the domain the
/// optimum is infeasible (used by C07).
#[derive(Clone)]
pub struct Sphere {
    pub dim: usize,
    pub lo: f64,
    pub hi: f64,
    pub shift: f64,
    pub probe: Probe,
}
impl Sphere {
    pub fn new(dim: usize, lo: f64, hi: f64, shift: f64) -> Self {
        Sphere { dim, lo, hi, shift, probe: Probe::new(true) }
    }
    pub fn f(&self, x: &[f64]) -> f64 {
        x.iter().map(|v| (v - self.shift) * (v - self.shift)).sum()
    }
}
impl Problem for Sphere {
    type Encoding = Vec<f64>;
    type Objective = SingleObjective;
    fn name(&self) -> &str { "sphere" }
}
impl VectorProblem for Sphere {
    type Element = f64;
    fn dimension(&self) -> usize { self.dim }
}
impl LimitedVectorProblem for Sphere {
    fn domain(&self) -> Vec<Range<f64>> { vec![self.lo..self.hi; self.dim] }
}
impl ObjectiveFunction for Sphere {
    fn objective(&self, s: &Vec<f64>) -> SingleObjective {
        let v = self.f(s);
        self.probe.record(v);
        SingleObjective::try_from(v).unwrap_or(SingleObjective::try_from(f64::INFINITY).unwrap())
    }
}
impl KnownOptimumProblem for Sphere {
    fn known_optimum(&self) -> SingleObjective { SingleObjective::try_from(0.0).unwrap() }
}

/// OneMax as a minimisation problem: number of `false` bits.
#[derive(Clone)]
pub struct OneMax {
    pub dim: usize,
    pub probe: Probe,
}
impl OneMax {
    pub fn new(dim: usize) -> Self { OneMax { dim, probe: Probe::new(true) } }
    pub fn f(&self, x: &[bool]) -> f64 { x.iter().filter(|b| !**b).count() as f64 }
}
impl Problem for OneMax {
    type Encoding = Vec<bool>;
    type Objective = SingleObjective;
    fn name(&self) -> &str { "onemax" }
}
impl VectorProblem for OneMax {
    type Element = bool;
    fn dimension(&self) -> usize { self.dim }
}
impl ObjectiveFunction for OneMax {
    fn objective(&self, s: &Vec<bool>) -> SingleObjective {
        let v = self.f(s);
        self.probe.record(v);
        SingleObjective::try_from(v).unwrap()
    }
}
impl KnownOptimumProblem for OneMax {
    fn known_optimum(&self) -> SingleObjective { SingleObjective::try_from(0.0).unwrap() }
}

/// Symmetric TSP given by a full distance matrix; also a plain permutation problem.
#[derive(Clone)]
pub struct Tsp {
    pub dist: Vec<Vec<f64>>,
    pub probe: Probe,
}
impl Tsp {
    pub fn new(dist: Vec<Vec<f64>>) -> Self { Tsp { dist, probe: Probe::new(true) } }
    /// Cities on a line / random symmetric matrix, deterministic in `seed`.
    pub fn random(n: usize, seed: u64, spread: f64) -> Self {
        let mut r = crate::Sm::new(seed ^ 0x7573_7021);
        let mut d = vec![vec![0.0; n]; n];
        for i in 0..n {
            for j in i + 1..n {
                let v = 1.0 + r.unit() * spread;
                d[i][j] = v;
                d[j][i] = v;
            }
        }
        Tsp::new(d)
    }
    pub fn f(&self, tour: &[usize]) -> f64 {
        let n = tour.len();
        if n == 0 { return 0.0; }
        let mut s = 0.0;
        for i in 0..n {
            s += self.dist[tour[i]][tour[(i + 1) % n]];
        }
        s
    }
}
impl Problem for Tsp {
    type Encoding = Vec<usize>;
    type Objective = SingleObjective;
    fn name(&self) -> &str { "tsp" }
}
impl VectorProblem for Tsp {
    type Element = usize;
    fn dimension(&self) -> usize { self.dist.len() }
}
impl ObjectiveFunction for Tsp {
    fn objective(&self, s: &Vec<usize>) -> SingleObjective {
        let v = self.f(s);
        self.probe.record(v);
        SingleObjective::try_from(v).unwrap()
    }
}
impl TravellingSalespersonProblem for Tsp {
    fn distance(&self, edge: (usize, usize)) -> f64 { self.dist[edge.0][edge.1] }
}
impl KnownOptimumProblem for Tsp {
    fn known_optimum(&self) -> SingleObjective { SingleObjective::try_from(0.0).unwrap() }
}
