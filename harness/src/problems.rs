//! Test problems used by the harness binaries.
use mahf::{problems::ObjectiveFunction, Problem, SingleObjective};

/// A problem whose solutions are opaque tags; objective = tag as f64.
pub struct TagProblem;
impl Problem for TagProblem {
    type Encoding = u64;
    type Objective = SingleObjective;
    fn name(&self) -> &str { "tag" }
}
impl ObjectiveFunction for TagProblem {
    fn objective(&self, s: &u64) -> SingleObjective {
        SingleObjective::try_from(*s as f64).unwrap()
    }
}
