//! Scripted random generator shared by the C17 / C18 / C20 harness binaries (included with
//! `#[path]`). `Random::with_rng::<ScriptRng>(id)` needs `SeedableRng`; `seed_from_u64(id)` looks
//! the script up in a process-global table. The generator replays the scripted 64-bit words, then
//! continues with SplitMix64 seeded from the script's `fallback` (so a case is a pure function of
//! its input), and counts every word it hands out.
#![allow(dead_code)]
use std::collections::HashMap;
use std::sync::atomic::{AtomicU64, AtomicUsize, Ordering};
use std::sync::{Arc, Mutex, OnceLock};

use hcommon::Sm;
use rand::{RngCore, SeedableRng};

pub struct Script {
    pub words: Vec<u64>,
    pub fallback: u64,
    pub used: AtomicUsize,
}
impl Script {
    pub fn used(&self) -> usize {
        self.used.load(Ordering::SeqCst)
    }
}

fn table() -> &'static Mutex<HashMap<u64, Arc<Script>>> {
    static T: OnceLock<Mutex<HashMap<u64, Arc<Script>>>> = OnceLock::new();
    T.get_or_init(|| Mutex::new(HashMap::new()))
}
static NEXT_ID: AtomicU64 = AtomicU64::new(1);

/// Registers a script; the returned id is what `Random::with_rng::<ScriptRng>(id)` takes.
pub fn register(words: Vec<u64>, fallback: u64) -> (u64, Arc<Script>) {
    let id = NEXT_ID.fetch_add(1, Ordering::SeqCst);
    let s = Arc::new(Script { words, fallback, used: AtomicUsize::new(0) });
    table().lock().unwrap().insert(id, s.clone());
    (id, s)
}
pub fn unregister(id: u64) {
    table().lock().unwrap().remove(&id);
}

pub struct ScriptRng {
    script: Arc<Script>,
    pos: usize,
    fallback: Sm,
}
impl ScriptRng {
    pub fn from_script(script: Arc<Script>) -> Self {
        let fallback = Sm::new(script.fallback);
        ScriptRng { script, pos: 0, fallback }
    }
}
impl RngCore for ScriptRng {
    fn next_u32(&mut self) -> u32 {
        (self.next_u64() >> 32) as u32
    }
    fn next_u64(&mut self) -> u64 {
        let w = if self.pos < self.script.words.len() { self.script.words[self.pos] } else { self.fallback.next() };
        self.pos += 1;
        self.script.used.fetch_add(1, Ordering::SeqCst);
        w
    }
    fn fill_bytes(&mut self, dest: &mut [u8]) {
        for chunk in dest.chunks_mut(8) {
            let w = self.next_u64().to_le_bytes();
            chunk.copy_from_slice(&w[..chunk.len()]);
        }
    }
    fn try_fill_bytes(&mut self, dest: &mut [u8]) -> Result<(), rand::Error> {
        self.fill_bytes(dest);
        Ok(())
    }
}
impl SeedableRng for ScriptRng {
    type Seed = [u8; 8];
    fn from_seed(seed: [u8; 8]) -> Self {
        Self::seed_from_u64(u64::from_le_bytes(seed))
    }
    fn seed_from_u64(id: u64) -> Self {
        let script = table().lock().unwrap().get(&id).cloned().unwrap_or_else(|| {
            Arc::new(Script { words: vec![], fallback: id, used: AtomicUsize::new(0) })
        });
        ScriptRng::from_script(script)
    }
}

/// The word whose `gen::<f64>()` value is `k · 2⁻⁵³` (low 11 bits taken from `noise`).
pub fn word_for_k(k: u64, noise: u64) -> u64 {
    (k << 11) | (noise & 0x7ff)
}
/// `gen::<f64>()` of a word: `(w >> 11) · 2⁻⁵³`.
pub fn unit_of_word(w: u64) -> f64 {
    (w >> 11) as f64 * (1.0 / (1u64 << 53) as f64)
}
/// Word whose `gen::<f64>()` is the representable grid point closest below-or-equal to `u ∈ [0,1)`.
pub fn word_for_unit(u: f64, noise: u64) -> u64 {
    let k = (u * (1u64 << 53) as f64).floor();
    let k = if k < 0.0 { 0 } else if k >= (1u64 << 53) as f64 { (1u64 << 53) - 1 } else { k as u64 };
    word_for_k(k, noise)
}
