//! C13 part 2 — mutation / recombination components (module of bin `c13`).
use hcommon::*;

pub fn run_component(name: &str, _a: &[Sx]) -> String {
    panic!("unknown case kind {name}")
}

pub fn site_of(name: &str, _a: &[Sx]) -> String {
    name.to_string()
}

pub fn generate(_a: &Args, _rng: &mut Sm, _emit: &mut dyn FnMut(String)) {}
